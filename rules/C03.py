"""C03 — range scans: pipeline composition and snapshot capture."""
import re

from blue import prim as P
from blue.facts import callee_skey, strip_generics
from . import common as K
from . import C06

EXPLANATION = (
    "C03 structural clauses: (C03.1) every scan entry point returns Bounds(Pruning(Merging(components))) with the captured "
    "timestamp in the single pruning stage and the caller's bounds in the bounds stage; no component is pruned before the "
    "merge (a tombstone dropped per component could not shadow an older component's value: finding F10); the store's "
    "components are the scans of mem, imm (when present) and the version; the version's components are Lazy(file) for "
    "every L0 file and Concatenating(Lazy(file)...) per deeper level for every file whose key range overlaps the bounds; "
    "stand-alone SST and block scans are Bounds(Pruning(raw cursor)); (C03.2) exhaustion tests go through key() "
    "(C11.1); (C03.3) the snapshot is captured atomically (C06.3 rules).  ORIGIN chains, loop-body MUSTPASS, GUARDED.")
NOT_DECIDED = ("ordering, exactly-once, seek landing and scan/point-read agreement: semantics of the combinators over all "
               "inputs and call programs (C11), not visible in code shape")
ASSUMPTIONS = ["the cursor combinators implement their definitions (C11)"]

KVS = "lsmtk::kvs::KeyValueStore::"
RET = {"k": "copy", "pl": {"l": 0, "p": []}}


def rules(ctx):
    c031_store(ctx)
    c031_version(ctx)
    c031_leaves(ctx)
    C06.c063(ctx)
    from . import C11
    C11.c111(ctx)
    C11.c112(ctx)   # the memtable cursor and the pinned cursor hand every entry on, one step per step
    C11.c115(ctx)   # bounded scans: the bounds cursor honours both bounds in both directions
    C11.c116(ctx)   # per-level concatenation: seek/next/prev move on from an exhausted file
    C11.c117(ctx)   # per-level concatenation: an entered file is positioned by a seek of its own
    C11.c113(ctx)   # the merge: direction switches and seeks rebuild the heap under the right comparator
    C11.c119(ctx)   # the merge: backward order is the exact reverse of forward order, ties on the user key included
    C11.c114(ctx)   # the pruning stage: timestamp filter, tombstones, skip_key screen and reset
    C06.c065(ctx)   # the timestamp a scan captures covers exactly the completely inserted batches
    from . import C05
    C05.c055(ctx)   # a GC that drops a live value makes the scan miss it
    from . import C01
    C01.c019(ctx)   # after a reopen, mutually unordered overlapping files share a level: the per-level concatenation is then out of order


def stage_calls(f, pat):
    return P.call_points(f, pat)


def c031_store(ctx):
    R = "C03.1"
    ctx.declare(R, "a store scan is Bounds(Pruning(Merging(mem, imm?, version))) at the captured timestamp")
    f = ctx.fn(R, KVS + "range_scan")
    if f:
        ok = K.origin_chain(f, RET, ["BoundsCursor::new", "PruningCursor::new", "MergingCursor::new"]) or \
            K.origin_chain(f, RET, ["PinnedCursor::new", "BoundsCursor::new", "PruningCursor::new", "MergingCursor::new"])
        ctx.check(R, f, "pipeline", ok, "returns [Pinned(]Bounds(Pruning(Merging(..)))[)]", "the store scan no longer returns Bounds(Pruning(Merging(..)))")
        mc = ctx.calls(R, f, r"merging_cursor::MergingCursor::new$")
        for pt in mc:
            comps = P.origin_calls(f, P.term_at(f, pt)["args"][0])
            mt = [s for s in P.origins(f, P.term_at(f, pt)["args"][0]) if s["k"] == "call" and s["callee"].endswith("memtable::MemTable::range_scan")]
            recv = set()
            for s in mt:
                recv |= {n for (_o, n) in P.origin_fields(f, s["t"]["args"][0])}
            ctx.check(R, f, "components", {"mem", "imm"} <= recv and any(c.endswith("VersionRef::range_scan") for c in comps),
                      "the merged components are the scans of state.mem, state.imm and the version",
                      "a component is missing from the merged scan (have memtables %s, version %s)" % (sorted(recv & {"mem", "imm"}), any(c.endswith("VersionRef::range_scan") for c in comps)), pt=pt)
        # each component is pushed on every path on which it exists
        pushes = P.call_points(f, r"alloc::vec::Vec.*::push$")
        for label, pat, field in (("mem scan", r"memtable::MemTable::range_scan$", "mem"), ("version scan", r"VersionRef::range_scan$", None)):
            site = [p for p in P.call_points(f, pat) if field is None or (field in K.arg_field_names(f, p, 0) and "imm" not in K.arg_field_names(f, p, 0))]
            mine = [p for p in pushes if any(s["k"] == "call" and s["pt"] in set(site) for s in P.origins(f, P.term_at(f, p)["args"][1]))]
            ctx.check(R, f, "pushed:" + label, bool(mine) and P.must_pass(f, mine) is None, "the %s is pushed on every success path" % label,
                      "the %s can be left out of the merged scan" % label)
        imm_site = [p for p in P.call_points(f, r"memtable::MemTable::range_scan$") if "imm" in K.arg_field_names(f, p, 0)]
        imm_push = [p for p in pushes if any(s["k"] == "call" and s["pt"] in set(imm_site) for s in P.origins(f, P.term_at(f, p)["args"][1]))]
        for s in imm_site:
            p = P.reach(f, P.after(f, s), mc, avoid=set(imm_push) | set(P.error_points(f)))
            ctx.check(R, f, "pushed:imm scan", p is None and bool(imm_push), "when imm exists its scan is pushed", "the imm scan can be created and not merged", pt=s, path=p)
        # the single pruning stage sits after the merge and takes the captured snapshot timestamp
        tsf = C06.reader_timestamp_fields(ctx, R)
        prs = ctx.calls(R, f, r"pruning_cursor::PruningCursor::new$")
        ctx.check(R, f, "one-pruning-stage", len(prs) == 1, "exactly one pruning stage (after the merge)", "the store scan has %d pruning stages" % len(prs))
        for pt in prs:
            t = P.term_at(f, pt)
            flds = {n for (_o, n) in P.origin_fields(f, t["args"][1])}
            ctx.check(R, f, "timestamp", bool(flds & tsf), "the pruning stage takes the captured snapshot timestamp",
                      "the pruning stage is not given the captured snapshot timestamp", pt=pt)
            ctx.check(R, f, "prune-after-merge", K.origin_chain(f, t["args"][0], ["MergingCursor::new"]), "what is pruned is the merged stream",
                      "the pruning stage is not applied to the merged stream", pt=pt)
        no_prune_before_merge(ctx, R, f, mc)
        for pt in P.call_points(f, r"bounds_cursor::BoundsCursor::new$"):
            t = P.term_at(f, pt)
            ok = any(s["k"] == "param" and s["i"] == 2 for s in P.origins(f, t["args"][1])) and any(s["k"] == "param" and s["i"] == 3 for s in P.origins(f, t["args"][2]))
            ctx.check(R, f, "bounds", ok, "BoundsCursor takes the caller's start and end bounds", "BoundsCursor is not given the caller's bounds", pt=pt)
    f = ctx.fn(R, "lsmtk::tree::LsmTree::range_scan")
    if f:
        ok = K.origin_chain(f, RET, ["PinnedCursor::new", "BoundsCursor::new", "PruningCursor::new", "VersionRef::range_scan"]) or \
            K.origin_chain(f, RET, ["BoundsCursor::new", "PruningCursor::new", "VersionRef::range_scan"])
        ctx.check(R, f, "pipeline", ok, "returns [Pinned(]Bounds(Pruning(version scan))[)]", "the tree scan no longer returns Bounds(Pruning(version scan))")
    f = ctx.fn(R, "lsmtk::tree::VersionRef::range_scan")
    if f:
        ctx.must_pass(R, f, "Version::range_scan", ctx.calls(R, f, r"lsmtk::tree::Version::range_scan$"), goals=P.return_points(f))


def pruned_before(ctx, f, op, depth=5):
    """Does the value reaching `op` come out of a PruningCursor (directly, or built by a workspace function that
    returns Pruning(..))?  Tombstones dropped before the merge cannot shadow older components."""
    for s in P.origins(f, op):
        if s["k"] == "agg" and s.get("adt") and depth > 0:
            for o in s["st"]["rv"]["ops"]:
                r = pruned_before(ctx, f, o, depth - 1)
                if r:
                    return r
        if s["k"] != "call":
            continue
        if s["callee"].endswith("PruningCursor::new"):
            return (f, s["pt"])
        if re.search(r"Cursor::new$", s["callee"]) and depth > 0 and s["t"]["args"]:
            r = pruned_before(ctx, f, s["t"]["args"][0], depth - 1)
            if r:
                return r
        if depth > 0 and re.search(r"::(range_scan|cursor|scan)$", s["callee"]):
            for k in ctx.prog.targets(s["t"]):
                g = ctx.prog.fns.get(k)
                if g and g.crate in ("lsmtk", "sst") and g is not f:
                    r = pruned_before(ctx, g, RET, depth - 1)
                    if r:
                        return r
    return None


def no_prune_before_merge(ctx, R, f, merge_pts):
    for pt in merge_pts:
        r = pruned_before(ctx, f, P.term_at(f, pt)["args"][0])
        ctx.check(R, f, "tombstones-reach-the-merge", r is None,
                  "no component of the merged scan is pruned before the merge (tombstones can shadow older components)",
                  "a component of the merged scan is pruned before the merge (%s): its tombstones cannot shadow the same key in an older component, "
                  "so a deleted key reappears in scans" % (("%s at %s" % (r[0].skey, P.pt_loc(r[0], r[1]))) if r else ""), pt=pt)


def c031_version(ctx):
    R = "C03.1v"
    ctx.declare(R, "a version scan merges Lazy(file) of every L0 file and Concat(Lazy(file)..) of every overlapping deeper file, unpruned")
    f = ctx.fn(R, "lsmtk::tree::Version::range_scan")
    if not f:
        return
    ok = K.origin_chain(f, RET, ["MergingCursor::new"])
    mc = ctx.calls(R, f, r"merging_cursor::MergingCursor::new$")
    ctx.check(R, f, "pipeline", ok, "returns MergingCursor::new(cursors)", "Version::range_scan no longer returns the merged cursor")
    pushes = P.call_points(f, r"alloc::vec::Vec.*::push$")
    no_prune_before_merge(ctx, R, f, mc)
    direct = [p for p in pushes if K.origin_chain(f, P.term_at(f, p)["args"][1], ["LazyCursor::new"]) and
              not K.origin_chain(f, P.term_at(f, p)["args"][1], ["ConcatenatingCursor::new"])]
    concat = [p for p in pushes if K.origin_chain(f, P.term_at(f, p)["args"][1], ["ConcatenatingCursor::new"])]
    ctx.check(R, f, "push-kinds", len(direct) == 2 and len(concat) == 1,
              "pushes: L0 file -> cursors, deeper file -> this_level_cursors, level -> cursors (as ConcatenatingCursor)",
              "the set of pushed cursor kinds changed (direct=%d concat=%d)" % (len(direct), len(concat)))
    # L0: every file is pushed
    heads = [h for h in P.call_points(f, r"Iterator>::next$") if P.reach(f, P.after(f, h), [h])]
    merged_vec = set()
    for m_ in mc:
        merged_vec |= K.user_locals(f, P.term_at(f, m_)["args"][0])
    cc_ = P.call_points(f, r"concat_cursor::ConcatenatingCursor.*::new$")
    level_vec = set()
    for c_ in cc_:
        level_vec |= K.user_locals(f, P.term_at(f, c_)["args"][0])
    merged_vec -= level_vec
    l0_push = [p for p in direct if K.user_locals(f, P.term_at(f, p)["args"][0]) & merged_vec and not (K.user_locals(f, P.term_at(f, p)["args"][0]) & level_vec)]
    lv_push = [p for p in direct if p not in l0_push]
    lv_push = [p for p in direct if p not in l0_push]
    for pts, label in ((l0_push, "L0 file"), ):
        hs = [h for h in heads if pts and P.reach(f, P.after(f, h), pts, avoid=set(heads) - {h})]
        for h in hs:
            p = P.reach(f, P.after(f, h), [h], avoid=set(pts) | set(P.error_points(f)) | (set(heads) - {h}))
            ctx.check(R, f, "every:" + label, p is None, "every %s is pushed" % label, "an %s can be skipped" % label, pt=h, path=p)
            ity = K.loop_iterator_type(f, h)
            ctx.check(R, f, "iterates-every:" + label, not K.DROPPING_ADAPTERS.search(ity), "the loop visits every %s (%s)" % (label, ity[:70]),
                      "the %ss are iterated through `%s`, which can leave files out" % (label, ity[:140]), pt=h)
        ctx.floor(R, label + " loop", len(hs), 1)
    # deeper levels: a file is skipped only on a false edge of compare_bounds_le
    for pts, label in ((lv_push, "deeper-level file"),):
        hs = [h for h in heads if pts and P.reach(f, P.after(f, h), pts, avoid=set(heads) - {h})]
        fe = set()
        for b in P.switch_blocks(f):
            if any(c.endswith("compare_bounds_le") for c in K.cond_calls(f, b.idx)):
                fe.add((b.idx, "sw:0"))
        ctx.floor(R, "overlap tests", len(fe), 2)
        for h in hs:
            ity = K.loop_iterator_type(f, h)
            sub = K.loop_source_subslice(f, h)
            ctx.check(R, f, "whole-level:" + label, sub is None, "the loop runs over the level's whole file list", "the loop runs over a sub-slice of the level's files (%s)" % sub, pt=h)
            ctx.check(R, f, "iterates-every:" + label, not K.DROPPING_ADAPTERS.search(ity), "the loop visits every file of the level (%s)" % ity[:70],
                      "the level's files are iterated through `%s`: files are left out by an iterator adaptor, not by the overlap test "
                      "(versions of one key can span adjacent files of a level)" % ity[:140], pt=h)
            p = P.reach(f, P.after(f, h), [h], avoid=set(pts) | set(P.error_points(f)) | (set(heads) - {h}), avoid_edges=fe)
            ctx.check(R, f, "every:" + label, p is None, "a %s is skipped only when its key range does not overlap the bounds" % label,
                      "an overlapping %s can be skipped" % label, pt=h, path=p)
    # ... and the predicate itself never rules out an overlapping file: its decision table over (kind of lower bound, kind of
    # upper bound, order of the two keys) is read from MIR and compared with interval non-emptiness
    overlap_predicate(ctx, R, f)
    # the level's files are concatenated and pushed unless there are none
    for pt in concat:
        cc = P.call_points(f, r"concat_cursor::ConcatenatingCursor.*::new$")
        ctx.check(R, f, "concat-level", bool(cc) and all(K.user_locals(f, P.term_at(f, c)["args"][0]) & {l for p_ in lv_push for l in K.user_locals(f, P.term_at(f, p_)["args"][0])} for c in cc), "the level's cursors are concatenated",
                  "the ConcatenatingCursor is not built over the level's cursors", pt=pt)
        g = K.guarded_by_call(f, pt, r"Vec.*::is_empty$", label="sw:0")
        ctx.check(R, f, "concat-nonempty", g is not None, "a level is skipped only when it has no overlapping file", "a level's cursors can be dropped", pt=pt)
    for pt in mc:
        ctx.check(R, f, "merge-all", bool(K.user_locals(f, P.term_at(f, pt)["args"][0]) & {l for p_ in l0_push + concat for l in K.user_locals(f, P.term_at(f, p_)["args"][0])}), "MergingCursor takes the collected cursors", "MergingCursor is not built over the collected cursors", pt=pt)
    # the lazy closure opens the file of the iterated metadata: the function (found by what it does, not by its name) that the closures
    # handed to LazyCursor::new call and that builds the path with SST_FILE takes the file's setsum as a parameter
    openers = {}
    for g in ctx.prog.closures_of(f):
        for _b, t in g.calls():
            for k in ctx.prog.targets(t):
                h = ctx.prog.fns.get(k)
                if h is not None and h.crate == "lsmtk" and P.call_points(h, r"^lsmtk::SST_FILE$"):
                    openers[h.key] = h
        if P.call_points(g, r"^lsmtk::SST_FILE$"):
            openers[g.key] = g
    ctx.check(R, f, "lazy-opener", len(openers) >= 1, "the lazy closures open their file through %s" % sorted(h.skey for h in openers.values()),
              "no closure of Version::range_scan opens an SST file lazily any more")
    for lz in openers.values():
        for pt in P.call_points(lz, r"^lsmtk::SST_FILE$"):
            srcs = P.origins(lz, P.term_at(lz, pt)["args"][1])
            own = any(s_["k"] == "param" and "setsum::Setsum" in lz.locals[s_["i"]] for s_ in srcs) or \
                any(s_["k"] == "upvar" or (s_["k"] == "field" and "closure" in s_.get("owner", "")) for s_ in srcs) or \
                ("{closure" in lz.key and any(s_["k"] == "param" and s_["i"] == 1 for s_ in srcs))      # a captured setsum (the closure's environment)
            ctx.check(R, lz, "opens-own-file", own, "the opener builds SST_FILE(root, setsum) from the setsum it is given",
                      "the lazy opener builds the path of a different file", pt=pt)


def c031_leaves(ctx):
    R = "C03.1l"
    ctx.declare(R, "stand-alone SST and block scans are Bounds(Pruning(raw cursor)) at the given timestamp and bounds; a memtable scan (always merged) is Bounds(raw cursor)")
    for key, chain in (("lsmtk::kvs::memtable::MemTable::range_scan", ["BoundsCursor::new"]),
                       ("sst::Sst::range_scan", ["BoundsCursor::new", "PruningCursor::new", "Sst::cursor"]),
                       ("sst::block::Block::range_scan", ["BoundsCursor::new", "PruningCursor::new", "Block::cursor"])):
        f = ctx.fn(R, key)
        if not f:
            continue
        ok = K.origin_chain(f, RET, chain)
        if not ok:
            for s in P.origins(f, RET):
                if s["k"] == "agg" and s.get("adt", "").endswith("MemTableCursor"):
                    ok = K.origin_chain(f, s["st"]["rv"]["ops"][0], chain)
        ctx.check(R, f, "pipeline", ok, "returns %s" % "(".join(chain), "%s no longer returns %s" % (f.skey, "(".join(chain)))
        for pt in P.call_points(f, r"pruning_cursor::PruningCursor::new$"):
            ctx.check(R, f, "timestamp", any(s["k"] == "param" and s["i"] == 4 for s in P.origins(f, P.term_at(f, pt)["args"][1])),
                      "PruningCursor takes the timestamp parameter", "PruningCursor is not given the timestamp parameter", pt=pt)
        for pt in P.call_points(f, r"bounds_cursor::BoundsCursor::new$"):
            t = P.term_at(f, pt)
            ok = any(s["k"] == "param" and s["i"] == 2 for s in P.origins(f, t["args"][1])) and any(s["k"] == "param" and s["i"] == 3 for s in P.origins(f, t["args"][2]))
            ctx.check(R, f, "bounds", ok, "BoundsCursor takes the bound parameters", "BoundsCursor is not given the bound parameters", pt=pt)
    f = ctx.fn(R, "lsmtk::kvs::memtable::MemTable::range_scan")
    if f:
        it = ctx.calls(R, f, r"skipfree::SkipList.*::iter$")
        ctx.check(R, f, "skiplist-iter", bool(it), "the raw cursor is the memtable's skiplist iterator", "the memtable scan is not over its skiplist")


# ------------------------------------------------------------------------------------------------
# the overlap predicate, evaluated over the finite abstraction (bound kinds x key order)

BOUND_VARIANTS = {0: "Included", 1: "Excluded", 2: "Unbounded"}
CMP = re.compile(r"::(lt|le|gt|ge|eq|ne)$")


def bound_decision_table(g):
    """For a loop-free predicate over (lhs: Bound, rhs: Bound): {(lhs kind, rhs kind): result} with result
    ('const', bool) or ('cmp', op, swapped?).  None (with a reason) if the function has another shape."""
    def side_of(pl, depth=0):
        srcs = P.origins(g, {"k": "copy", "pl": pl})
        ps = {s["i"] for s in srcs if s["k"] == "param"}
        if not ps and depth < 3:
            # through a kind-preserving conversion helper (bound_to_bound: Bound<U> -> Bound<&[u8]>), checked separately
            for s in srcs:
                if s["k"] == "call" and len(s["t"]["args"]) == 1 and s["t"]["args"][0].get("k") in ("copy", "move"):
                    helpers.add(s["callee"])
                    r = side_of(s["t"]["args"][0]["pl"], depth + 1)
                    if r:
                        ps.add(r)
        return 1 if ps == {1} else 2 if ps == {2} else None

    helpers = set()

    out = {}
    stack = [(0, {}, frozenset())]
    while stack:
        bi, asg, seen = stack.pop()
        if bi in seen:
            return None, "the predicate has a loop"
        seen = seen | {bi}
        b = g.blocks[bi]
        t = b.term
        if t["t"] == "switch":
            d = t["discr"]
            side = None
            if d.get("k") in ("copy", "move"):
                for (_pt, kind, p_) in P.defs(g).of(d["pl"]["l"]):
                    if kind == "assign" and p_["rv"]["r"] == "discr":
                        side = side_of(p_["rv"]["pl"])
            if side is None:
                return None, "a branch in the predicate is not on the kind of one of the two bounds"
            for lab, s_ in b.succs:
                m = re.match(r"sw:(\d+)$", lab)
                if not m:
                    continue    # `otherwise` of an exhaustive match is unreachable
                v = BOUND_VARIANTS.get(int(m.group(1)))
                if v is None or (side in asg and asg[side] != v):
                    continue
                a2 = dict(asg)
                a2[side] = v
                stack.append((s_, a2, seen))
            continue
        if t["t"] == "call" and not t["dest"]["p"] and t["dest"]["l"] == 0:
            ck = callee_skey(t) or ""
            m = CMP.search(ck)
            if not m or len(t["args"]) != 2:
                return None, "the predicate returns the result of %s" % P.short(ck)
            s0, s1 = side_of(t["args"][0]["pl"]) if t["args"][0].get("k") in ("copy", "move") else None, side_of(t["args"][1]["pl"]) if t["args"][1].get("k") in ("copy", "move") else None
            if {s0, s1} != {1, 2}:
                return None, "the comparison is not between the two bounds' keys"
            res = ("cmp", m.group(1), s0 == 2)
            for l_ in ([asg[1]] if 1 in asg else BOUND_VARIANTS.values()):
                for r_ in ([asg[2]] if 2 in asg else BOUND_VARIANTS.values()):
                    out[(l_, r_)] = res
            continue     # the call's continuation only drops and returns
        consts = [st for st in b.st if st["s"] == "=" and st["lhs"]["l"] == 0 and not st["lhs"]["p"] and st["rv"]["r"] == "use" and st["rv"]["a"].get("k") == "const"]
        if consts:
            v = consts[-1]["rv"]["a"]["c"].get("v")
            for l_ in ([asg[1]] if 1 in asg else BOUND_VARIANTS.values()):
                for r_ in ([asg[2]] if 2 in asg else BOUND_VARIANTS.values()):
                    out[(l_, r_)] = ("const", bool(v))
            continue
        for _lab, s_ in b.succs:
            stack.append((s_, asg, seen))
    return out, sorted(helpers)


def overlap_predicate(ctx, R, f):
    preds = {}
    for b, t in f.calls():
        ck = callee_skey(t) or ""
        if any(ck.endswith("compare_bounds_le") for _ in (0,)) and any(c.endswith("compare_bounds_le") for bb in P.switch_blocks(f) for c in K.cond_calls(f, bb.idx)):
            for k in ctx.prog.targets(t):
                g = ctx.prog.fns.get(k)
                if g is not None:
                    preds[g.key] = g
    if not preds:
        # the skip condition is something else: read whichever predicate functions guard the skip edges
        ctx.violate(R, f, "overlap-predicate", "the function that decides whether a deeper-level file overlaps the scan bounds was not found")
        return
    for g in preds.values():
        tab, why = bound_decision_table(g)
        if tab is None:
            ctx.violate(R, g, "overlap-predicate", "the overlap predicate cannot be read as a decision table: %s" % why)
            continue
        for hk in why or ():
            h = next((x for x in ctx.prog.fns.values() if x.skey == hk), None)
            ht = P.switch_table(h) if h is not None else None
            keeps = ht is not None and len(ht) >= 3 and all(
                (lab[-1:] == ("sw:2",) and r[:2] == ("variant", "Unbounded")) or (lab[-1:] == ("sw:0",) and r[:2] == ("variant", "Included")) or
                (lab[-1:] == ("sw:1",) and r[:2] == ("variant", "Excluded")) or lab[-1:] == ("otherwise",) for lab, r in ht)
            ctx.check(R, g, "bound-conversion", keeps, "%s maps each kind of bound to the same kind" % P.short(hk),
                      "%s does not preserve the kind of bound (%s)" % (hk, ht))
        bad = []
        for l_ in BOUND_VARIANTS.values():
            for r_ in BOUND_VARIANTS.values():
                res = tab.get((l_, r_))
                for order in ("<", "==", ">"):
                    # lower bound l_(x), upper bound r_(y): some key k satisfies both iff ...
                    if "Unbounded" in (l_, r_):
                        spec = True
                    elif l_ == "Included" and r_ == "Included":
                        spec = order in ("<", "==")
                    else:
                        spec = order == "<"
                    if res is None:
                        got = None
                    elif res[0] == "const":
                        got = res[1]
                    else:
                        o = order if not res[2] else {"<": ">", ">": "<", "==": "=="}[order]
                        got = {"lt": o == "<", "le": o in ("<", "=="), "gt": o == ">", "ge": o in (">", "=="), "eq": o == "==", "ne": o != "=="}[res[1]]
                    if spec and got is not True:
                        bad.append("%s(x), %s(y), x %s y -> %s" % (l_, r_, order, got))
        ctx.check(R, g, "overlap-predicate", not bad and len(tab) == 9,
                  "the overlap predicate admits every (bound kind, bound kind, key order) for which the two bounds share a key (27 cases evaluated)",
                  "the overlap predicate rules out bounds that share a key: %s; a file whose first or last key equals an inclusive scan bound is "
                  "left out of the scan, so its tombstones and newer values are not merged" % "; ".join(bad[:3]))
