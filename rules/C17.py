"""C17 — lock-free skiplist and list: publication order, atomic orderings, dereference and free confinement."""
import re

from blue import prim as P
from blue.facts import callee_skey, strip_generics
from . import common as K
from . import C07

EXPLANATION = (
    "C17 structural clauses: (C17.1) the atomic-ordering table of skipfree and listfree: every store is >= Release, every "
    "compare-exchange succeeds with >= AcqRel, every load whose result can be dereferenced is >= Acquire; a Relaxed load is "
    "accepted only when its result is used for pointer identity alone; (C17.2) a node is initialised before it is "
    "published: in SkipList::insert the store of the successor into the new node dominates, and lies on every retry cycle "
    "through, the compare-exchange that links it, and both use the same observed successor; the levels are linked "
    "bottom-up (the level index handed to cas_next counts up from 0, so a node reachable at level k has its lower levels "
    "linked); the same for List::prepend; "
    "(C17.3) raw node pointers are dereferenced only in node_ptr::deref, Box::from_raw of a node appears only in Drop "
    "impls, and the Drop that frees belongs to the last owner (C07.1 rule); (C17.4) listfree iterators are lifetime-bound "
    "to their list (compile-fail witness W1, thorough tier); (C17.5) the search skeleton shared by find_greater_or_equal, "
    "find_greater_or_equal_and_pointers, find_less_than and find_last: the level starts at MAX_HEIGHT - 1, goes down one at a time and "
    "only on the `level != 0` edge, an answer is produced only on the `level == 0` edge, the walk moves right only onto a non-null "
    "node whose key is strictly before the target, every round re-reads get_next(x, level), the pointer-collecting variant "
    "records (x, next) at every level before it leaves that level, and the iterator steps along level 0.  "
    "Ordering-operand table, ORDER with cycles, who-may-call, GUARDED.")
NOT_DECIDED = "that no insert is lost and iteration is ordered under every interleaving at the granularity of individual atomics"
ASSUMPTIONS = ["the C++11/Rust memory model: Release store / Acquire load publication"]

ATOMIC = r"core::sync::atomic::Atomic\w*::(load|store|compare_exchange|compare_exchange_weak|swap|fetch_\w+)$"
STRONG_STORE = {"Release", "SeqCst", "AcqRel"}
STRONG_LOAD = {"Acquire", "SeqCst", "AcqRel"}
STRONG_CAS = {"AcqRel", "SeqCst"}


def rules(ctx):
    c171(ctx)
    c172(ctx)
    c173(ctx)
    c175(ctx)
    c176(ctx)
    C07.c071(ctx)


def c176(ctx):
    R = "C17.6"
    ctx.declare(R, "the head sentinel carries K::default() as a placeholder: an iterator reads the key or value of its current node only where that "
                   "node is known not to be the head (is_valid(), or a comparison with the head pointer)")
    n = 0
    for f in sorted(ctx.prog.fns.values(), key=lambda f: f.key):
        if f.crate != "skipfree" or not f.skey.startswith("skipfree::SkipListIterator::"):
            continue
        for p_ in P.call_points(f, r"skipfree::node_ptr::(key|value)$"):
            t = P.term_at(f, p_)
            srcs = P.origins(f, t["args"][0])
            if not any(x["k"] == "field" and x["f"] == "node" for x in srcs):
                continue        # a node returned by a search, not the iterator's position
            if all(x["k"] != "field" or x["f"] != "node" for x in srcs):
                continue
            n += 1
            ok = False
            for bb, lab, gs in K.guards(f, p_):
                if lab == "sw:1" and any(x["k"] == "call" and x["callee"].endswith("SkipListIterator::is_valid") for x in gs):
                    ok = True
                for x in gs:
                    if x["k"] == "bin" and x["op"] in ("Ne", "Eq"):
                        sides = [P.origins(f, x["st"]["rv"]["a"]), P.origins(f, x["st"]["rv"]["b"])]
                        head = any(any((y["k"] == "field" and y["f"] == "head") or
                                       (y["k"] == "call" and re.search(r"atomic::Atomic(Ptr)?(<.*>)?::load$", y["callee"]) and
                                        any(z["k"] == "field" and z["f"] == "head" for z in P.origins(f, y["t"]["args"][0]))) for y in sd) for sd in sides)
                        node = any(any(y["k"] == "field" and y["f"] == "node" for y in sd) for sd in sides)
                        if head and node and ((x["op"] == "Ne") == (lab == "sw:1")):
                            ok = True
            ctx.check(R, f, "position-read-only-if-not-head", ok, "the current node's key / value is read only where the node is not the head",
                      "%s reads the key (or value) of the iterator's current node where that node can be the head sentinel (the iterator rests there after "
                      "walking off the front): the placeholder K::default() is taken for a stored key" % f.skey, pt=p_)
    ctx.floor(R, "iterator reads of the current node", n, 3)


def orderings(f, t):
    out = []
    for a in t["args"][1:]:
        for s in P.origins(f, a):
            if s["k"] == "agg" and s.get("adt", "").endswith("atomic::Ordering"):
                out.append(s["variant"])
    return out


def identity_only(f, t):
    """The value produced by this call is used only as an operand of comparisons (==, !=, ptr::eq)."""
    work = [t["dest"]["l"]]
    seen = set()
    while work:
        l = work.pop()
        if l in seen:
            continue
        seen.add(l)
        if l == 0:
            return False   # returned to the caller, who may dereference it
        for u in K.local_uses(f, l):
            kind = u[0]
            if kind == "drop":
                continue
            if kind == "operand":
                st = u[2]
                rv = st["rv"]
                if rv["r"] == "bin" and rv["op"] in ("Eq", "Ne"):
                    continue
                if rv["r"] in ("use", "cast") and not st["lhs"]["p"]:
                    work.append(st["lhs"]["l"])
                    continue
                return False
            if kind == "ref":
                st = u[2]
                if not st["lhs"]["p"]:
                    work.append(st["lhs"]["l"])
                    continue
                return False
            if kind == "arg":
                ck = callee_skey(u[2]) or ""
                if re.search(r"core::ptr::eq$|PartialEq.*>::(eq|ne)$|core::cmp::PartialEq::(eq|ne)$", ck):
                    continue
                return False
            return False
    return True


def c171(ctx):
    R = "C17.1"
    ctx.declare(R, "publication needs Release stores and Acquire loads of every pointer that is later dereferenced")
    n = 0
    for f in sorted(ctx.prog.fns.values(), key=lambda f: f.key):
        if f.crate not in ("skipfree", "listfree"):
            continue
        for b, t in f.calls():
            ck = callee_skey(t) or ""
            m = re.search(ATOMIC, ck)
            if not m:
                continue
            n += 1
            op = m.group(1)
            pt = P.term_pt(f, b.idx)
            ords = orderings(f, t)
            if op == "store":
                ctx.check(R, f, "store", bool(ords) and ords[0] in STRONG_STORE, "store is %s" % ords, "a pointer is published with a %s store (needs Release)" % ords, pt=pt)
            elif op.startswith("compare_exchange"):
                ctx.check(R, f, "cas", len(ords) == 2 and ords[0] in STRONG_CAS, "compare_exchange succeeds with %s" % ords[:1],
                          "compare_exchange publishes a node with success ordering %s (needs AcqRel)" % ords[:1], pt=pt)
            elif op == "load":
                if ords and ords[0] in STRONG_LOAD:
                    ctx.ok(R, f, "load is %s" % ords, [pt])
                else:
                    ok = identity_only(f, t)
                    ctx.check(R, f, "load", ok, "a %s load is used for pointer identity only" % ords,
                              "a %s load produces a pointer that can be dereferenced (needs Acquire)" % ords, pt=pt)
            else:
                ctx.check(R, f, op, bool(ords) and ords[0] in STRONG_CAS, "%s is %s" % (op, ords), "%s with ordering %s" % (op, ords), pt=pt)
    ctx.floor(R, "atomic operations in skipfree/listfree", n, 18)


def level_counts_up(f, op):
    """The index operand is produced by a forward `0..n` range (or an index that starts at 0 and is only
    incremented); nothing in its slice reverses or decrements it."""
    srcs, _ = P.value_slice(f, op)
    idx_srcs = [s for s in P.origins(f, op) if s["k"] == "index"]
    if idx_srcs and all(s.get("from") == 0 and s.get("plain") for s in idx_srcs):
        others = [s for s in P.origins(f, op) if s["k"] not in ("index", "call", "field")]
        if not others:
            return True, "the running index of enumerate() over an un-reversed chain"
    calls = {s["callee"] for s in srcs if s["k"] == "call"}
    back = sorted(c for c in calls if re.search(r"Rev\b|::rev$|next_back$|::rfold$|::rposition$|::nth_back$", c))
    subs = [s for s in srcs if s["k"] == "bin" and s["op"].startswith("Sub")]
    if back or subs:
        return False, "reversed by %s" % (back or "a subtraction")
    fwd = any(re.search(r"^core::iter::range::(.*::)?next$", c) for c in calls)
    starts = []
    for s in srcs:
        if s["k"] == "agg" and s.get("adt", "").startswith("core::ops::range::Range"):
            starts += [o.get("v") for o in P.origin_consts(f, s["st"]["rv"]["ops"][0])]
    if fwd and starts and all(str(v) in ("0", "0_usize") or v == 0 for v in starts):
        return True, "for idx in 0..height"
    adds = [s for s in srcs if s["k"] == "bin" and s["op"].startswith("Add")]
    zero = any(s["k"] == "const" and (s.get("v") == 0 or str(s.get("v")) == "0") for s in srcs)
    if adds and zero and not fwd:
        return True, "idx starts at 0 and is incremented"
    return False, "level index is not a forward range from 0 (calls %s, range starts %s)" % (sorted(calls), starts)


def c172(ctx):
    R = "C17.2"
    ctx.declare(R, "a node's successor pointer is stored before the node is linked, on every retry")
    f = ctx.fn(R, "skipfree::SkipList::insert")
    if f:
        sn = ctx.calls(R, f, r"skipfree::node_ptr::set_next$")
        cs = ctx.calls(R, f, r"skipfree::node_ptr::cas_next$")
        ctx.order_chain(R, f, [("set_next(x, idx, obs[idx])", sn), ("cas_next(prev[idx], idx, obs[idx], x)", cs)], cycles=True)
        for p in sn:
            t = P.term_at(f, p)
            newn = any(c.endswith("::new_node") for c in P.origin_calls(f, t["args"][0]))
            obs_here = K.user_locals(f, t["args"][2])
            obs_cas = set()
            for q in cs:
                obs_cas |= K.user_locals(f, P.term_at(f, q)["args"][2])
            ctx.check(R, f, "set_next-args", newn and bool(obs_here & obs_cas),
                      "set_next initialises the new node x with the observed successor", "set_next does not store obs[idx] into the new node", pt=p)
        for p in cs:
            t = P.term_at(f, p)
            obs_set = set()
            for q in sn:
                obs_set |= K.user_locals(f, P.term_at(f, q)["args"][2])
            same_obs = bool(K.user_locals(f, t["args"][2]) & obs_set)
            other_vec = not (K.user_locals(f, t["args"][0]) & K.user_locals(f, t["args"][2]) - {l for l in K.user_locals(f, t["args"][0]) if "usize" in f.locals[l]})
            ctx.check(R, f, "cas-args", same_obs and any(c.endswith("::new_node") for c in P.origin_calls(f, t["args"][3])) and
                      any(c.endswith("find_greater_or_equal_and_pointers") for c in P.origin_calls(f, t["args"][0])),
                      "cas_next swings prev[idx] from the same observed successor to x", "cas_next does not compare against the successor stored into the node", pt=p)
        nn = ctx.calls(R, f, r"skipfree::SkipList.*::new_node$")
        ctx.order_chain(R, f, [("new_node", nn), ("set_next", sn)])
        # levels are linked bottom-up: a node reachable at level k already has its successors at every level below
        # k, which searches descend through.  The level index handed to cas_next counts up from 0.
        for p in cs:
            up, why = level_counts_up(f, P.term_at(f, p)["args"][1])
            ctx.check(R, f, "level-order", up, "levels are linked in ascending order starting at level 0 (%s)" % why,
                      "the new node is not linked at level 0 first (%s): a search can descend through a tower whose lower "
                      "levels are still null" % why, pt=p)
    f = ctx.fn(R, "listfree::List::prepend")
    if f:
        sn = ctx.calls(R, f, r"listfree::node_ptr::set_next$")
        # whatever makes the node reachable from List.head (compare_exchange, swap, store, fetch_update) comes after its link is set
        pub = [p_ for p_ in P.call_points(f, r"Atomic\w*::(compare_exchange|compare_exchange_weak|swap|store|fetch_update)$")
               if any(s_["k"] == "field" and s_["f"] == "head" for s_ in P.origins(f, P.term_at(f, p_)["args"][0]))]
        ctx.floor(R, "List::prepend publication of the node", len(pub), 1)
        for p_ in pub:
            bad = P.order(f, sn, [p_], cycles=True)
            ctx.check(R, f, "link-before-publish", not bad, "the node's next pointer is stored before %s makes it reachable from head" % P.short(callee_skey(P.term_at(f, p_))),
                      "List::prepend makes the node reachable from head (%s) before its next pointer is set: an iteration that starts in that window "
                      "ends at the half-linked node and misses every older element" % P.short(callee_skey(P.term_at(f, p_))), pt=p_)
        cs = ctx.calls(R, f, r"Atomic\w*::compare_exchange$")
        ctx.order_chain(R, f, [("set_next(node, head)", sn), ("compare_exchange(head, node)", cs)], cycles=True)
        for p in cs:
            t = P.term_at(f, p)
            ctx.check(R, f, "cas-args", any(c.endswith("::load") for c in P.origin_calls(f, t["args"][1])) and any(re.search(r"Box.*::(leak|into_raw|new)$", c) for c in P.origin_calls(f, t["args"][2])),
                      "compare_exchange swings List.head from the observed head to the node", "compare_exchange arguments are not (head, node)", pt=p)
        for p in sn:
            t = P.term_at(f, p)
            ctx.check(R, f, "set_next-args", any(re.search(r"Box.*::(leak|into_raw|new)$", c) for c in P.origin_calls(f, t["args"][0])) and any(c.endswith("::load") for c in P.origin_calls(f, t["args"][1])),
                      "the node's next is the observed head", "set_next does not store the observed head into the node", pt=p)
        # the head observed is re-read on every retry
        ld = [p for p in P.call_points(f, r"Atomic\w*::load$")]
        ctx.order_chain(R, f, [("head.load", ld), ("set_next", sn)], cycles=True)


def raw_derefs(f, ty_rx):
    out = []
    rx = re.compile(ty_rx)
    for b in f.blocks:
        for i, st in enumerate(b.st):
            if st["s"] != "=":
                continue
            pls = [st["lhs"]]
            rv = st["rv"]
            if "pl" in rv:
                pls.append(rv["pl"])
            for kk in ("a", "b"):
                o = rv.get(kk)
                if isinstance(o, dict) and o.get("k") in ("copy", "move"):
                    pls.append(o["pl"])
            for pl in pls:
                if "*" in pl["p"] and rx.search(f.locals[pl["l"]]) and f.locals[pl["l"]].startswith("*"):
                    out.append((b.idx, i))
    return out


def c173(ctx):
    R = "C17.3"
    ctx.declare(R, "raw node pointers are dereferenced and freed in one place each")
    n = 0
    for crate in ("skipfree", "listfree"):
        for f in ctx.prog.fns.values():
            if f.crate != crate:
                continue
            d = raw_derefs(f, r"Node<")
            if d:
                n += 1
                ctx.check(R, f, "deref-site", f.skey == "%s::node_ptr::deref" % crate, "the only `&*ptr` of a node is %s::node_ptr::deref" % crate,
                          "%s dereferences a raw node pointer outside node_ptr::deref" % f.skey, pt=d[0])
        callers = K.callers_of(ctx, r"^%s::node_ptr::deref$" % crate, crates=(crate,))
        ok = all(sk.startswith("%s::node_ptr::" % crate) for sk in callers)
        ctx.check(R, crate, "deref-callers", ok and len(callers) >= 3, "node_ptr::deref is called only inside node_ptr (%d functions)" % len(callers),
                  "node_ptr::deref is called from %s" % sorted(callers))
        fr = K.callers_of(ctx, r"alloc::boxed::Box.*::from_raw$", crates=(crate,))
        for sk, (f, pts) in fr.items():
            ctx.check(R, f, "free-site", (f.impl_trait or "").endswith("ops::drop::Drop"), "Box::from_raw of a node appears in a Drop impl (%s)" % sk,
                      "%s frees a node outside a Drop impl" % sk, pt=pts[0])
        ctx.floor(R, crate + " free sites", len(fr), 1)
    ctx.floor(R, "functions with raw node derefs", n, 2)


# ------------------------------------------------------------------------------------------------
# C17.5 the search skeleton

SEARCH = r"^skipfree::SkipList::find_(greater_or_equal|greater_or_equal_and_pointers|less_than|last)$"
CMP_CALL = re.compile(r"PartialOrd.*::(lt|le|gt|ge)$|^core::cmp::(?:\w+::)*(lt|le|gt|ge)$")


def _edge_truth(lab, srcs):
    negs = sum(1 for x in srcs if x["k"] == "un" and x["op"] == "Not")
    holds = (lab != "sw:0")
    return (not holds) if negs % 2 else holds


def _is_nodekey_of(f, op, node_locals):
    """op derives from node_ptr::key(n) with n one of node_locals (user locals / params)."""
    for s in P.origins(f, op):
        if s["k"] == "call" and s["callee"].endswith("node_ptr::key"):
            a = s["t"]["args"][0]
            r = K.root_local(f, a)
            if r in node_locals:
                return True
    return False


def _is_param(f, op, i):
    srcs = P.origins(f, op)
    return any(s["k"] == "param" and s["i"] == i for s in srcs) and not any(s["k"] == "call" and s["callee"].endswith("node_ptr::key") for s in srcs)


def _strictly_before(name, a_is_node, truth):
    """Does `cmp(a, b) == truth` say  key(node) < key ?   (a_is_node: a is the node's key and b the target)."""
    if a_is_node:
        return (name == "lt" and truth) or (name == "ge" and not truth)
    return (name == "gt" and truth) or (name == "le" and not truth)


def after_node_fn_ok(g):
    """key_is_after_node(key, node) answers true only for a non-null node whose key is strictly before `key`:
    every definition of its result is the constant false, or the strict comparison, made on the non-null edge."""
    d = P.defs(g).of(0)
    if not d:
        return False, "no result"
    for pt, kind, payload in d:
        if kind == "assign":
            rv = payload["rv"]
            if rv["r"] == "use" and rv["a"].get("k") == "const" and rv["a"]["c"].get("v") == 0:
                continue
            return False, "result assigned from %s" % rv["r"]
        t = payload
        m = CMP_CALL.search(callee_skey(t) or "")
        if not m:
            return False, "result is the value of %s" % P.short(callee_skey(t))
        name = m.group(1) or m.group(2)
        a_node = _is_nodekey_of(g, t["args"][0], {2}) and _is_param(g, t["args"][1], 1)
        b_node = _is_nodekey_of(g, t["args"][1], {2}) and _is_param(g, t["args"][0], 1)
        if not (a_node or b_node) or not _strictly_before(name, a_node, True):
            return False, "the comparison is not key(node) < key"
        nonnull = False
        for bb, lab, srcs in K.guards(g, pt):
            for s in srcs:
                if s["k"] == "call" and s["callee"].endswith("::is_null") and K.root_local(g, s["t"]["args"][0]) == 2:
                    if not _edge_truth(lab, srcs):
                        nonnull = True
        if not nonnull:
            return False, "the node's key is read without the null test"
    return True, "!node.is_null() && key(node) < key"


def advance_guard(ctx, f, pt, nexts, key_param):
    """(non-null established, strictly-before established) for the node in `nexts` on every path to pt."""
    nonnull = before = False
    for bb, lab, srcs in K.guards(f, pt):
        truth = _edge_truth(lab, srcs)
        for s in srcs:
            if s["k"] != "call":
                continue
            ck = s["callee"]
            t = s["t"]
            if ck.endswith("::is_null") and K.root_local(f, t["args"][0]) in nexts and not truth:
                nonnull = True
            elif ck.endswith("::key_is_after_node") and truth and K.root_local(f, t["args"][1]) in nexts and \
                    (key_param is None or _is_param(f, t["args"][0], key_param)):
                g = ctx.prog.fns.get(ctx.prog.targets(t)[0]) if ctx.prog.targets(t) else None
                ok, _why = after_node_fn_ok(g) if g else (False, "")
                if ok:
                    nonnull = before = True
            else:
                m = CMP_CALL.search(ck)
                if m and key_param is not None:
                    name = m.group(1) or m.group(2)
                    a_node = _is_nodekey_of(f, t["args"][0], nexts) and _is_param(f, t["args"][1], key_param)
                    b_node = _is_nodekey_of(f, t["args"][1], nexts) and _is_param(f, t["args"][0], key_param)
                    if (a_node or b_node) and _strictly_before(name, a_node, truth):
                        before = True
    return nonnull, before


def zero_guard(f, pt, level):
    """What the switch edges dominating pt say about the level variable: {'zero'} / {'nonzero'} (or both / neither).
    Understands `level == 0`, `level != 0`, `0 == level` and a `match level { 0 => .., _ => .. }` switch on the variable."""
    out = set()
    for g in K.compare_guards(f, pt):
        if g["op"] not in ("Eq", "Ne"):
            continue
        a, b = g["a"], g["b"]
        if a.get("k") == "const":
            a, b = b, a
        if K.root_local(f, a) == level and b.get("k") == "const" and b["c"].get("v") == 0:
            out.add("zero" if (g["op"] == "Eq") == g["holds"] else "nonzero")
    for bb, lab in P.guards_of(f, pt):
        d = f.blocks[bb].term["discr"]
        if d.get("k") in ("copy", "move") and K.root_local(f, d) == level and "usize" in f.locals[d["pl"]["l"]]:
            arms = [v for v, _ in f.blocks[bb].term["arms"]]
            if lab == "sw:0":
                out.add("zero")
            elif arms == [0] or (lab in ("otherwise", "sw:1") and 0 in arms):
                out.add("nonzero")
    return out


def _writes_to(f, l):
    return [(b.idx, i) for b in f.blocks for i, st in enumerate(b.st) if st["s"] == "=" and not st["lhs"]["p"] and st["lhs"]["l"] == l] + \
           [P.term_pt(f, b.idx) for b, t in f.calls() if not t["dest"]["p"] and t["dest"]["l"] == l]


def _in_cycle(f, pt):
    return P.reach(f, P.after(f, pt), [pt]) is not None


def c175(ctx):
    R = "C17.5"
    ctx.declare(R, "a skiplist search starts at the top level, descends one level at a time, moves right only onto a node strictly "
                   "before the key and answers only from level 0")
    fs = sorted((f for f in ctx.prog.fns.values() if f.crate == "skipfree" and re.search(SEARCH, f.skey)), key=lambda f: f.skey)
    ctx.floor(R, "skiplist search functions", len(fs), 4)
    kf = [f for f in ctx.prog.fns.values() if f.skey == "skipfree::SkipList::key_is_after_node"]
    for g in kf:
        ok, why = after_node_fn_ok(g)
        ctx.check(R, g, "after-node", ok, "key_is_after_node is %s" % why, "key_is_after_node does not mean `non-null and strictly before the key`: %s" % why)
    for f in fs:
        keyed = not f.skey.endswith("find_last")
        gn = ctx.calls(R, f, r"skipfree::node_ptr::get_next$")
        if not gn:
            continue
        lv, xs, nexts = set(), set(), set()
        for p in gn:
            t = P.term_at(f, p)
            lv.add(K.root_local(f, t["args"][1]))
            xs.add(K.root_local(f, t["args"][0]))
            if not t["dest"]["p"]:
                nexts.add(t["dest"]["l"])
        if not ctx.check(R, f, "one-walk", len(lv) == 1 and len(xs) == 1 and None not in lv | xs,
                         "every get_next reads the successor of the one walk variable at the one level variable", "get_next is not called as get_next(x, level) on one pair of variables", pt=gn[0]):
            continue
        level, x = lv.pop(), xs.pop()
        # every round of the walk re-reads the successor
        for p in gn:
            pass
        # (a) level: one initialisation MAX_HEIGHT - 1 outside the loop, decrements by one on the `level != 0` edge
        lw = _writes_to(f, level)
        init = [p for p in lw if not _in_cycle(f, p)]
        decs = [p for p in lw if _in_cycle(f, p)]
        ctx.floor(R, "%s level writes" % f.skey, len(init) * 10 + len(decs), 11)
        for p in lw:
            srcs, _ = P.value_slice(f, {"k": "copy", "pl": {"l": level, "p": []}})
        for p in init + decs:
            st = f.blocks[p[0]].st[p[1]] if p[1] < len(f.blocks[p[0]].st) else None
            ok = False
            why = "not a subtraction of one"
            if st is not None and st["rv"]["r"] == "use":
                for s in P.origins(f, st["rv"]["a"], through_calls=P._Opt(True, False)):
                    if s["k"] == "bin" and s["op"].startswith("Sub"):
                        rv = s["st"]["rv"]
                        one = rv["b"].get("k") == "const" and rv["b"]["c"].get("v") == 1
                        if p in init:
                            top = rv["a"].get("k") == "const" and "v" not in rv["a"]["c"] and "usize" in str(rv["a"]["c"].get("ty", "usize"))
                            ok = one and top
                            why = "MAX_HEIGHT - 1" if ok else "the first level is not MAX_HEIGHT - 1"
                        else:
                            same = K.root_local(f, rv["a"]) == level
                            ok = one and same
                            why = "level - 1" if ok else "the level is not lowered by exactly one"
            if p in decs and ok:
                ok = "nonzero" in zero_guard(f, p, level)
                why = "level - 1 on the `level != 0` edge" if ok else "the level is lowered without the `level != 0` test"
            ctx.check(R, f, "level-step", ok, "%s (%s)" % ("the walk starts at the top level" if p in init else "the walk goes down one level at a time", why),
                      "%s: %s" % (f.skey.rsplit("::", 1)[-1], why), pt=p)
        # (b) an answer only from level 0
        for p in P.return_points(f):
            zero = "zero" in zero_guard(f, p, level)
            ctx.check(R, f, "answer-at-level-0", zero, "the search answers only on the `level == 0` edge",
                      "%s can answer from a level above 0: nodes that are only linked lower down are skipped" % f.skey.rsplit("::", 1)[-1], pt=p)
        # (c) the walk moves right only onto a non-null node strictly before the key
        xw = [p for p in _writes_to(f, x) if _in_cycle(f, p)]
        ctx.floor(R, "%s moves right" % f.skey, len(xw), 1)
        for p in xw:
            st = f.blocks[p[0]].st[p[1]] if p[1] < len(f.blocks[p[0]].st) else None
            from_next = st is not None and st["rv"]["r"] == "use" and K.root_local(f, st["rv"]["a"]) in nexts
            nn, before = advance_guard(ctx, f, p, nexts, 2 if keyed else None)
            ok = from_next and nn and (before or not keyed)
            ctx.check(R, f, "moves-right", ok, "x = next only where next is non-null%s" % (" and key(next) < key" if keyed else ""),
                      "%s moves right %s" % (f.skey.rsplit("::", 1)[-1], "onto something other than the successor just read" if not from_next else
                                              "without the null test" if not nn else "onto a node that is not strictly before the key"), pt=p)
        # every round re-reads the successor at the current level: no cycle avoids get_next
        hd = gn[0]
        cyc = None
        for p in xw + decs:
            q = P.reach(f, P.after(f, p), [p], avoid=set(gn))
            if q is not None:
                cyc = (p, q)
        ctx.check(R, f, "re-read", cyc is None, "every round of the walk calls get_next(x, level) again", "a round of the walk reuses a stale successor",
                  pt=cyc[0] if cyc else hd)
        # (d) the pointer-collecting variant records (x, next) for the level it is about to leave
        if f.skey.endswith("_and_pointers"):
            stores = {}
            for b, t in f.calls():
                if not re.search(r"IndexMut.*::index_mut$", callee_skey(t) or ""):
                    continue
                vec = K.ref_base(f, t["args"][0])
                idx = K.root_local(f, t["args"][1])
                d = t["dest"]["l"]
                for b2 in f.blocks:
                    for i, st in enumerate(b2.st):
                        if st["s"] == "=" and st["lhs"]["l"] == d and st["lhs"]["p"] == ["*"] and st["rv"]["r"] == "use":
                            stores.setdefault(vec, []).append(((b2.idx, i), idx, K.root_local(f, st["rv"]["a"])))
            # which vectors are returned, in which position
            ret = None
            for pt_, kind, payload in P.defs(f).of(0):
                if kind == "assign" and payload["rv"]["r"] == "agg" and payload["rv"].get("tuple"):
                    ret = [K.root_local(f, o) for o in payload["rv"]["ops"]]
            ok_shape = ret is not None and len(ret) == 3
            ctx.check(R, f, "returns-triple", ok_shape, "the result is (found, prev, obs)", "the result is not a triple")
            if ok_shape:
                for pos, want, label in ((1, {x}, "prev[level] = x"), (2, nexts, "obs[level] = next")):
                    vec = ret[pos]
                    # moves `_48 = move prev` : follow one copy
                    good = [s for s in stores.get(vec, []) if s[1] == level and s[2] in want]
                    ctx.check(R, f, "records:" + label, bool(good), "%s is stored at the current level" % label,
                              "element %d of the result never receives %s" % (pos, label))
                    if good:
                        thru = [s[0] for s in good]
                        goals = decs + P.return_points(f)
                        q = P.reach(f, [a for p in gn for a in P.after(f, p)], goals, avoid=set(thru) | set(xw))
                        ctx.check(R, f, "records-every-level:" + label, q is None, "%s on every path that leaves a level" % label,
                                  "a level is left without %s: insert then links the new node after a stale predecessor" % label,
                                  pt=q[-1][1] if q else None, path=q)
    # (e) decision and answer come from one load: in a keyed search the node handed back is the very successor the
    # comparison with the key examined, never a second read of the same link (an insert can land between two reads)
    ne = 0
    for f in sorted(ctx.prog.fns.values(), key=lambda f: f.skey):
        if f.crate != "skipfree" or "::node_ptr::" in f.skey or f.kind == "Closure":
            continue
        if not any(f.locals[i] == "&K" for i in range(1, f.argc + 1)):
            continue
        loads = {t["dest"]["l"]: P.term_pt(f, b.idx) for b, t in f.calls()
                 if re.search(r"node_ptr::get_next$|Atomic.*::load$", callee_skey(t) or "") and not t["dest"]["p"]}
        sinks = []   # (point, operand or None when the sink is the call's own destination, label)
        targets = [0] if f.locals[0].startswith("*mut skipfree::Node") else []
        if f.locals[0].startswith("(*mut skipfree::Node"):
            for _pt, kind, payload in P.defs(f).of(0):
                if kind == "assign" and payload["rv"]["r"] == "agg" and payload["rv"].get("tuple"):
                    r0 = K.root_local(f, payload["rv"]["ops"][0])
                    if r0 is not None:
                        targets.append(r0)
        for tl in targets:
            for pt_, kind, payload in P.defs(f).of(tl):
                if kind == "assign" and payload["rv"]["r"] == "use":
                    sinks.append((pt_, payload["rv"]["a"], "the result"))
                elif kind == "call":
                    sinks.append((pt_, None, "the result"))
        for pt_ in P.field_writes(f, r"skipfree::SkipListIterator", "node"):
            b_, i_ = pt_
            if i_ < len(f.blocks[b_].st):
                st = f.blocks[b_].st[i_]
                if st["rv"]["r"] == "use":
                    sinks.append((pt_, st["rv"]["a"], "the iterator position"))
            else:
                sinks.append((pt_, None, "the iterator position"))
        for pt_, op, label in sinks:
            if op is None:
                t = P.term_at(f, pt_)
                fresh = bool(re.search(r"node_ptr::get_next$", callee_skey(t) or ""))
                ne += 1
                ctx.check(R, f, "answer-is-the-compared-node", not fresh, "%s comes from a search, not from a fresh read of a link" % label,
                          "%s of %s is a fresh get_next that no comparison with the key examined: the decision was taken on an earlier read of "
                          "the same link, and an insert can land between the two reads" % (label, f.skey.rsplit("::", 1)[-1]), pt=pt_)
                continue
            r = K.root_local(f, op)
            if r in loads and re.search(r"get_next$", callee_skey(P.term_at(f, loads[r])) or ""):
                nn, before = advance_guard(ctx, f, pt_, {r}, 2 if f.locals[2] == "&K" else (1 if f.locals[1] == "&K" else None))
                tested = nn or before or any(
                    s_["k"] == "call" and (s_["callee"].endswith("::is_null") or s_["callee"].endswith("::key_is_after_node")) and
                    r in {K.root_local(f, a_) for a_ in s_["t"]["args"]}
                    for _bb, _lab, srcs_ in K.guards(f, pt_) for s_ in srcs_)
                ne += 1
                ctx.check(R, f, "answer-is-the-compared-node", tested, "%s is the successor the deciding comparison examined" % label,
                          "%s of %s is a link value no dominating comparison examined" % (label, f.skey.rsplit("::", 1)[-1]), pt=pt_)
    ctx.floor(R, "keyed searches answering with an examined successor", ne, 2)
    # the iterator steps along level 0, where every node is linked
    n0 = 0
    for f in sorted(ctx.prog.fns.values(), key=lambda f: f.skey):
        if f.crate != "skipfree" or not re.search(r"^skipfree::SkipListIterator::(next|seek_to_first)$|skipfree::Head.*::drop$", f.skey):
            continue
        for p in P.call_points(f, r"skipfree::node_ptr::get_next$"):
            n0 += 1
            cs = P.origin_consts(f, P.term_at(f, p)["args"][1])
            ctx.check(R, f, "level-0-step", len(cs) == 1 and cs[0].get("v") == 0 and len(P.origins(f, P.term_at(f, p)["args"][1])) == 1,
                      "steps along level 0", "%s follows a level other than 0: elements linked only at level 0 are skipped" % f.skey, pt=p)
    ctx.floor(R, "level-0 steps (next, seek_to_first, drop)", n0, 3)
