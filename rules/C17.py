"""C17 — lock-free skiplist and list: publication order, atomic orderings, dereference and free confinement."""
import re

from blue import prim as P
from blue.facts import callee_skey, strip_generics
from . import common as K
from . import C07

EXPLANATION = (
    "C17 structural clauses: (C17.1) the atomic-ordering table of skipfree and listfree: every store is >= Release, every "
    "compare-exchange succeeds with >= AcqRel, every load whose result can be dereferenced is >= Acquire; a Relaxed load is "
    "accepted only when its result is used for pointer identity alone; (C17.2) a node is initialised before it is "
    "published: in SkipList::insert the store of the successor into the new node dominates, and lies on every retry cycle "
    "through, the compare-exchange that links it, and both use the same observed successor; the levels are linked "
    "bottom-up (the level index handed to cas_next counts up from 0, so a node reachable at level k has its lower levels "
    "linked); the same for List::prepend; "
    "(C17.3) raw node pointers are dereferenced only in node_ptr::deref, Box::from_raw of a node appears only in Drop "
    "impls, and the Drop that frees belongs to the last owner (C07.1 rule); (C17.4) listfree iterators are lifetime-bound "
    "to their list (compile-fail witness W1, thorough tier).  Ordering-operand table, ORDER with cycles, who-may-call.")
NOT_DECIDED = "that no insert is lost and iteration is ordered under every interleaving at the granularity of individual atomics"
ASSUMPTIONS = ["the C++11/Rust memory model: Release store / Acquire load publication"]

ATOMIC = r"core::sync::atomic::Atomic\w*::(load|store|compare_exchange|compare_exchange_weak|swap|fetch_\w+)$"
STRONG_STORE = {"Release", "SeqCst", "AcqRel"}
STRONG_LOAD = {"Acquire", "SeqCst", "AcqRel"}
STRONG_CAS = {"AcqRel", "SeqCst"}


def rules(ctx):
    c171(ctx)
    c172(ctx)
    c173(ctx)
    C07.c071(ctx)


def orderings(f, t):
    out = []
    for a in t["args"][1:]:
        for s in P.origins(f, a):
            if s["k"] == "agg" and s.get("adt", "").endswith("atomic::Ordering"):
                out.append(s["variant"])
    return out


def identity_only(f, t):
    """The value produced by this call is used only as an operand of comparisons (==, !=, ptr::eq)."""
    work = [t["dest"]["l"]]
    seen = set()
    while work:
        l = work.pop()
        if l in seen:
            continue
        seen.add(l)
        if l == 0:
            return False   # returned to the caller, who may dereference it
        for u in K.local_uses(f, l):
            kind = u[0]
            if kind == "drop":
                continue
            if kind == "operand":
                st = u[2]
                rv = st["rv"]
                if rv["r"] == "bin" and rv["op"] in ("Eq", "Ne"):
                    continue
                if rv["r"] in ("use", "cast") and not st["lhs"]["p"]:
                    work.append(st["lhs"]["l"])
                    continue
                return False
            if kind == "ref":
                st = u[2]
                if not st["lhs"]["p"]:
                    work.append(st["lhs"]["l"])
                    continue
                return False
            if kind == "arg":
                ck = callee_skey(u[2]) or ""
                if re.search(r"core::ptr::eq$|PartialEq.*>::(eq|ne)$|core::cmp::PartialEq::(eq|ne)$", ck):
                    continue
                return False
            return False
    return True


def c171(ctx):
    R = "C17.1"
    ctx.declare(R, "publication needs Release stores and Acquire loads of every pointer that is later dereferenced")
    n = 0
    for f in sorted(ctx.prog.fns.values(), key=lambda f: f.key):
        if f.crate not in ("skipfree", "listfree"):
            continue
        for b, t in f.calls():
            ck = callee_skey(t) or ""
            m = re.search(ATOMIC, ck)
            if not m:
                continue
            n += 1
            op = m.group(1)
            pt = P.term_pt(f, b.idx)
            ords = orderings(f, t)
            if op == "store":
                ctx.check(R, f, "store", bool(ords) and ords[0] in STRONG_STORE, "store is %s" % ords, "a pointer is published with a %s store (needs Release)" % ords, pt=pt)
            elif op.startswith("compare_exchange"):
                ctx.check(R, f, "cas", len(ords) == 2 and ords[0] in STRONG_CAS, "compare_exchange succeeds with %s" % ords[:1],
                          "compare_exchange publishes a node with success ordering %s (needs AcqRel)" % ords[:1], pt=pt)
            elif op == "load":
                if ords and ords[0] in STRONG_LOAD:
                    ctx.ok(R, f, "load is %s" % ords, [pt])
                else:
                    ok = identity_only(f, t)
                    ctx.check(R, f, "load", ok, "a %s load is used for pointer identity only" % ords,
                              "a %s load produces a pointer that can be dereferenced (needs Acquire)" % ords, pt=pt)
            else:
                ctx.check(R, f, op, bool(ords) and ords[0] in STRONG_CAS, "%s is %s" % (op, ords), "%s with ordering %s" % (op, ords), pt=pt)
    ctx.floor(R, "atomic operations in skipfree/listfree", n, 18)


def level_counts_up(f, op):
    """The index operand is produced by a forward `0..n` range (or an index that starts at 0 and is only
    incremented); nothing in its slice reverses or decrements it."""
    srcs, _ = P.value_slice(f, op)
    calls = {s["callee"] for s in srcs if s["k"] == "call"}
    back = sorted(c for c in calls if re.search(r"Rev\b|::rev$|next_back$|::rfold$|::rposition$|::nth_back$", c))
    subs = [s for s in srcs if s["k"] == "bin" and s["op"].startswith("Sub")]
    if back or subs:
        return False, "reversed by %s" % (back or "a subtraction")
    fwd = any(re.search(r"^core::iter::range::(.*::)?next$", c) for c in calls)
    starts = []
    for s in srcs:
        if s["k"] == "agg" and s.get("adt", "").startswith("core::ops::range::Range"):
            starts += [o.get("v") for o in P.origin_consts(f, s["st"]["rv"]["ops"][0])]
    if fwd and starts and all(str(v) in ("0", "0_usize") or v == 0 for v in starts):
        return True, "for idx in 0..height"
    adds = [s for s in srcs if s["k"] == "bin" and s["op"].startswith("Add")]
    zero = any(s["k"] == "const" and (s.get("v") == 0 or str(s.get("v")) == "0") for s in srcs)
    if adds and zero and not fwd:
        return True, "idx starts at 0 and is incremented"
    return False, "level index is not a forward range from 0 (calls %s, range starts %s)" % (sorted(calls), starts)


def c172(ctx):
    R = "C17.2"
    ctx.declare(R, "a node's successor pointer is stored before the node is linked, on every retry")
    f = ctx.fn(R, "skipfree::SkipList::insert")
    if f:
        sn = ctx.calls(R, f, r"skipfree::node_ptr::set_next$")
        cs = ctx.calls(R, f, r"skipfree::node_ptr::cas_next$")
        ctx.order_chain(R, f, [("set_next(x, idx, obs[idx])", sn), ("cas_next(prev[idx], idx, obs[idx], x)", cs)], cycles=True)
        for p in sn:
            t = P.term_at(f, p)
            newn = any(c.endswith("::new_node") for c in P.origin_calls(f, t["args"][0]))
            obs_here = K.user_locals(f, t["args"][2])
            obs_cas = set()
            for q in cs:
                obs_cas |= K.user_locals(f, P.term_at(f, q)["args"][2])
            ctx.check(R, f, "set_next-args", newn and bool(obs_here & obs_cas),
                      "set_next initialises the new node x with the observed successor", "set_next does not store obs[idx] into the new node", pt=p)
        for p in cs:
            t = P.term_at(f, p)
            obs_set = set()
            for q in sn:
                obs_set |= K.user_locals(f, P.term_at(f, q)["args"][2])
            same_obs = bool(K.user_locals(f, t["args"][2]) & obs_set)
            other_vec = not (K.user_locals(f, t["args"][0]) & K.user_locals(f, t["args"][2]) - {l for l in K.user_locals(f, t["args"][0]) if "usize" in f.locals[l]})
            ctx.check(R, f, "cas-args", same_obs and any(c.endswith("::new_node") for c in P.origin_calls(f, t["args"][3])) and
                      any(c.endswith("find_greater_or_equal_and_pointers") for c in P.origin_calls(f, t["args"][0])),
                      "cas_next swings prev[idx] from the same observed successor to x", "cas_next does not compare against the successor stored into the node", pt=p)
        nn = ctx.calls(R, f, r"skipfree::SkipList.*::new_node$")
        ctx.order_chain(R, f, [("new_node", nn), ("set_next", sn)])
        # levels are linked bottom-up: a node reachable at level k already has its successors at every level below
        # k, which searches descend through.  The level index handed to cas_next counts up from 0.
        for p in cs:
            up, why = level_counts_up(f, P.term_at(f, p)["args"][1])
            ctx.check(R, f, "level-order", up, "levels are linked in ascending order starting at level 0 (%s)" % why,
                      "the new node is not linked at level 0 first (%s): a search can descend through a tower whose lower "
                      "levels are still null" % why, pt=p)
    f = ctx.fn(R, "listfree::List::prepend")
    if f:
        sn = ctx.calls(R, f, r"listfree::node_ptr::set_next$")
        # whatever makes the node reachable from List.head (compare_exchange, swap, store, fetch_update) comes after its link is set
        pub = [p_ for p_ in P.call_points(f, r"Atomic\w*::(compare_exchange|compare_exchange_weak|swap|store|fetch_update)$")
               if any(s_["k"] == "field" and s_["f"] == "head" for s_ in P.origins(f, P.term_at(f, p_)["args"][0]))]
        ctx.floor(R, "List::prepend publication of the node", len(pub), 1)
        for p_ in pub:
            bad = P.order(f, sn, [p_], cycles=True)
            ctx.check(R, f, "link-before-publish", not bad, "the node's next pointer is stored before %s makes it reachable from head" % P.short(callee_skey(P.term_at(f, p_))),
                      "List::prepend makes the node reachable from head (%s) before its next pointer is set: an iteration that starts in that window "
                      "ends at the half-linked node and misses every older element" % P.short(callee_skey(P.term_at(f, p_))), pt=p_)
        cs = ctx.calls(R, f, r"Atomic\w*::compare_exchange$")
        ctx.order_chain(R, f, [("set_next(node, head)", sn), ("compare_exchange(head, node)", cs)], cycles=True)
        for p in cs:
            t = P.term_at(f, p)
            ctx.check(R, f, "cas-args", any(c.endswith("::load") for c in P.origin_calls(f, t["args"][1])) and any(re.search(r"Box.*::(leak|into_raw|new)$", c) for c in P.origin_calls(f, t["args"][2])),
                      "compare_exchange swings List.head from the observed head to the node", "compare_exchange arguments are not (head, node)", pt=p)
        for p in sn:
            t = P.term_at(f, p)
            ctx.check(R, f, "set_next-args", any(re.search(r"Box.*::(leak|into_raw|new)$", c) for c in P.origin_calls(f, t["args"][0])) and any(c.endswith("::load") for c in P.origin_calls(f, t["args"][1])),
                      "the node's next is the observed head", "set_next does not store the observed head into the node", pt=p)
        # the head observed is re-read on every retry
        ld = [p for p in P.call_points(f, r"Atomic\w*::load$")]
        ctx.order_chain(R, f, [("head.load", ld), ("set_next", sn)], cycles=True)


def raw_derefs(f, ty_rx):
    out = []
    rx = re.compile(ty_rx)
    for b in f.blocks:
        for i, st in enumerate(b.st):
            if st["s"] != "=":
                continue
            pls = [st["lhs"]]
            rv = st["rv"]
            if "pl" in rv:
                pls.append(rv["pl"])
            for kk in ("a", "b"):
                o = rv.get(kk)
                if isinstance(o, dict) and o.get("k") in ("copy", "move"):
                    pls.append(o["pl"])
            for pl in pls:
                if "*" in pl["p"] and rx.search(f.locals[pl["l"]]) and f.locals[pl["l"]].startswith("*"):
                    out.append((b.idx, i))
    return out


def c173(ctx):
    R = "C17.3"
    ctx.declare(R, "raw node pointers are dereferenced and freed in one place each")
    n = 0
    for crate in ("skipfree", "listfree"):
        for f in ctx.prog.fns.values():
            if f.crate != crate:
                continue
            d = raw_derefs(f, r"Node<")
            if d:
                n += 1
                ctx.check(R, f, "deref-site", f.skey == "%s::node_ptr::deref" % crate, "the only `&*ptr` of a node is %s::node_ptr::deref" % crate,
                          "%s dereferences a raw node pointer outside node_ptr::deref" % f.skey, pt=d[0])
        callers = K.callers_of(ctx, r"^%s::node_ptr::deref$" % crate, crates=(crate,))
        ok = all(sk.startswith("%s::node_ptr::" % crate) for sk in callers)
        ctx.check(R, crate, "deref-callers", ok and len(callers) >= 3, "node_ptr::deref is called only inside node_ptr (%d functions)" % len(callers),
                  "node_ptr::deref is called from %s" % sorted(callers))
        fr = K.callers_of(ctx, r"alloc::boxed::Box.*::from_raw$", crates=(crate,))
        for sk, (f, pts) in fr.items():
            ctx.check(R, f, "free-site", (f.impl_trait or "").endswith("ops::drop::Drop"), "Box::from_raw of a node appears in a Drop impl (%s)" % sk,
                      "%s frees a node outside a Drop impl" % sk, pt=pts[0])
        ctx.floor(R, crate + " free sites", len(fr), 1)
    ctx.floor(R, "functions with raw node derefs", n, 2)
