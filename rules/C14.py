"""C14 — setsum: representation-invariant discipline, operator table, constants, entry framing."""
import re
import struct

from blue import prim as P
from blue.facts import callee_skey, strip_generics
from . import common as K

EXPLANATION = (
    "C14 structural clauses: (C14.1) constructor discipline: every Setsum state comes from the zero array, from add_state, "
    "or from the reducing conversion hash_to_state (so every column is in [0, p)); invert_state results flow only into "
    "add_state; hash_to_state and add_state contain their conditional subtraction of the prime; (C14.2) operator table: "
    "Add/AddAssign reach add_state, Sub/SubAssign/remove reach invert_state then add_state with the right operands, "
    "insert reaches the hash then add_state; (C14.3) constants evaluated from the compiled program: 8 distinct primes, "
    "each in (2^31, 2^32), columns*4 == bytes == 32; (C14.4) the key-value wrapper frames puts and tombstones with "
    "distinct constant tags followed by key and little-endian timestamp (and value for puts); (C14.5) the column loops of "
    "add_state, invert_state and hash_to_state are total: the iterator drops no element, every iteration stores its column and the "
    "loop has no other exit; invert_state stores prime[i] - column[i] for the same i.  ORIGIN/ORDER/MUSTPASS + const eval.")
NOT_DECIDED = "the algebraic laws over values (commutativity, inverse, union) and agreement with the published definition"
ASSUMPTIONS = ["sha3::Sha3_256 implements SHA3-256"]

S = "setsum::"


def rules(ctx):
    c141(ctx)
    c142(ctx)
    c143(ctx)
    c144(ctx)
    c145(ctx)
    c146(ctx)


def state_sources(f, op):
    """Classify where a [u32; 8] state value comes from."""
    kinds = set()
    for s in P.origins(f, op):
        if s["k"] == "call":
            c = s["callee"]
            if c.endswith("setsum::add_state"):
                kinds.add("add_state")
            elif c.endswith("setsum::hash_to_state") or c.endswith("setsum::item_vectored_to_state"):
                kinds.add("reduced")
            elif c.endswith("setsum::invert_state"):
                kinds.add("invert_state")
            elif not P.TRANSPARENT.search(c):
                kinds.add("call:" + c.rsplit("::", 1)[-1])
        elif s["k"] == "const":
            kinds.add("zero" if s.get("v") == 0 else "const")
        elif s["k"] == "field" and s["f"] == "state":
            kinds.add("state-of-a-Setsum")
        elif s["k"] == "param":
            kinds.add("param")
        elif s["k"] == "other":
            kinds.add("other")
    # a local in the slice that is also borrowed mutably is filled in through that borrow (e.g. iter_mut loops)
    _srcs, locs = P.value_slice(f, op)
    for b in f.blocks:
        for st in b.st:
            rv = st.get("rv", {})
            if rv.get("r") == "ref" and rv.get("mut") and rv["pl"]["l"] in locs and rv["pl"]["l"] > f.argc and not rv["pl"]["p"]:
                if "[u32" in f.locals[rv["pl"]["l"]]:
                    kinds.add("written-through-&mut")
    return kinds


def c141(ctx):
    R = "C14.1"
    ctx.declare(R, "every column of every Setsum is reduced modulo its prime")
    n = 0
    for f in sorted(ctx.prog.fns.values(), key=lambda f: f.key):
        if f.crate != "setsum":
            continue
        for b in f.blocks:
            for i, st in enumerate(b.st):
                if st["s"] != "=":
                    continue
                rv = st["rv"]
                if rv.get("r") == "agg" and strip_generics(rv.get("adt", "")) == "setsum::Setsum":
                    n += 1
                    kinds = state_sources(f, rv["ops"][0]) - {"state-of-a-Setsum"}
                    ok = kinds and kinds <= {"add_state", "reduced", "zero"}
                    ctx.check(R, f, "constructor", ok, "Setsum { state } is built from %s" % sorted(kinds),
                              "a Setsum is constructed from %s: columns outside [0, p) can enter the type and break invert_state/add_state" % sorted(kinds), pt=(b.idx, i))
        for pt in P.field_writes(f, r"setsum::Setsum$", "state"):
            n += 1
            if pt[1] < len(f.blocks[pt[0]].st):
                o = f.blocks[pt[0]].st[pt[1]]["rv"].get("a")
                kinds = state_sources(f, o) - {"state-of-a-Setsum"} if o else {"?"}
            else:
                t = P.term_at(f, pt)
                kinds = {"add_state"} if (callee_skey(t) or "").endswith("setsum::add_state") else {"call"}
            ctx.check(R, f, "state-write", kinds <= {"add_state", "reduced", "zero"} and bool(kinds), "self.state = %s" % sorted(kinds),
                      "self.state is assigned from %s" % sorted(kinds), pt=pt)
        # invert_state results only feed add_state
        for pt in P.call_points(f, r"setsum::invert_state$"):
            t = P.term_at(f, pt)
            d = t["dest"]["l"]
            work, seen, ok = [d], set(), True
            while work:
                l = work.pop()
                if l in seen:
                    continue
                seen.add(l)
                for u in K.local_uses(f, l):
                    if u[0] == "drop":
                        continue
                    if u[0] == "arg":
                        if not (callee_skey(u[2]) or "").endswith("setsum::add_state"):
                            ok = False
                    elif u[0] == "operand" and u[2]["rv"]["r"] in ("use",) and not u[2]["lhs"]["p"]:
                        if u[2]["lhs"]["l"] == 0:
                            ok = False
                        work.append(u[2]["lhs"]["l"])
                    else:
                        ok = False
            n += 1
            ctx.check(R, f, "invert-consumer", ok, "invert_state's result is passed to add_state only", "an inverted state escapes without being re-reduced by add_state", pt=pt)
    ctx.floor(R, "Setsum constructions / state writes / inversions", n, 11)
    for name in ("hash_to_state", "add_state"):
        f = ctx.fn(R, S + name)
        if f:
            ge = sub = 0
            primes = 0
            for b in f.blocks:
                for st in b.st:
                    rv = st.get("rv", {})
                    if rv.get("r") == "bin":
                        if rv["op"] == "Ge":
                            ge += 1
                        if rv["op"].startswith("Sub"):
                            sub += 1
                    for kk in ("a", "b"):
                        o = rv.get(kk)
                        if isinstance(o, dict) and o.get("k") == "const" and (o["c"].get("named") or "").endswith("SETSUM_PRIMES"):
                            primes += 1
                    if rv.get("r") == "use" and rv["a"].get("k") == "const" and (rv["a"]["c"].get("named") or "").endswith("SETSUM_PRIMES"):
                        primes += 1
            if _checked_sub_reductions(f):
                ge, sub, primes = max(ge, 1), max(sub, 1), max(primes, 1)      # `x.checked_sub(p).unwrap_or(x)` is the same reduction
            ctx.check(R, f, "conditional-subtraction", ge >= 1 and sub >= 1 and primes >= 1, "%s compares with the prime and subtracts it (Ge=%d Sub=%d)" % (name, ge, sub),
                      "%s no longer reduces modulo SETSUM_PRIMES" % name)
    f = ctx.fn(R, S + "invert_state")
    if f:
        callers = K.callers_of(ctx, r"^setsum::invert_state$")
        ext = [sk for sk in callers if not sk.startswith("setsum::") and not sk.startswith("<setsum::")]
        ctx.check(R, f, "invert-callers", not ext, "invert_state is used only inside setsum (%d callers)" % len(callers), "invert_state is called from %s" % ext)


def c142(ctx):
    R = "C14.2"
    ctx.declare(R, "every operator goes through the reducing primitives with the right operands")
    table = [
        ("<setsum::Setsum as core::ops::arith::Add>::add", ["add_state"]),
        ("<setsum::Setsum as core::ops::arith::AddAssign>::add_assign", ["add_state"]),
        ("<setsum::Setsum as core::ops::arith::Sub>::sub", ["invert_state", "add_state"]),
        ("<setsum::Setsum as core::ops::arith::SubAssign>::sub_assign", ["invert_state", "add_state"]),
        ("setsum::Setsum::insert_vectored", ["item_vectored_to_state", "add_state"]),
        ("setsum::Setsum::remove_vectored", ["item_vectored_to_state", "invert_state", "add_state"]),
    ]
    for key, chain in table:
        f = ctx.fn(R, key)
        if not f:
            continue
        pts = [(c, ctx.calls(R, f, r"^setsum::%s$" % c)) for c in chain]
        ctx.order_chain(R, f, pts)
        for c, p in pts:
            ctx.must_pass(R, f, c, p, goals=P.return_points(f))
        others = {callee_skey(t).rsplit("::", 1)[-1] for b, t in f.calls() if (callee_skey(t) or "").startswith("setsum::")} - set(chain)
        ctx.check(R, f, "only-these", not others, "%s uses exactly %s" % (P.short(key), chain), "%s also calls %s" % (key, sorted(others)))
        # operands: what is inverted is the right-hand side / the item; what is added is (self.state, that)
        inv = P.call_points(f, r"^setsum::invert_state$")
        add = P.call_points(f, r"^setsum::add_state$")
        for p in inv:
            names = K.src_names(f, P.term_at(f, p)["args"][0])
            want = "item_vectored_to_state()" if "vectored" in key else "param2"
            ctx.check(R, f, "invert-operand", want in names, "the inverted operand is the subtrahend (%s)" % want, "invert_state is applied to %s" % sorted(names), pt=p)
        for p in add:
            a0 = K.src_names(f, P.term_at(f, p)["args"][0])
            a1 = K.src_names(f, P.term_at(f, p)["args"][1])
            want1 = "invert_state()" if "invert_state" in chain else ("item_vectored_to_state()" if "vectored" in key else "param2")
            ctx.check(R, f, "add-operands", "param1" in a0 and ".state" in a0 and want1 in a1, "add_state(self.state, %s)" % want1,
                      "add_state operands are %s / %s" % (sorted(a0), sorted(a1)), pt=p)
    for key, inner in (("setsum::Setsum::insert", "insert_vectored"), ("setsum::Setsum::remove", "remove_vectored")):
        f = ctx.fn(R, key)
        if f:
            ctx.must_pass(R, f, inner, ctx.calls(R, f, r"^setsum::Setsum::%s$" % inner), goals=P.return_points(f))
    f = ctx.fn(R, S + "item_vectored_to_state")
    if f:
        up = ctx.calls(R, f, r"::update$")
        fin = ctx.calls(R, f, r"::finalize$")
        hs = ctx.calls(R, f, r"^setsum::hash_to_state$")
        heads = [h for h in P.call_points(f, r"Iterator>::next$") if P.reach(f, P.after(f, h), [h])]
        ctx.order_chain(R, f, [("loop over the pieces", heads), ("finalize", fin), ("hash_to_state", hs)])
        for h in heads:
            p = P.reach(f, P.after(f, h), [h], avoid=set(up))
            ctx.check(R, f, "every-piece", p is None, "every piece of a vectored item is hashed", "a piece can be skipped", pt=h, path=p)
    # the sst wrapper forwards each operator to the same raw operator
    for op, raw in (("Add>::add", "Add>::add"), ("AddAssign>::add_assign", "AddAssign>::add_assign"), ("Sub>::sub", "Sub>::sub"), ("SubAssign>::sub_assign", "SubAssign>::sub_assign")):
        f = ctx.fn(R, "<sst::setsum::Setsum as core::ops::arith::" + op)
        if f:
            got = {callee_skey(t) for b, t in f.calls() if (callee_skey(t) or "").startswith("<setsum::Setsum as core::ops::arith::")}
            ctx.check(R, f, "wrapper-op", got == {"<setsum::Setsum as core::ops::arith::" + raw}, "the wrapper's %s forwards to the raw %s" % (op, raw),
                      "the wrapper's %s calls %s" % (op, sorted(got)))


def is_prime(n):
    if n < 2:
        return False
    i = 2
    while i * i <= n:
        if n % i == 0:
            return False
        i += 1
    return True


def c143(ctx):
    R = "C14.3"
    ctx.declare(R, "the moduli are eight distinct primes just below 2^32")
    c = ctx.prog.consts
    pr = c.get("setsum::SETSUM_PRIMES")
    ok = bool(pr and pr.get("bytes"))
    ctx.check(R, "setsum::SETSUM_PRIMES", "evaluated", ok, "SETSUM_PRIMES evaluated from the compiled constant", "SETSUM_PRIMES could not be evaluated")
    if ok:
        raw = bytes.fromhex(pr["bytes"])
        primes = list(struct.unpack("<%dI" % (len(raw) // 4), raw))
        ctx.check(R, "setsum::SETSUM_PRIMES", "count", len(primes) == 8 and len(set(primes)) == 8, "8 distinct moduli %s" % primes, "moduli are %s" % primes)
        for p in primes:
            ctx.check(R, "setsum::SETSUM_PRIMES", "prime:%d" % p, is_prime(p) and (1 << 31) < p < (1 << 32),
                      "%d is prime and in (2^31, 2^32): one conditional subtraction reduces a sum of two reduced columns" % p,
                      "modulus %d is not a prime in (2^31, 2^32)" % p)
    cols = c.get("setsum::SETSUM_COLUMNS", {}).get("v")
    per = c.get("setsum::SETSUM_BYTES_PER_COLUMN", {}).get("v")
    by = c.get("setsum::SETSUM_BYTES", {}).get("v")
    ctx.check(R, "setsum", "layout", cols == 8 and per == 4 and by == 32 and cols * per == by, "columns*4 == bytes == 32", "layout constants are columns=%s per=%s bytes=%s" % (cols, per, by))


def c144(ctx):
    R = "C14.4"
    ctx.declare(R, "puts and tombstones are framed differently and include key and timestamp")
    tags = {}
    for name, nparts in (("put", 4), ("del", 3)):
        f = ctx.fn(R, "sst::setsum::Setsum::" + name)
        if not f:
            continue
        iv = ctx.calls(R, f, r"^setsum::Setsum::insert_vectored$")
        ctx.must_pass(R, f, "insert_vectored", iv, goals=P.return_points(f))
        for pt in iv:
            srcs = P.origins(f, P.term_at(f, pt)["args"][1])
            consts = [s for s in srcs if s["k"] == "const" and "bytes" in s]
            params = {s["i"] for s in srcs if s["k"] == "param"}
            le = any(s["k"] == "call" and s["callee"].endswith("to_le_bytes") for s in srcs)
            need = {2, 3, 4} if name == "put" else {2, 3}
            ctx.check(R, f, "pieces", len(consts) == 1 and need <= params and le,
                      "%s hashes [tag %s, key, timestamp.to_le_bytes()%s]" % (name, consts[0]["bytes"] if consts else "?", ", value" if name == "put" else ""),
                      "%s does not hash tag+key+timestamp%s (consts=%d params=%s le=%s)" % (name, "+value" if name == "put" else "", len(consts), sorted(params), le), pt=pt)
            if consts:
                tags[name] = consts[0]["bytes"]
            # number of pieces in the vectored item
            tup = [s for s in srcs if s["k"] == "agg" and s["st"]["rv"].get("array")]
            if tup:
                ctx.check(R, f, "piece-count", len(tup[0]["st"]["rv"]["ops"]) == nparts, "%d pieces" % nparts, "%s hashes %d pieces" % (name, len(tup[0]["st"]["rv"]["ops"])), pt=pt)
    ctx.check(R, "sst::setsum::Setsum", "distinct-tags", len(tags) == 2 and tags.get("put") != tags.get("del"), "put and del use distinct tag bytes %s" % tags,
              "put and del tags are %s" % tags)
    f = ctx.fn(R, "sst::setsum::Setsum::insert")
    if f:
        put = ctx.calls(R, f, r"sst::setsum::Setsum::put$")
        dl = ctx.calls(R, f, r"sst::setsum::Setsum::del$")
        p = P.reach(f, P.ENTRY, P.return_points(f), avoid=set(put) | set(dl))
        ctx.check(R, f, "dispatch", p is None, "insert dispatches to put or del on every path", "insert can return without accumulating", path=p)
        # which arm: a value goes to put (with that value, the entry's key and timestamp), its absence to del
        for pt in put:
            t = P.term_at(f, pt)
            g = [lab for bb, lab, srcs in K.guards(f, pt) if any(s_["k"] == "field" and s_["f"] == "value" for s_ in srcs)]
            val_ok = any(s_["k"] == "field" and s_["f"] == "value" for s_ in P.origins(f, t["args"][3]))
            key_ok = any(s_["k"] == "field" and s_["f"] == "key" for s_ in P.origins(f, t["args"][1]))
            ts_ok = any(s_["k"] == "field" and s_["f"] == "timestamp" for s_ in P.origins(f, t["args"][2]))
            ctx.check(R, f, "put-arm", g == ["sw:1"] and val_ok and key_ok and ts_ok, "an entry with a value is accumulated by put(key, timestamp, value)",
                      "insert calls put on the wrong arm or with other operands (guards %s, value %s, key %s, timestamp %s)" % (g, val_ok, key_ok, ts_ok), pt=pt)
        for pt in dl:
            t = P.term_at(f, pt)
            g = [lab for bb, lab, srcs in K.guards(f, pt) if any(s_["k"] == "field" and s_["f"] == "value" for s_ in srcs)]
            key_ok = any(s_["k"] == "field" and s_["f"] == "key" for s_ in P.origins(f, t["args"][1]))
            ts_ok = any(s_["k"] == "field" and s_["f"] == "timestamp" for s_ in P.origins(f, t["args"][2]))
            ctx.check(R, f, "del-arm", g == ["sw:0"] and key_ok and ts_ok, "an entry without a value is accumulated by del(key, timestamp)",
                      "insert calls del on the wrong arm or with other operands (guards %s)" % g, pt=pt)
    # within one frame the pieces come in the same order in put and del (tag, key, timestamp[, value]): the verifier and the
    # builders must hash an entry identically wherever it is accumulated
    order = {}
    for name in ("put", "del"):
        f = ctx.fn(R, "sst::setsum::Setsum::" + name)
        if not f:
            continue
        for pt in P.call_points(f, r"^setsum::Setsum::insert_vectored$"):
            for s_ in P.origins(f, P.term_at(f, pt)["args"][1]):
                if s_["k"] == "agg" and s_["st"]["rv"].get("array"):
                    seq = []
                    for o in s_["st"]["rv"]["ops"]:
                        srcs = P.origins(f, o)
                        if any(x["k"] == "const" and "bytes" in x for x in srcs):
                            seq.append("tag")
                        elif any(x["k"] == "call" and x["callee"].endswith("to_le_bytes") for x in srcs):
                            seq.append("timestamp")
                        else:
                            ps = sorted({x["i"] for x in srcs if x["k"] == "param"})
                            seq.append({2: "key", 4: "value"}.get(ps[0], "p%s" % ps) if ps else "?")
                    order[name] = seq
    ctx.check(R, "sst::setsum::Setsum", "piece-order", order.get("put") == ["tag", "key", "timestamp", "value"] and order.get("del") == ["tag", "key", "timestamp"],
              "frames are [tag, key, timestamp(le), value] and [tag, key, timestamp(le)]", "frame layouts are %s" % order)


DROPPING_ADAPTERS = K.DROPPING_ADAPTERS


def column_loops(f):
    """[(head pt, Some-edge target block, iterator type)] for every `for` loop of f."""
    out = []
    for pt in P.call_points(f, r"Iterator(?: for [^>]*)?>::next$|core::iter::range::next$|::next$"):
        if not P.reach(f, P.after(f, pt), [pt]):
            continue
        t = P.term_at(f, pt)
        ity = f.locals[t["args"][0]["pl"]["l"]] if t["args"] and t["args"][0].get("pl") else "?"
        # the &mut T argument is a reborrow of the iterator local
        base = K.ref_base(f, t["args"][0])
        if base is not None:
            ity = f.locals[base]
        nb = [s_ for _l, s_ in f.blocks[pt[0]].succs]
        some = None
        for b in nb:
            blk = f.blocks[b]
            if blk.term["t"] == "switch":
                for lab, tgt in blk.succs:
                    if lab == "sw:1":
                        some = tgt
        out.append((pt, some, ity))
    return out


def c145(ctx):
    R = "C14.5"
    ctx.declare(R, "the per-column loops visit every column: no element-dropping iterator, a column store in every iteration, no early exit")
    n = 0
    for name in ("add_state", "invert_state", "hash_to_state"):
        f = ctx.fn(R, S + name)
        if not f:
            continue
        loops = column_loops(f)
        ctx.check(R, f, "one-column-loop", len(loops) == 1, "%s has one loop over the columns" % name, "expected one column loop in %s, found %d" % (name, len(loops)))
        for head, some, ity in loops:
            n += 1
            ctx.check(R, f, "iterator-keeps-every-column", not DROPPING_ADAPTERS.search(ity) and some is not None,
                      "the loop's iterator (%s) yields every column" % ity[:80],
                      "the column loop runs over `%s`, an iterator that can stop early or skip columns" % ity[:120], pt=head)
            if "Range<" in ity:
                ok = False
                base = K.ref_base(f, P.term_at(f, head)["args"][0])
                for q in P.origins(f, {"k": "copy", "pl": {"l": base, "p": []}}) if base is not None else []:
                    if q["k"] == "agg" and q.get("adt", "").endswith("range::Range"):
                        lo, hi = q["st"]["rv"]["ops"]
                        ok = lo.get("k") == "const" and lo["c"].get("v") == 0 and hi.get("k") == "const" and \
                            ((hi["c"].get("named") or "").endswith("SETSUM_COLUMNS") or hi["c"].get("v") == 8)
                ctx.check(R, f, "range-is-all-columns", ok, "the range is 0..SETSUM_COLUMNS", "the column range is not 0..SETSUM_COLUMNS", pt=head)
            if some is None:
                continue
            stores = []
            for b in f.blocks:
                for j, st in enumerate(b.st):
                    if st["s"] == "=" and st["lhs"]["p"] and (any(isinstance(e, dict) and ("ix" in e or "cix" in e) for e in st["lhs"]["p"]) or st["lhs"]["p"] == ["*"]):
                        stores.append((b.idx, j))
            stores = [sp for sp in stores if P.reach(f, [(some, 0)], [sp], avoid={head}) is not None]
            byp = P.reach(f, [(some, 0)], [head], avoid=set(stores)) if stores else True
            ctx.check(R, f, "every-iteration-stores", bool(stores) and byp is None, "every iteration stores its column",
                      "an iteration of the column loop can finish without storing its column", pt=head, path=byp if isinstance(byp, list) else None)
            ex = P.reach(f, [(some, 0)], P.return_points(f), avoid={head})
            ctx.check(R, f, "no-early-exit", ex is None, "the loop ends only when the iterator is exhausted", "the column loop can be left before the last column", pt=head, path=ex)
    ctx.floor(R, "column loops", n, 3)
    f = ctx.fn(R, S + "invert_state")
    if f:
        subs = [((b.idx, j), st) for b in f.blocks for j, st in enumerate(b.st)
                if st["s"] == "=" and st["rv"]["r"] == "bin" and st["rv"]["op"] in ("Sub", "SubWithOverflow", "SubUnchecked")]
        ctx.check(R, f, "one-subtraction", len(subs) == 1, "invert_state performs one subtraction per column", "expected one subtraction in invert_state, found %d" % len(subs))
        for sp, st in subs:
            def classify(op_):
                kind = "?"
                for q in P.origins(f, op_):
                    if q["k"] == "const" and (q.get("named") or "").endswith("SETSUM_PRIMES"):
                        kind = "prime"
                    if q["k"] == "param" and q["i"] == 1:
                        kind = "state"
                return kind

            def src(o):
                """('prime'|'state'|'?', position): position is the index variable, or the zip the element was paired by."""
                kind, idx = "?", None
                for _dp, d in _stores(f, o["pl"]["l"]) if o.get("pl") else []:
                    a = d["rv"].get("a") if d["rv"]["r"] == "use" else None
                    if not a or not a.get("pl"):
                        continue
                    ixs = [e for e in a["pl"]["p"] if isinstance(e, dict) and "ix" in e]
                    if ixs:
                        idx = K.root_local(f, {"k": "copy", "pl": {"l": ixs[0]["ix"], "p": []}})
                        kind = classify({"k": "copy", "pl": {"l": a["pl"]["l"], "p": []}})
                    elif a["pl"]["p"] == ["*"]:
                        # `*elem` where elem is component k of the pair a Zip yielded
                        for _ep, e_ in _stores(f, a["pl"]["l"]):
                            ea = e_["rv"].get("a") if e_["rv"]["r"] == "use" else None
                            fes = [x for x in (ea or {}).get("pl", {}).get("p", []) if isinstance(x, dict) and "f" in x]
                            if not ea or len(fes) != 2 or fes[1].get("of") != "()":
                                continue
                            k_ = int(fes[1]["f"])
                            for q in P.origins(f, {"k": "copy", "pl": {"l": ea["pl"]["l"], "p": []}}, through_calls=False):
                                if q["k"] == "call" and q["callee"].endswith("zip::Zip as core::iter::traits::iterator::Iterator>::next"):
                                    zb = K.ref_base(f, q["t"]["args"][0])
                                    for z in P.origins(f, {"k": "copy", "pl": {"l": zb, "p": []}}) if zb is not None else []:
                                        if z["k"] == "call" and z["callee"].endswith("Iterator::zip") and k_ < 2:
                                            kind = classify(z["t"]["args"][k_])
                                            idx = ("zip", z["pt"])
                return kind, idx
            a, b = src(st["rv"]["a"]), src(st["rv"]["b"])
            ctx.check(R, f, "prime-minus-column", a[0] == "prime" and b[0] == "state" and a[1] is not None and a[1] == b[1],
                      "the value stored is SETSUM_PRIMES[i] - state[i] for the same i", "invert_state does not compute SETSUM_PRIMES[i] - state[i] (found %s - %s)" % (a, b), pt=sp)


def _stores(f, l):
    return [((b.idx, j), st) for b in f.blocks for j, st in enumerate(b.st) if st["s"] == "=" and not st["lhs"]["p"] and st["lhs"]["l"] == l]


def _is_prime_op(f, o):
    if any(q["k"] == "const" and (q.get("named") or "").endswith("SETSUM_PRIMES") for q in P.origins(f, o, through_calls=False)):
        return True
    # the column's prime handed out by an iterator over SETSUM_PRIMES zipped with the columns (origins are positional through zip)
    srcs = P.origins(f, o)
    return any(q["k"] == "const" and (q.get("named") or "").endswith("SETSUM_PRIMES") and q.get("via_next") for q in srcs) and \
        not any(q["k"] in ("param", "bin") for q in srcs)


def _ix_roots(f, o, depth=0):
    """Index variables (roots) of the array reads an operand is computed from, following casts and copies."""
    out = set()
    if o is None or o.get("k") not in ("copy", "move") or depth > 6:
        return out
    if depth == 0:
        # an element of a zip chain: its `column` is the turn of the loop it was handed out in
        via = {(q["via_next"], bool(q.get("plain"))) for q in P.origins(f, o) if q.get("via_next") and q["k"] in ("param", "const", "agg")}
        if any(not pl_ for _v, pl_ in via):
            return {("reordered", id(o))}       # a chain with rev / skip / step_by does not pair equal columns
        if via and not any(isinstance(e, dict) and "ix" in e for e in o["pl"]["p"]):
            direct = [e for e in o["pl"]["p"] if isinstance(e, dict) and "ix" in e]
            if not direct:
                got = _ix_roots(f, o, depth + 1)
                return got or {("turn", v) for v in via}
    for e in o["pl"]["p"]:
        if isinstance(e, dict) and "ix" in e:
            out.add(K.root_local(f, {"k": "copy", "pl": {"l": e["ix"], "p": []}}))
    if not o["pl"]["p"]:
        for _sp, st in _stores(f, o["pl"]["l"]):
            rv = st["rv"]
            if rv["r"] in ("use", "cast"):
                out |= _ix_roots(f, rv["a"], depth + 1)
    return out


def _checked_sub_reductions(f):
    """[(point of checked_sub, point of unwrap_or)] for `x.checked_sub(prime).unwrap_or(x)`: subtracts the prime exactly when x >= prime."""
    out = []
    for p_ in P.call_points(f, r"::checked_sub$"):
        t = P.term_at(f, p_)
        if len(t["args"]) != 2 or not _is_prime_op(f, t["args"][1]):
            continue
        x = K.root_local(f, t["args"][0])
        for q_ in P.call_points(f, r"Option::unwrap_or$"):
            u = P.term_at(f, q_)
            if any(s_["k"] == "call" and s_.get("pt") == p_ for s_ in P.origins(f, u["args"][0])) and K.root_local(f, u["args"][1]) == x:
                out.append((p_, q_))
    return out


def c146(ctx):
    """Reduction modulo the column's prime is exact: the value is compared with the prime with `>=` (a column equal to p must become 0:
    digests compare columns for equality) and the prime subtracted on exactly that edge is the prime of the same column; in add_state
    the two columns are widened before they are added (u32 + u32 can exceed u32)."""
    R = "C14.6"
    ctx.declare(R, "the conditional subtraction reduces exactly: compare with >=, subtract the same column's prime on that edge, add in 64 bits")
    for name in ("add_state", "hash_to_state"):
        f = ctx.fn(R, S + name)
        if not f:
            continue
        subs = [((b.idx, j), st) for b in f.blocks for j, st in enumerate(b.st)
                if st["s"] == "=" and st["rv"]["r"] == "bin" and st["rv"]["op"] in ("Sub", "SubWithOverflow", "SubUnchecked") and _is_prime_op(f, st["rv"]["b"])]
        csr = _checked_sub_reductions(f)
        if not subs and len(csr) == 1:
            ctx.ok(R, f, "%s reduces with x.checked_sub(prime).unwrap_or(x): the prime is subtracted exactly when x >= prime, at one site" % name, [csr[0][0]])
            continue
        ctx.check(R, f, "one-reduction", len(subs) == 1, "%s subtracts the prime at one site" % name, "expected one `x - prime` in %s, found %d" % (name, len(subs)))
        for sp, st in subs:
            x = K.root_local(f, st["rv"]["a"])
            good = None
            for g in K.compare_guards(f, sp):
                a, b, op = g["a"], g["b"], g["op"]
                if not g["holds"]:
                    op = {"Lt": "Ge", "Le": "Gt", "Gt": "Le", "Ge": "Lt"}.get(op, op)
                if _is_prime_op(f, a) and not _is_prime_op(f, b):
                    a, b, op = b, a, {"Le": "Ge", "Lt": "Gt", "Ge": "Le", "Gt": "Lt"}.get(op, op)
                if _is_prime_op(f, b) and K.root_local(f, a) == x:
                    good = op
                    ixc = _ix_roots(f, b)
            ctx.check(R, f, "reduce-when-ge", good == "Ge", "the prime is subtracted exactly when value >= prime",
                      "the prime is subtracted under `value %s prime`: a column equal to its prime is not reduced to 0 (or a smaller one wraps)" % {"Gt": ">", "Lt": "<", "Le": "<=", None: "?"}.get(good, good), pt=sp)
            if good:
                ixs = _ix_roots(f, st["rv"]["b"])
                ctx.check(R, f, "same-column-prime", len(ixs) == 1 and ixs == ixc, "the prime compared with and the prime subtracted are the same column's",
                          "the prime subtracted is not the prime compared with", pt=sp)
        if name == "add_state":
            adds = [((b.idx, j), st) for b in f.blocks for j, st in enumerate(b.st)
                    if st["s"] == "=" and st["rv"]["r"] == "bin" and st["rv"]["op"] in ("Add", "AddWithOverflow", "AddUnchecked")
                    and not any(o.get("k") == "const" for o in (st["rv"]["a"], st["rv"]["b"]))]
            ctx.check(R, f, "one-column-add", len(adds) == 1, "add_state adds the two columns at one site", "expected one column addition in add_state, found %d" % len(adds))
            for sp, st in adds:
                tys = {f.locals[o["pl"]["l"]] for o in (st["rv"]["a"], st["rv"]["b"])}
                ctx.check(R, f, "add-in-64-bits", tys == {"u64"}, "the columns are added as u64", "the columns are added as %s: the sum of two columns can exceed u32" % sorted(tys), pt=sp)
                ia, ib = _ix_roots(f, st["rv"]["a"]), _ix_roots(f, st["rv"]["b"])
                ctx.check(R, f, "same-column-operands", len(ia) == 1 and ia == ib, "both operands are the same column of lhs and rhs", "the addition mixes columns", pt=sp)
