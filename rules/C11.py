"""C11 — cursor combinators: sibling-consistency rules (exhaustion tests, forwarding tables, direction switch)."""
import re

from blue import prim as P
from blue.facts import callee_skey, strip_generics
from . import common as K

EXPLANATION = (
    "C11 structural clauses: (C11.1) in every cursor implementation (and gc/verifier code) a test of value().is_none()/"
    "is_some() is a tombstone test, i.e. it is dominated by the Some edge of key()/key_value() on the same cursor — used "
    "as an end-of-data test it conflates a tombstone with exhaustion (contradiction check against the sibling that uses "
    "key()); (C11.2) pure wrapper cursors forward method m to inner m and to no other movement method, and key/value are "
    "never crossed; (C11.3) MergingCursor::{next,prev}: on a direction switch every child is advanced, then the comparator "
    "is flipped, then the heap is rebuilt; otherwise only the root is advanced and percolated down; every seek positions "
    "every child, sets the comparator and heapifies; (C11.4) PruningCursor's three movement methods compare the entry "
    "timestamp with the snapshot timestamp and test tombstones, and the two forward scans (seek, next) accept an entry only "
    "after screening it against skip_key, which the tombstone arm of the same loop sets; (C11.5) BoundsCursor next/prev are "
    "mirror images; (C11.6) ConcatenatingCursor leaves an exhausted child in every movement.  SIBLINGS/GUARDED/ORDER over resolved MIR.")
NOT_DECIDED = ("the equivalences themselves (sorted union, concatenation, restriction to bounds, newest <= t) for all inputs and "
               "call programs")
ASSUMPTIONS = []

METHODS = ("seek_to_first", "seek_to_last", "seek", "prev", "next", "key", "value", "key_value")


def rules(ctx):
    c111(ctx)
    c112(ctx)
    c113(ctx)
    c114(ctx)
    c115(ctx)
    c116(ctx)
    c117(ctx)
    c118(ctx)
    c119(ctx)


def c115(ctx):
    R = "C11.5"
    ctx.declare(R, "bounds cursor: forward and backward steps are mirror images — both bounds are re-checked after every inner step, in a loop")
    B = "<sst::bounds_cursor::BoundsCursor as sst::Cursor>::"
    checks = {}
    for m in ("next", "prev"):
        f = ctx.fn(R, B + m)
        if not f:
            continue
        mv = [pt for name, pt in cursor_calls(f) if name == m]
        st = P.call_points(f, r"BoundsCursor::check_for_start_bound_exceeded$")
        en = P.call_points(f, r"BoundsCursor::check_for_end_bound_exceeded$")
        checks[m] = (bool(st), bool(en))
        ctx.check(R, f, "inner-step", len(mv) == 1, "%s advances the wrapped cursor with %s" % (m, m), "%s has %d inner %s steps" % (m, len(mv), m))
        ctx.check(R, f, "both-bounds", bool(st) and bool(en), "%s re-checks the start and the end bound" % m,
                  "%s re-checks only %s: stepping from outside the other bound yields out-of-range keys" % (m, "the start bound" if st else "the end bound" if en else "no bound"))
        for p_ in mv:
            for label, pts in (("start", st), ("end", en)):
                if pts:
                    q = P.reach(f, P.after(f, p_), P.return_points(f), avoid=set(pts) | set(P.error_points(f)))
                    ctx.check(R, f, "check-after-step:" + label, q is None, "every inner step is followed by the %s-bound check" % label,
                              "an inner step can return without the %s-bound check" % label, pt=p_, path=q)
            ctx.check(R, f, "step-loop", P.reach(f, P.after(f, p_), [p_]) is not None, "%s keeps stepping while the position is outside the opposite bound" % m,
                      "%s steps once only: a position outside the opposite bound is reported as in range" % m, pt=p_)
    # the state machine: moving forward the cursor keeps stepping while it is still BeforeStart (and stops for good at AfterEnd);
    # moving backward it keeps stepping while it is still AfterEnd (and stops for good at BeforeStart).  The variant each test
    # compares self.bounds with is read from the promoted constant operand.
    def bounds_tests(f):
        out = []
        for b in P.switch_blocks(f):
            for c_ in K.cond_sources(f, b.idx):
                if c_["k"] == "call" and re.search(r"::(ne|eq)$", c_["callee"]) and len(c_["t"]["args"]) == 2:
                    if not any(s_["k"] == "field" and s_["f"] == "bounds" for a in c_["t"]["args"] for s_ in P.origins(f, a)):
                        continue
                    var = None
                    for a in c_["t"]["args"]:
                        for s_ in P.origins(f, a):
                            if s_["k"] == "const" and s_.get("pvariant"):
                                var = s_["pvariant"]
                    name = c_["callee"].rsplit("::", 1)[-1]
                    out.append((b, var, name))
        return out
    for m, keep_stepping, stop in (("next", "BeforeStart", "AfterEnd"), ("prev", "AfterEnd", "BeforeStart")):
        f = ctx.fn(R, B + m)
        if not f:
            continue
        mv = [pt for name, pt in cursor_calls(f) if name == m]
        tests = bounds_tests(f)
        ctx.floor(R, "%s: tests of self.bounds" % m, len(tests), 2)
        rets = [r_ for r_ in P.ok_points(f)]
        for (b, var, name) in tests:
            differs = "sw:1" if name == "ne" else "sw:0"
            equal = "sw:0" if name == "ne" else "sw:1"
            tgt_eq = dict(b.succs).get(equal)
            tgt_ne = dict(b.succs).get(differs)
            after_step = any(P.reach(f, P.after(f, p_), [P.term_pt(f, b.idx)], avoid=set(mv) - {p_}) is not None for p_ in mv) and \
                not P.reach(f, P.ENTRY, [P.term_pt(f, b.idx)], avoid=set(mv)) is not None
            if after_step:
                # the test that follows a step: equal to `keep_stepping` goes round again, anything else returns
                again = tgt_eq is not None and any(P.reach(f, [(tgt_eq, 0)], [p_], avoid=set(rets)) is not None for p_ in mv)
                ctx.check(R, f, "retry-while:" + keep_stepping, var == keep_stepping and again,
                          "%s steps again exactly while the position is still %s" % (m, keep_stepping),
                          "after a step, %s retries while self.bounds == %s (expected %s): a position that is still %s is reported as in range, or a "
                          "position already in range is stepped over" % (m, var, keep_stepping, keep_stepping), pt=P.term_pt(f, b.idx))
            else:
                # the loop guard evaluated before the first step: nothing to do once the cursor is parked at `stop`
                ctx.check(R, f, "parked-at:" + stop, var == stop,
                          "%s does not move once the cursor is %s" % (m, stop),
                          "%s's entry guard compares self.bounds with %s (expected %s)" % (m, var, stop), pt=P.term_pt(f, b.idx))
    f = ctx.fn(R, B + "seek")
    if f:
        st = P.call_points(f, r"BoundsCursor::check_for_start_bound_exceeded$")
        en = P.call_points(f, r"BoundsCursor::check_for_end_bound_exceeded$")
        ctx.check(R, f, "both-bounds", bool(st) and bool(en), "seek re-checks both bounds", "seek does not re-check both bounds")
    for name, fld in (("check_for_start_bound_exceeded", "start_bound"), ("check_for_end_bound_exceeded", "end_bound")):
        g = ctx.fn(R, "sst::bounds_cursor::BoundsCursor::" + name)
        if g:
            w = P.field_writes(g, r"bounds_cursor::BoundsCursor$", "bounds")
            reads = any(s_["k"] == "field" and s_["f"] == fld for b in P.switch_blocks(g) for s_ in K.cond_sources(g, b.idx))
            ctx.check(R, g, "reads-own-bound", bool(w) and reads, "%s compares with self.%s and updates self.bounds" % (name, fld), "%s does not use self.%s" % (name, fld))


def c116(ctx):
    R = "C11.6"
    ctx.declare(R, "concatenating cursor: after every movement the current child is positioned, or there is no further child in that direction")
    Cc = "<sst::concat_cursor::ConcatenatingCursor as sst::Cursor>::"
    for m in ("seek", "next", "prev"):
        f = ctx.fn(R, Cc + m)
        if not f:
            continue
        mv = [pt for name, pt in cursor_calls(f) if name == m]
        ctx.floor(R, f.skey + " child " + m, len(mv), 1)
        # exhaustion tests: child.key() feeding is_none()/is_some()
        tests = []
        for b, t in f.calls():
            if re.search(r"core::option::Option::(is_none|is_some)$", callee_skey(t) or ""):
                if any(s_["k"] == "call" and re.search(r"Cursor>?::key$", s_["callee"]) for s_ in P.origins(f, t["args"][0])):
                    tests.append(P.term_pt(f, b.idx))
        rp = P.call_points(f, r"ConcatenatingCursor::reposition$")
        for p_ in mv:
            q = P.reach(f, P.after(f, p_), P.return_points(f), avoid=set(tests) | set(P.error_points(f)))
            ctx.check(R, f, "exhaustion-test-after-move", q is None and bool(tests),
                      "after moving the child with %s, the cursor tests key() for exhaustion before returning" % m,
                      "%s returns right after moving the child: if that child has nothing (more) in this direction the concatenation reports the end "
                      "although a neighbouring child has entries" % m, pt=p_, path=q)
        # an exhausted child leads to the neighbour: some reposition is reachable from an exhaustion test
        ok = any(P.reach(f, P.after(f, t_), rp) is not None for t_ in tests) if tests else False
        ctx.check(R, f, "moves-to-neighbour", ok, "an exhausted child is followed by reposition() to its neighbour", "%s never moves on from an exhausted child" % m)


    # the binary search of seek() classifies a child as `entirely before the key` only by a key it actually holds: the lower end of
    # the search interval is raised only on the Some edge of the probed child's key() -- an empty child says nothing about where the
    # key falls, and skipping to its right loses every entry of the children on its left
    f = ctx.fn(R, Cc + "seek")
    if f:
        rp = P.call_points(f, r"ConcatenatingCursor::reposition$")
        probes = [p_ for p_ in rp if P.reach(f, P.after(f, p_), [p_]) is not None]     # reposition(mid) inside the search loop
        # the interval's lower end: a usize local written in the loop with `mid + 1`
        raised = []
        for b in f.blocks:
            for i, st in enumerate(b.st):
                if st["s"] != "=" or st["lhs"]["p"] or "usize" not in f.locals[st["lhs"]["l"]] or not f.local_name(st["lhs"]["l"]):
                    continue
                if st["rv"]["r"] != "use":
                    continue
                srcs = P.origins(f, st["rv"]["a"], through_calls=P._Opt(True, False))
                if any(x["k"] == "bin" and x["op"].startswith("Add") and x["st"]["rv"]["b"].get("k") == "const" and x["st"]["rv"]["b"]["c"].get("v") == 1 for x in srcs) \
                        and P.reach(f, P.after(f, (b.idx, i)), [(b.idx, i)]) is not None and probes:
                    raised.append((b.idx, i))
        if probes:
            ctx.floor(R, "seek: writes that raise the lower end of the search interval", len(raised), 1)
        for w in raised:
            some = False
            for bb, lab in P.guards_of(f, w):
                d = f.blocks[bb].term["discr"]
                if d.get("k") not in ("copy", "move"):
                    continue
                for (_p, kind, p_) in P.defs(f).of(d["pl"]["l"]):
                    if kind == "assign" and p_["rv"]["r"] == "discr" and lab == "sw:1" and \
                            any(s_["k"] == "call" and re.search(r"Cursor>?::key$", s_["callee"]) for s_ in P.origins(f, {"k": "copy", "pl": {"l": p_["rv"]["pl"]["l"], "p": []}})):
                        some = True
            ctx.check(R, f, "bisect-by-held-keys-only", some, "the search interval is narrowed from the left only past a child whose last key was read",
                      "seek's binary search moves right of a probed child also when that child is empty: an empty child between two non-empty ones sends "
                      "the search past the child that holds the key ([A,B] [] [E,F]: seek(A) answers E)", pt=w)


def c117(ctx):
    R = "C11.7"
    ctx.declare(R, "concatenating cursor: a child that becomes the current one is positioned by a seek of its own before it is stepped or read -- "
                   "where an earlier pass left it (after its last entry, before its first) says nothing about this pass")
    Cc = "<sst::concat_cursor::ConcatenatingCursor as sst::Cursor>::"
    want = {"next": {"seek_to_first"}, "prev": {"seek_to_last"}, "seek_to_first": {"seek_to_first"}, "seek_to_last": {"seek_to_last"},
            "seek": {"seek", "seek_to_last", "seek_to_first"}}
    n = 0
    for m in ("seek_to_first", "seek_to_last", "seek", "next", "prev"):
        f = ctx.fn(R, Cc + m)
        if not f:
            continue
        cc = cursor_calls(f)
        rp = P.call_points(f, r"ConcatenatingCursor::reposition$")
        n += len(rp)
        seeks = [pt for name, pt in cc if name in want[m]]
        other = [pt for name, pt in cc if name not in ("seek", "seek_to_first", "seek_to_last")] + \
                [pt for name, pt in cc if name in ("seek", "seek_to_first", "seek_to_last") and name not in want[m]]
        for p_ in rp:
            q = P.reach(f, P.after(f, p_), other + P.return_points(f), avoid=set(seeks) | set(P.error_points(f)))
            ctx.check(R, f, "entered-child-is-sought", q is None,
                      "after reposition() the new current child is positioned with %s before anything else touches it" % "/".join(sorted(want[m])),
                      "%s makes another child current and steps, reads or returns it without seeking it (%s) first: a child that an earlier pass ran off "
                      "the end of stays exhausted, and all of its entries are skipped on this pass" % (m, "/".join(sorted(want[m]))), pt=p_, path=q)
    ctx.floor(R, "concatenating cursor: reposition() sites", n, 6)


def c118(ctx):
    R = "C11.8"
    ctx.declare(R, "lazy cursor: a movement that fails leaves the position as it was -- the resting sentinel (First / Last) is stored only after the last "
                   "fallible step, so a caller that retries after a failed open does not find the file `exhausted`")
    L = "<sst::lazy_cursor::LazyCursor as sst::Cursor>::"
    n = 0

    def sentinel(fn, op):
        return any(x["k"] == "agg" and (x.get("adt") or "").endswith("lazy_cursor::Position") and x.get("variant") in ("First", "Last") for x in P.origins(fn, op))
    for m in ("seek", "next", "prev"):
        f = ctx.fn(R, L + m)
        if not f:
            continue
        ws = []
        for pt in P.field_writes(f, r"lazy_cursor::LazyCursor$", "position"):
            if pt[1] < len(f.blocks[pt[0]].st):
                rv = f.blocks[pt[0]].st[pt[1]]["rv"]
                if (rv.get("r") == "agg" and rv.get("variant") in ("First", "Last")) or (rv.get("r") == "use" and sentinel(f, rv["a"])):
                    ws.append(pt)
        for b, t in f.calls():
            ck = callee_skey(t) or ""
            if re.search(r"^core::mem::(replace|swap)$", ck) or ck.startswith("sst::lazy_cursor::LazyCursor::"):
                if any(sentinel(f, a) for a in t["args"][1:]):
                    ws.append(P.term_pt(f, b.idx))
        n += len(ws)
        errs = P.error_points(f)
        for w in ws:
            q = P.reach(f, P.after(f, w), errs)
            ctx.check(R, f, "sentinel-after-last-fallible-step", q is None, "the resting position is stored where nothing can fail any more",
                      "%s stores the resting position (First / Last) and can still fail afterwards: after a failed open or a failed inner move the cursor "
                      "is parked at the far end, and a retry of the same call answers `exhausted` for a file that was never read" % m, pt=w, path=q)
    ctx.floor(R, "lazy cursor: stores of a resting position in seek / next / prev", n, 3)


def c119(ctx):
    R = "C11.9"
    ctx.declare(R, "the merge orders its children by the whole entry key (key ascending, then timestamp descending) going forward and by exactly "
                   "the reverse going backward: the two positioned-vs-positioned arms of Comparator::is_less compare the same two KeyRefs with "
                   "opposite operators (or the same operator with the operands swapped) -- versions of one key that sit in different children come out "
                   "oldest first on the way back, which the pruning stage above relies on")
    fs = [f for k, f in ctx.prog.fns.items() if f.crate == "sst" and re.search(r"merging_cursor::Comparator::is_less$", f.skey)]
    ctx.floor(R, "Comparator::is_less", len(fs), 1)
    for f in fs:
        cmps = []
        for b, t in f.calls():
            ck = callee_skey(t) or t.get("decl") or ""
            m = re.search(r"PartialOrd::(lt|gt|le|ge)$|Ord::(cmp)$|PartialOrd::(partial_cmp)$", ck)
            if not m or len(t["args"]) != 2:
                continue
            op = m.group(1) or m.group(2) or m.group(3)
            sides = []
            for a in t["args"]:
                src = P.origins(f, a)
                whole = any(x["k"] == "call" and re.search(r"Cursor>?::key$", x["callee"]) for x in src) and not any(x["k"] == "field" and x["f"] in ("key", "timestamp") for x in src)
                who = {y["i"] for x in src if x["k"] == "call" and re.search(r"Cursor>?::key$", x["callee"]) for y in P.origins(f, x["t"]["args"][0]) if y["k"] == "param"}
                sides.append((whole, tuple(sorted(who))))
            cmps.append((op, sides, P.term_pt(f, b.idx)))
        whole_cmps = [(op, sd) for op, sd, _pt in cmps if all(w for w, _ in sd)]
        partial = [pt for op, sd, pt in cmps if not all(w for w, _ in sd)]
        forms = {(op, sd[0][1] < sd[1][1]) for op, sd in whole_cmps}
        mirror = forms in ({("lt", True), ("gt", True)}, {("lt", True), ("lt", False)}, {("gt", True), ("gt", False)}, {("lt", False), ("gt", False)})
        ctx.check(R, f, "directions-are-mirror-images", mirror and not partial, "forward and backward compare the whole keys with mirrored operators (%s)" % sorted(forms),
                  "Comparator::is_less does not order its children by the whole key in one direction and by its exact reverse in the other (%s%s): a tie "
                  "on the user key that is broken the same way in both directions hands the versions of a key to the pruning stage newest-first on the "
                  "way back" % (sorted(forms), "; parts of the key are compared separately" if partial else ""), pt=(partial or [None])[0])


def key_some_guard(f, pt, recv_names):
    """pt is dominated by an edge on which key()/key_value() of the same receiver returned Some."""
    for bb, lab, srcs in K.guards(f, pt):
        calls = [s for s in srcs if s["k"] == "call" and re.search(r"::(key|key_value)$", s["callee"])]
        if not calls:
            continue
        same = any(recv_sig(f, s["t"]["args"][0]) & recv_names for s in calls) if recv_names else True
        if not same:
            continue
        has_discr = any(s["k"] == "discr" for s in srcs)
        is_some = any(s["k"] == "call" and s["callee"].endswith("Option::is_some") for s in srcs)
        is_none = any(s["k"] == "call" and s["callee"].endswith("Option::is_none") for s in srcs)
        negs = sum(1 for x in srcs if x["k"] == "un" and x["op"] == "Not")
        if is_some and ((lab == "sw:1") != bool(negs % 2)):
            return True
        if is_none and ((lab == "sw:0") != bool(negs % 2)):
            return True
        if has_discr and not is_some and not is_none and lab == "sw:1":
            return True
    return False


def recv_sig(f, op):
    """A signature of a cursor receiver: field names / params in its origin (to tell two cursors apart)."""
    sig = set()
    for s in P.origins(f, op):
        if s["k"] == "field":
            sig.add("." + s["f"])
        elif s["k"] == "param":
            sig.add("p%d" % s["i"])
    return sig


def value_tests(f):
    """[(point of the value() call, point of the is_none/is_some call)] where the Option returned by a
    cursor's value() is tested for presence."""
    out = []
    for b, t in f.calls():
        ck = callee_skey(t) or ""
        if not re.search(r"core::option::Option::(is_none|is_some)$", ck):
            continue
        pt = P.term_pt(f, b.idx)
        for s in P.origins(f, t["args"][0]):
            if s["k"] == "call" and re.search(r"(Cursor>?::value|::value)$", s["callee"]) and "Cursor" in (s["t"].get("trait") or s["callee"]):
                # feeds a branch?
                d = t["dest"]["l"]
                feeds = any(u[0] == "switch" or u[0] == "operand" for u in K.local_uses(f, d))
                if feeds:
                    out.append((s["pt"], pt))
    return out


def c111(ctx):
    R = "C11.1"
    ctx.declare(R, "exhaustion is tested through the key, never through the value")
    n = 0
    for f in sorted(ctx.prog.fns.values(), key=lambda f: f.key):
        if f.crate not in ("sst", "lsmtk"):
            continue
        for vpt, tpt in value_tests(f):
            n += 1
            recv = recv_sig(f, P.term_at(f, vpt)["args"][0])
            ok = key_some_guard(f, vpt, recv)
            ctx.check(R, f, "value-as-end-test", ok, "value().is_none()/is_some() is a tombstone test (key()/key_value() of the same cursor is known Some)",
                      "value().is_none()/is_some() is used without key() being known Some: a tombstone is mistaken for the end of the cursor", pt=vpt)
    ctx.floor(R, "value presence tests", n, 3)
    # sibling contradiction: ConcatenatingCursor::next and ::prev must test exhaustion the same way
    nx = ctx.fn(R, "<sst::concat_cursor::ConcatenatingCursor as sst::Cursor>::next")
    pv = ctx.fn(R, "<sst::concat_cursor::ConcatenatingCursor as sst::Cursor>::prev")
    if nx and pv:
        def test_kind(f):
            kinds = set()
            for b in P.switch_blocks(f):
                for s in K.cond_sources(f, b.idx):
                    if s["k"] == "call" and re.search(r"Cursor>?::(key|value|key_value)$", s["callee"]):
                        kinds.add(s["callee"].rsplit("::", 1)[-1])
            return kinds
        a, b = test_kind(nx), test_kind(pv)
        ctx.check(R, nx, "siblings-agree", a == b and a == {"key"}, "next and prev both detect an exhausted child through key()",
                  "ConcatenatingCursor::next tests %s while prev tests %s" % (sorted(a), sorted(b)))


PURE = [
    "<alloc::boxed::Box<dyn sst::Cursor> as sst::Cursor>",
    "<lsmtk::kvs::memtable::MemTableCursor as sst::Cursor>",
    "<lsmtk::kvs::memtable::SkipListIteratorWrapper as sst::Cursor>",
    "<lsmtk::tree::PinnedCursor as sst::Cursor>",
]
KV_ONLY = [
    "<sst::pruning_cursor::PruningCursor as sst::Cursor>",
    "<sst::merging_cursor::MergingCursor as sst::Cursor>",
    "<sst::concat_cursor::ConcatenatingCursor as sst::Cursor>",
    "<sst::lazy_cursor::LazyCursor as sst::Cursor>",
    "<sst::bounds_cursor::BoundsCursor as sst::Cursor>",
    "<sst::SstCursor as sst::Cursor>",
]


def cursor_calls(f):
    """Names of cursor-movement/read methods this function calls on another cursor or iterator."""
    names = []
    for b, t in f.calls():
        ck = callee_skey(t) or ""
        last = ck.rsplit("::", 1)[-1]
        if last in METHODS and (re.search(r"Cursor|SkipListIterator", ck) or (t.get("trait") or "").endswith("sst::Cursor")):
            names.append((last, P.term_pt(f, b.idx)))
        # a cursor method handed to a combinator as a function item: `self.block_cursor.as_ref().and_then(BlockCursor::key)`
        for a in t["args"]:
            fk = strip_generics((a.get("c") or {}).get("fn") or "") if a.get("k") == "const" else ""
            if fk and fk.rsplit("::", 1)[-1] in METHODS and re.search(r"Cursor|SkipListIterator", fk):
                names.append((fk.rsplit("::", 1)[-1], P.term_pt(f, b.idx)))
    return names


def find_impl_fn(ctx, prefix, m):
    want = strip_generics(prefix) + "::" + m
    for f in ctx.prog.fns.values():
        if f.skey == want:
            return f
    # Box<dyn Cursor> prints with lifetimes
    if "Box" in prefix:
        for f in ctx.prog.fns.values():
            if f.name == m and f.impl_trait and f.impl_trait.endswith("sst::Cursor") and "Box<" in (f.impl_self or "") and f.crate == "sst":
                return f
    return None


def c112(ctx):
    R = "C11.2"
    ctx.declare(R, "wrapper cursors forward each method to the same method of the wrapped cursor")
    n = 0
    for prefix in PURE:
        for m in METHODS[:7]:
            f = find_impl_fn(ctx, prefix, m)
            if f is None:
                ctx.violate(R, prefix + "::" + m, "anchor", "wrapper method %s::%s not found" % (prefix, m), kind="anchor-missing")
                continue
            called = {c for c, _ in cursor_calls(f)}
            moves = called - {"is_valid"}
            if prefix.endswith("SkipListIteratorWrapper as sst::Cursor>") and m in ("key", "value"):
                moves = moves & {"key", "value", "seek_to_first", "seek_to_last", "seek", "prev", "next"}
            n += 1
            ctx.check(R, f, "forwards", moves == {m}, "%s forwards to inner %s only" % (f.skey, m),
                      "%s calls %s on the wrapped cursor (expected exactly {%s})" % (f.skey, sorted(moves), m))
            if m in ("next", "prev"):
                looped = [pt for c, pt in cursor_calls(f) if c == m and P.reach(f, P.after(f, pt), [pt]) is not None]
                ctx.check(R, f, "one-step", not looped, "%s moves the wrapped cursor by one entry" % f.skey,
                          "%s steps the wrapped cursor in a loop: a wrapper that skips entries (other versions of a key, tombstones) hides them from the "
                          "stages above it, which select the version visible at the scan's timestamp" % f.skey, pt=looped[0] if looped else None)
    for prefix in KV_ONLY:
        for m in ("key", "value"):
            f = find_impl_fn(ctx, prefix, m)
            if f is None:
                ctx.violate(R, prefix + "::" + m, "anchor", "method %s::%s not found" % (prefix, m), kind="anchor-missing")
                continue
            called = {c for c, _ in cursor_calls(f)} & {"key", "value", "key_value", "next", "prev", "seek", "seek_to_first", "seek_to_last"}
            n += 1
            ctx.check(R, f, "reads-same", called == {m}, "%s reads inner %s only" % (f.skey, m),
                      "%s calls %s on the wrapped cursor (expected exactly {%s})" % (f.skey, sorted(called), m))
    ctx.floor(R, "forwarding methods checked", n, 38)
    # the wrapped cursor is the wrapper's own field
    for prefix, fld in (("<lsmtk::kvs::memtable::MemTableCursor as sst::Cursor>", "cursor"), ("<lsmtk::tree::PinnedCursor as sst::Cursor>", "cursor"),
                        ("<lsmtk::kvs::memtable::SkipListIteratorWrapper as sst::Cursor>", "iter")):
        for m in ("next", "prev"):
            f = find_impl_fn(ctx, prefix, m)
            if f:
                for name, pt in cursor_calls(f):
                    ctx.check(R, f, "own-field", "." + fld in recv_sig(f, P.term_at(f, pt)["args"][0]), "the call goes to self.%s" % fld, "the forwarded call does not go to self.%s" % fld, pt=pt)


def c113(ctx):
    R = "C11.3"
    ctx.declare(R, "merging cursor: a direction switch advances every child before the heap is rebuilt under the new comparator")
    M = "<sst::merging_cursor::MergingCursor as sst::Cursor>::"
    for m, other_dir, new_dir in (("next", "Reverse", "Forward"), ("prev", "Forward", "Reverse")):
        f = ctx.fn(R, M + m)
        if not f:
            continue
        adv = [pt for name, pt in cursor_calls(f) if name == m]
        wrong = [name for name, pt in cursor_calls(f) if name in ("next", "prev") and name != m]
        ctx.check(R, f, "direction", not wrong and len(adv) == 2, "%s advances children only with %s (all-children loop + root)" % (m, m),
                  "%s advances children with %s / has %d advance sites" % (m, sorted(set(wrong)) or m, len(adv)))
        repos = sorted({name for name, pt in cursor_calls(f) if name in ("seek", "seek_to_first", "seek_to_last")})
        ctx.check(R, f, "steps-only", not repos, "%s moves children by single steps only (a child parked before its first or past its last entry is stepped from there)" % m,
                  "%s repositions a child with %s: a child parked at the other end is brought back into the merge and its entries are yielded twice or out of order" % (m, repos))
        heads = [h for h in P.call_points(f, r"IterMut as core::iter::traits::iterator::Iterator>::next$") if P.reach(f, P.after(f, h), [h])]
        in_loop = [p for p in adv if any(P.reach(f, P.after(f, p), [h]) for h in heads)]
        root = [p for p in adv if p not in in_loop]
        hp = ctx.calls(R, f, r"merging_cursor::MergingCursor::heapify$")
        pd = ctx.calls(R, f, r"merging_cursor::MergingCursor::percolate_down$")
        cw = P.field_writes(f, r"merging_cursor::MergingCursor$", "comparator")
        ctx.check(R, f, "sites", len(in_loop) == 1 and len(root) == 1 and len(heads) == 1 and len(cw) == 1,
                  "one all-children loop, one root advance, one comparator assignment", "unexpected shape of MergingCursor::%s" % m)
        if not (in_loop and root and heads and cw):
            continue
        for h in heads:
            p = P.reach(f, P.after(f, h), [h], avoid=set(in_loop) | set(P.error_points(f)))
            ctx.check(R, f, "every-child", p is None, "the loop advances every child", "a child can be skipped on a direction switch", pt=h, path=p)
            ctx.check(R, f, "iterates-cursors", ".cursors" in recv_sig(f, P.term_at(f, h)["args"][0]) or ".cursors" in K.src_names(f, P.term_at(f, h)["args"][0]),
                      "the loop iterates self.cursors", "the loop does not iterate self.cursors", pt=h)
        ctx.order_chain(R, f, [("all-children loop", heads), ("comparator = %s" % new_dir, cw), ("heapify", hp)])
        # the assigned comparator is the new direction
        st = f.blocks[cw[0][0]].st[cw[0][1]]
        var = {s.get("variant") for s in P.origins(f, st["rv"].get("a") or st["rv"]["ops"][0])} if st["rv"].get("a") else {st["rv"].get("variant")}
        ctx.check(R, f, "new-direction", new_dir in var, "the comparator becomes %s" % new_dir, "the comparator is set to %s" % sorted(v for v in var if v), pt=cw[0])
        ctx.order_chain(R, f, [("cursors[0].%s" % m, root), ("percolate_down(0)", pd)])
        for p in pd:
            ctx.check(R, f, "percolate-root", any(c.get("v") == 0 for c in K.arg_consts(f, p, 1)), "percolate_down is applied to the root", "percolate_down is not applied to index 0", pt=p)
        # the root branch must not run on a direction switch: the two advance sites are on different edges of the comparator test
        p = P.reach(f, P.after(f, in_loop[0]), root)
        ctx.check(R, f, "exclusive", p is None, "the root-only advance is not taken after the all-children advance", "both advances can run in one call", path=p)
        p = P.must_pass(f, hp + pd, goals=P.return_points(f), extra_avoid=[])
        empties = K.call_guards(f, root[0], r"Vec.*::is_empty$")
        ctx.check(R, f, "heap-restored", p is None or bool(empties), "every non-empty path restores the heap (heapify or percolate_down)",
                  "a movement can return without restoring the heap order")
    for m, d in (("seek_to_first", "Forward"), ("seek_to_last", "Reverse"), ("seek", "Forward")):
        f = ctx.fn(R, M + m)
        if not f:
            continue
        hp = ctx.calls(R, f, r"merging_cursor::MergingCursor::heapify$")
        ctx.must_pass(R, f, "heapify", hp)
        cw = P.field_writes(f, r"merging_cursor::MergingCursor$", "comparator")
        ctx.check(R, f, "sets-comparator", len(cw) == 1, "%s sets the comparator" % m, "%s does not set the comparator exactly once" % m)
        for p in cw:
            st = f.blocks[p[0]].st[p[1]]
            var = {st["rv"].get("variant")} | {s.get("variant") for s in (P.origins(f, st["rv"]["a"]) if st["rv"].get("a") else [])}
            ctx.check(R, f, "comparator-value", d in var, "to %s" % d, "%s sets the comparator to %s" % (m, sorted(v for v in var if v)), pt=p)
        heads = [h for h in P.call_points(f, r"IterMut as core::iter::traits::iterator::Iterator>::next$") if P.reach(f, P.after(f, h), [h])]
        pos = [pt for name, pt in cursor_calls(f) if name == m]
        for h in heads:
            p = P.reach(f, P.after(f, h), [h], avoid=set(pos) | set(P.error_points(f)))
            ctx.check(R, f, "every-child", p is None and bool(pos), "every child is positioned with %s" % m, "a child can be left unpositioned by %s" % m, pt=h, path=p)
        ctx.order_chain(R, f, [("position every child", heads), ("heapify", hp)])
        # heapify orders the children with self.comparator: the direction must be set before the heap is built (built under
        # the previous direction and relabelled afterwards, the root is the wrong extreme until the next direction switch)
        ctx.order_chain(R, f, [("comparator = %s" % d, cw), ("heapify", hp)])


def _assert_switch(f, bidx):
    """The switch that ends block `bidx` has an arm that does nothing but panic (assert!, unreachable!, expect)."""
    for _lab, s in f.blocks[bidx].succs:
        t = f.blocks[s].term
        if t["t"] == "call" and t.get("to") is None and re.search(r"panicking::|panic_fmt|panic_display|assert_failed", callee_skey(t) or t.get("callee") or ""):
            return True
    return False


def _key_none_edges(f):
    """(block, label) edges taken exactly when the wrapped cursor's key() answered None: `match self.key() { None => .. }`,
    `while let Some(..) = self.key()`, `if self.key().is_none()` / `is_some()`.  key() is a pure read, so on such an edge there is no
    entry under the cursor until the next step."""
    out = set()
    iskey = lambda s_: s_["k"] == "call" and re.search(r"Cursor>::key$|::key$", s_["callee"])
    for b in P.switch_blocks(f):
        d = b.term["discr"]
        if d.get("k") not in ("copy", "move"):
            continue
        for (_p, kind, p_) in P.defs(f).of(d["pl"]["l"]):
            if kind == "assign" and p_["rv"]["r"] == "discr":
                if any(iskey(s_) for s_ in P.origins(f, {"k": "copy", "pl": {"l": p_["rv"]["pl"]["l"], "p": []}})):
                    out.add((b.idx, "sw:0"))
            elif kind == "call":
                ck = callee_skey(p_) or ""
                m_ = re.search(r"Option::(is_none|is_some)$", ck)
                if m_ and p_["args"] and any(iskey(s_) for s_ in P.origins(f, p_["args"][0])):
                    out.add((b.idx, "sw:1" if m_.group(1) == "is_none" else "sw:0"))
    return out


def c114(ctx):
    R = "C11.4"
    ctx.declare(R, "pruning cursor: every movement filters by timestamp and recognises tombstones")
    for m in ("seek", "next", "prev"):
        f = ctx.fn(R, "<sst::pruning_cursor::PruningCursor as sst::Cursor>::" + m)
        if not f:
            continue
        cmps = []
        for b in f.blocks:
            for i, st in enumerate(b.st):
                rv = st.get("rv", {})
                if rv.get("r") == "bin" and rv["op"] in ("Le", "Lt", "Ge", "Gt"):
                    na, nb = K.src_names(f, rv["a"]), K.src_names(f, rv["b"])
                    if ".timestamp" in na and ".timestamp" in nb:
                        # normalise to `entry OP snapshot`: the snapshot side is the cursor's own field
                        snap = lambda o: any(s_["k"] == "field" and s_["f"] == "timestamp" and s_.get("owner", "").endswith("PruningCursor") for s_ in P.origins(f, o))
                        op = rv["op"]
                        if snap(rv["a"]) and not snap(rv["b"]):
                            op = {"Le": "Ge", "Ge": "Le", "Lt": "Gt", "Gt": "Lt"}[op]
                        cmps.append(((b.idx, i), op))
        ctx.check(R, f, "timestamp-filter", bool(cmps) and all(op in ("Le", "Gt") for _p, op in cmps),
                  "%s compares kr.timestamp <= self.timestamp (%d sites)" % (m, len(cmps)), "%s no longer filters entries by `timestamp <= snapshot`" % m)
        vt = value_tests(f)
        ctx.check(R, f, "tombstone-test", bool(vt), "%s tests value() for tombstones" % m, "%s no longer recognises tombstones" % m)
        # every entry the cursor treats as a version it may show (its key recorded with set_skip_key) was screened by a
        # *branch* on `timestamp <= snapshot` after the last step of the wrapped cursor.  The wrapped cursor of a store scan
        # stands on the live memtable: an entry stepped onto without a test of its own may be a write newer than the
        # snapshot, whatever the entries before it were.  An assert! on the comparison is not a screen: it aborts the scan.
        screens = [p_ for p_, _op in cmps if not _assert_switch(f, p_[0])]
        moves = [pt for name, pt in cursor_calls(f) if name in ("next", "prev", "seek")]
        ssk = P.call_points(f, r"PruningCursor::set_skip_key$")
        for p_ in ssk:
            q = None
            for mv_ in moves:
                q = q or P.reach(f, P.after(f, mv_), [p_], avoid=set(screens) | (set(moves) - {mv_}) | set(P.error_points(f)),
                                 avoid_edges=_key_none_edges(f))
            ctx.check(R, f, "screened-after-last-step", bool(screens) and q is None,
                      "%s treats an entry as visible only behind a branch on `timestamp <= snapshot` taken after the last step" % m,
                      "%s steps the wrapped cursor and then treats the entry it lands on as a visible version without branching on its "
                      "timestamp: over the live memtable that entry can be a write newer than the snapshot (shown to the scan, or "
                      "tripping the assertion behind it)" % m, pt=p_, path=q)
    # forward scans (seek and next are siblings): an entry is accepted (set_skip_key, then return without moving on) only
    # after it has been screened against skip_key -- the tombstone arm of the same loop sets skip_key to hide the older
    # versions beneath the tombstone, and only this screen honours it.
    for m in ("seek", "next"):
        f = ctx.fn(R, "<sst::pruning_cursor::PruningCursor as sst::Cursor>::" + m)
        if not f:
            continue
        moves = [pt for name, pt in cursor_calls(f) if name in ("next", "prev", "seek")]
        ssk = P.call_points(f, r"PruningCursor::set_skip_key$")
        accept = [p_ for p_ in ssk if P.reach(f, P.after(f, p_), P.return_points(f), avoid=set(moves) | set(P.error_points(f))) is not None]
        ctx.check(R, f, "accept-site", bool(accept), "%s has an accepting exit (set_skip_key then return)" % m, "%s has no accepting exit" % m)
        screens = []
        for b, t in f.calls():
            ck = callee_skey(t) or ""
            if re.search(r"Option::(is_none|is_some)$|::(ne|eq)$|PartialEq", ck):
                if any(s_["k"] == "field" and s_["f"] == "skip_key" for a in t["args"] for s_ in P.origins(f, a)):
                    screens.append(P.term_pt(f, b.idx))
        for p_ in accept:
            q = None
            for mv_ in moves:
                q = q or P.reach(f, P.after(f, mv_), [p_], avoid=set(screens))
            ctx.check(R, f, "skip-key-screen", bool(screens) and q is None,
                      "%s accepts an entry only after comparing its key with skip_key" % m,
                      "%s accepts an entry without screening it against skip_key: after a tombstone the older versions of the same key "
                      "beneath it are returned (a deleted key reappears)" % m, pt=p_, path=q)
        tomb = [p_ for p_ in ssk if p_ not in accept]
        ctx.check(R, f, "tombstone-sets-skip-key", bool(tomb), "%s: the tombstone arm records the key in skip_key and moves on" % m,
                  "%s: a tombstone no longer records its key in skip_key" % m)
    # whatever entry a movement hands out is recorded in skip_key (seek, next and prev are siblings): next() hides the older
    # versions of the key the cursor stands on only by comparing with skip_key, so an entry reached by prev() must be recorded
    # exactly as one reached by next() or seek().  Every normal return that is not the `wrapped cursor exhausted` exit is
    # preceded, after the last step of the wrapped cursor, by set_skip_key.
    for m in ("seek", "next", "prev"):
        f = ctx.fn(R, "<sst::pruning_cursor::PruningCursor as sst::Cursor>::" + m)
        if not f:
            continue
        moves = [pt for name, pt in cursor_calls(f) if name in ("next", "prev", "seek")]
        ssk = P.call_points(f, r"PruningCursor::set_skip_key$")
        oks = P.ok_points(f)
        ctx.floor(R, "%s: Ok exits" % m, len(oks), 1)
        ctx.floor(R, "%s: entries recorded" % m, len(ssk), 1)
        none_edges = _key_none_edges(f)
        for r_ in oks:
            # from the last step of the wrapped cursor to a success return: through set_skip_key, or through an edge on which key()
            # answered None (the wrapped cursor is exhausted: there is no entry to record)
            q = None
            for mv_ in moves:
                q = q or P.reach(f, P.after(f, mv_), [r_], avoid=set(ssk) | (set(moves) - {mv_}) | set(P.error_points(f)), avoid_edges=none_edges)
            ctx.check(R, f, "returned-entry-recorded", bool(ssk) and q is None,
                      "%s records the entry it returns in skip_key" % m,
                      "%s returns positioned on an entry without recording its key in skip_key: a following next() then yields the older versions of "
                      "that same key (the key appears twice, the second time with a stale value)" % m, pt=r_, path=q)
    # absolute positioning forgets the previously returned key: seek_to_first, seek_to_last and seek are siblings and each
    # clears skip_key before it moves the wrapped cursor (a stale skip_key would screen out the entry a re-seek should land on)
    for m in ("seek_to_first", "seek_to_last", "seek"):
        f = ctx.fn(R, "<sst::pruning_cursor::PruningCursor as sst::Cursor>::" + m)
        if not f:
            continue
        inner = [pt for name, pt in cursor_calls(f) if name == m]
        resets = []
        for w in P.field_writes(f, r"pruning_cursor::PruningCursor$", "skip_key"):
            st = f.blocks[w[0]].st[w[1]] if w[1] < len(f.blocks[w[0]].st) else None
            if st is None:
                continue
            rv = st["rv"]
            is_none = rv.get("r") == "agg" and rv.get("variant") == "None"
            if rv.get("r") == "use":
                srcs = P.origins(f, rv["a"])
                is_none = bool(srcs) and all(s_["k"] == "agg" and s_.get("variant") == "None" for s_ in srcs)
            if is_none:
                resets.append(w)
        ctx.check(R, f, "reset-before-positioning", bool(inner) and bool(resets) and not P.order(f, resets, inner),
                  "%s clears skip_key before it positions the wrapped cursor" % m,
                  "%s positions the wrapped cursor without first clearing skip_key: on a reused cursor the entry it should land on is "
                  "screened out as an older version of the previously returned key" % m, pt=inner[0] if inner else None)
    f = ctx.fn(R, "sst::pruning_cursor::PruningCursor::new")
    if f:
        n = 0
        for b in f.blocks:
            for i, st in enumerate(b.st):
                rv = st.get("rv", {})
                if rv.get("r") == "agg" and strip_generics(rv.get("adt", "")).endswith("PruningCursor") and "timestamp" in rv.get("fields", []):
                    n += 1
                    o = rv["ops"][rv["fields"].index("timestamp")]
                    ctx.check(R, f, "keeps-timestamp", any(s["k"] == "param" and s["i"] == 2 for s in P.origins(f, o)), "the snapshot timestamp is stored as given",
                              "PruningCursor::new does not store the given timestamp", pt=(b.idx, i))
        ctx.floor(R, "PruningCursor construction", n, 1)
