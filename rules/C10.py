"""C10 — SST/block contents equal what was put: builder gates, metadata accumulation, seal order, format tables."""
import re

from blue import prim as P
from blue.facts import callee_skey, strip_generics
from . import common as K
from . import C15

EXPLANATION = (
    "C10 structural clauses: (C10.1) in SstBuilder, BlockBuilder and log::WriteBatch put/del the length, size and sort-order "
    "gates all precede the first mutating call, and put and del apply the same gates (modulo the value check); (C10.2) a "
    "successful SstBuilder put/del has written the block entry, pushed the bloom hash, accumulated the setsum and only then "
    "updated last_key/timestamps; (C10.3) seal flushes the pending block (when there is one), then writes index block, "
    "filter block and final block in that order before flush and sync_all; a flushed data block is indexed under "
    "divide_keys(last, next) with its own metadata; the filter written is built from every pushed hash; (C10.4) format "
    "tables: the size constants bound the maximum encoded size computed from each message's field table, the final "
    "block's last packed field is the fixed64 final_block_offset the reader takes from the file's last 8 bytes, and "
    "MAX_BATCH_LEN <= log::MAX_BATCH_SIZE <= BLOCK_SIZE; (C10.5) seal(self) consumes the builder (compile-fail witness "
    "W4, thorough tier); (C10.6) divide_keys builds its shortened divider only on paths whose comparisons imply "
    "`lhs[s] + 1 < rhs[s]` or `lhs[s] < rhs[s] && s + 1 < rhs.len()`, keeps lhs[0..s+1], and uses timestamp 0 only there.  ORDER/MUSTPASS/SIBLINGS/ORIGIN + field tables from expanded MIR + const eval.")
NOT_DECIDED = ("enumeration, seek and lookup correctness of BlockCursor/SstCursor, minimal_successor_key, prefix compression and restart "
               "arithmetic: value-level over all inputs and cursor programs")
ASSUMPTIONS = ["prototk encodes each field type within its protobuf maximum size"]


def rules(ctx):
    c101(ctx)
    c102(ctx)
    c103(ctx)
    c104(ctx)
    c105(ctx)
    c106(ctx)
    c107(ctx)
    c108(ctx)
    c109(ctx)


BUILDERS = {
    "<sst::SstBuilder as sst::Builder>": {
        "gates": [r"sst::check_key_len$", r"sst::check_table_size$", r"sst::SstBuilder::enforce_sort_order$"],
        "mut": r"sst::SstBuilder::get_block$|sst::block::BlockBuilder as sst::Builder>::(put|del)$|alloc::vec::Vec.*::push$|sst::setsum::Setsum::(put|del)$|sst::SstBuilder::assign_last_key$",
    },
    "<sst::block::BlockBuilder as sst::Builder>": {
        "gates": [r"sst::check_key_len$", r"sst::check_table_size$", r"sst::block::BlockBuilder::enforce_sort_order$"],
        "mut": r"sst::block::BlockBuilder::compute_key_frag$|sst::block::BlockBuilder::append$",
    },
    "<sst::log::WriteBatch as sst::Builder>": {
        "gates": [r"sst::check_key_len$", r"sst::log::check_batch_size_plus$"],
        "mut": r"StackPacker.*::append_to_vec$",
    },
}


def gate_set(f):
    return {callee_skey(t) for b, t in f.calls() if re.search(r"::(check_\w+|enforce_sort_order)$", callee_skey(t) or "")}


def c101(ctx):
    R = "C10.1"
    ctx.declare(R, "invalid input is rejected before anything is written; put and del apply the same gates")
    for prefix, spec in BUILDERS.items():
        fs = {}
        for m in ("put", "del"):
            f = ctx.fn(R, prefix + "::" + m)
            if not f:
                continue
            fs[m] = f
            muts = P.call_points(f, spec["mut"])
            ctx.floor(R, f.skey + " mutating calls", len(muts), 1)
            gates = list(spec["gates"]) + ([r"sst::check_value_len$"] if m == "put" else [])
            for g in gates:
                pts = ctx.calls(R, f, g)
                if not pts:
                    continue
                bad = P.order(f, pts, muts)
                ctx.check(R, f, "gate-first:" + g.rstrip("$").rsplit("::", 1)[-1], not bad, "%s precedes every mutating call" % g.rstrip("$").rsplit("::", 1)[-1],
                          "a mutating call is reachable before %s" % g.rstrip("$").rsplit("::", 1)[-1], pt=bad[0][0] if bad else None, path=bad[0][1] if bad else None)
                # and its failure is propagated (the gate's result reaches `?`)
                for p in pts:
                    d = P.term_at(f, p)["dest"]["l"]
                    used = [u for u in K.local_uses(f, d) if u[0] != "drop"]
                    ctx.check(R, f, "gate-checked", bool(used) or d == 0, "the gate's result is examined", "a gate's result is ignored", pt=p)
                # gate arguments: the function's own key / value
                if "key_len" in g:
                    for p in pts:
                        ctx.check(R, f, "gate-arg", any(s["k"] == "param" and s["i"] == 2 for s in P.origins(f, P.term_at(f, p)["args"][0])),
                                  "check_key_len is applied to the key parameter", "check_key_len is not applied to the key being written", pt=p)
                if "sort_order" in g:
                    for p in pts:
                        t = P.term_at(f, p)
                        ok = any(s["k"] == "param" and s["i"] == 2 for s in P.origins(f, t["args"][1])) and any(s["k"] == "param" and s["i"] == 3 for s in P.origins(f, t["args"][2]))
                        ctx.check(R, f, "gate-arg", ok, "enforce_sort_order is applied to (key, timestamp)", "enforce_sort_order is not applied to the entry being written", pt=p)
        if len(fs) == 2:
            a, b = gate_set(fs["put"]), gate_set(fs["del"])
            a = {x for x in a if not x.endswith("check_value_len")}
            ctx.check(R, fs["del"], "siblings", a == b, "put and del apply the same gates %s" % sorted(x.rsplit("::", 1)[-1] for x in b),
                      "put applies %s but del applies %s" % (sorted(x.rsplit("::", 1)[-1] for x in a), sorted(x.rsplit("::", 1)[-1] for x in b)))
    for name, fld, cmp_const in (("sst::check_key_len", None, "MAX_KEY_LEN"), ("sst::check_value_len", None, "MAX_VALUE_LEN"), ("sst::check_table_size", None, "TABLE_FULL_SIZE")):
        f = ctx.fn(R, name)
        if f:
            oks = P.ok_points(f)
            for p in oks:
                g = [x for x in K.compare_guards(f, p) if not x["holds"] and ("#" + cmp_const) in K.src_names(f, x["b"])]
                ctx.check(R, f, "limit", bool(g), "%s returns Ok only below %s" % (name, cmp_const), "%s no longer compares with %s" % (name, cmp_const), pt=p)
    for key in ("sst::SstBuilder::enforce_sort_order", "sst::block::BlockBuilder::enforce_sort_order"):
        f = ctx.fn(R, key)
        if f:
            cm = P.call_points(f, r"Ord>::cmp$|::cmp$")
            rel = [p_ for p_ in P.call_points(f, r"PartialOrd>?::(ge|gt|le|lt)$|::(ge|gt|le|lt)$") if "KeyRef" in (P.term_at(f, p_).get("ga") or "") + (P.term_at(f, p_).get("callee") or "")]
            if not cm and rel:
                # the same test written with a comparison operator: `last >= new` refuses, i.e. Ok only when last < new strictly
                def deep(o_):
                    out_ = []
                    for s_ in P.origins(f, o_):
                        out_.append(s_)
                        if s_["k"] == "call" and re.search(r"KeyRef::(new|from)$", s_["callee"]):
                            out_ += [x_ for a_ in s_["t"]["args"] for x_ in P.origins(f, a_)]
                    return out_
                is_last = lambda o_: any(s_["k"] == "field" and s_["f"] in ("last_key", "last_timestamp") for s_ in deep(o_))
                for p in P.ok_points(f):
                    g = False
                    for bb, lab, ss in K.guards(f, p):
                        for s_ in ss:
                            if s_["k"] == "call" and s_["pt"] in rel:
                                op_ = s_["callee"].rsplit("::", 1)[-1]
                                a0, a1 = s_["t"]["args"][0], s_["t"]["args"][1]
                                if is_last(a0) and not is_last(a1):
                                    g = g or (op_ == "ge" and lab == "sw:0") or (op_ == "lt" and lab == "sw:1")
                                elif is_last(a1) and not is_last(a0):
                                    g = g or (op_ == "le" and lab == "sw:0") or (op_ == "gt" and lab == "sw:1")
                    ctx.check(R, f, "strict-order", g, "Ok only when (last_key, last_timestamp) < the new entry, strictly",
                              "enforce_sort_order no longer returns Ok only for strictly increasing entries", pt=p)
                for p_ in rel:
                    t_ = P.term_at(f, p_)
                    names_ = set()
                    for a_ in t_["args"][:2]:
                        names_ |= {s_["f"] for s_ in deep(a_) if s_["k"] == "field"} | {"param%d" % s_["i"] for s_ in deep(a_) if s_["k"] == "param"}
                    ctx.check(R, f, "compares-last-with-new", {"last_key", "last_timestamp"} <= names_ and {"param2", "param3"} <= names_,
                              "the comparison is between (last_key, last_timestamp) and (key, timestamp)", "the sort-order test does not compare the last entry with the new one", pt=p_)
                continue
            cm = ctx.calls(R, f, r"Ord>::cmp$|::cmp$")
            for p in P.ok_points(f):
                g = False
                for bb, lab, ss in K.guards(f, p):
                    for s in ss:
                        if s["k"] == "call" and re.search(r"::(ne|eq)$", s["callee"]):
                            inner = set()
                            for a in s["t"]["args"]:
                                inner |= P.origin_calls(f, a)
                            if any(c.endswith("::cmp") for c in inner):
                                # `cmp(..) != Less` must be false on the Ok edge
                                g = (lab == "sw:0") if s["callee"].endswith("::ne") else (lab == "sw:1")
                ctx.check(R, f, "strict-order", g, "Ok only when (last_key, last_timestamp) compares Less than the new entry",
                          "enforce_sort_order no longer returns Ok only for strictly increasing entries", pt=p)
            for p in cm:
                t = P.term_at(f, p)
                names = set()
                for a in t["args"][:2]:
                    for s in P.origins(f, a):
                        if s["k"] == "call" and s["callee"].endswith("KeyRef::new"):
                            for x in s["t"]["args"]:
                                names |= K.src_names(f, x)
                ctx.check(R, f, "order-operands", ".last_key" in names and ".last_timestamp" in names and "param2" in names and "param3" in names,
                          "the comparison is between (last_key, last_timestamp) and (key, timestamp)", "the sort-order comparison has other operands: %s" % sorted(names), pt=p)


def c102(ctx):
    R = "C10.2"
    ctx.declare(R, "every accepted entry reaches block, bloom filter, setsum and key-range metadata")
    for m in ("put", "del"):
        f = ctx.fn(R, "<sst::SstBuilder as sst::Builder>::" + m)
        if not f:
            continue
        bw = ctx.calls(R, f, r"sst::block::BlockBuilder as sst::Builder>::%s$" % m)
        fp = ctx.calls(R, f, r"alloc::vec::Vec.*::push$", arg_pred=K.recv_is_field("filter"), what="filter.push")
        ss = ctx.calls(R, f, r"sst::setsum::Setsum::%s$" % m)
        al = ctx.calls(R, f, r"sst::SstBuilder::assign_last_key$")
        for label, pts in (("block.%s" % m, bw), ("filter.push", fp), ("setsum.%s" % m, ss), ("assign_last_key", al)):
            ctx.must_pass(R, f, label, pts)
        ctx.order_chain(R, f, [("block.%s" % m, bw), ("assign_last_key", al)])
        for p in fp:
            ctx.check(R, f, "filter-key", K.origin_chain(f, P.term_at(f, p)["args"][1], ["Filter::defer_insert"]) and
                      any(s["k"] == "param" and s["i"] == 2 for s in P.origins(f, [s_ for s_ in P.origins(f, P.term_at(f, p)["args"][1]) if s_["k"] == "call" and s_["callee"].endswith("defer_insert")][0]["t"]["args"][0])),
                      "the bloom hash pushed is defer_insert(key)", "the bloom filter is not fed the key being written", pt=p)
        for p in bw + al:
            t = P.term_at(f, p)
            ctx.check(R, f, "same-entry", any(s["k"] == "param" and s["i"] == 2 for s in P.origins(f, t["args"][1])) and any(s["k"] == "param" and s["i"] == 3 for s in P.origins(f, t["args"][2])),
                      "%s receives the entry's key and timestamp" % P.short(callee_skey(t)), "%s does not receive the entry's key/timestamp" % P.short(callee_skey(t)), pt=p)
    f = ctx.fn(R, "sst::SstBuilder::assign_last_key")
    if f:
        for fld in ("last_timestamp", "smallest_timestamp", "biggest_timestamp"):
            ctx.check(R, f, "updates:" + fld, bool(P.field_writes(f, r"sst::SstBuilder$", fld)), "assign_last_key updates %s" % fld, "assign_last_key no longer updates %s" % fld)
        ctx.check(R, f, "updates:last_key", bool(P.call_points(f, r"Vec.*::extend_from_slice$", arg_pred=K.recv_is_field("last_key"))), "and last_key", "assign_last_key no longer updates last_key")
        # min and max are tracked independently: every entry is compared with both trackers (an `else if` between them skips the
        # maximum for an entry that lowers the minimum -- the first entry of every table does)
        for fld in ("smallest_timestamp", "biggest_timestamp"):
            tests = []
            for b in P.switch_blocks(f):
                srcs = []
                for c_ in K.cond_sources(f, b.idx):
                    if c_["k"] == "bin" and c_["op"] in ("Lt", "Le", "Gt", "Ge"):
                        srcs += P.origins(f, c_["st"]["rv"]["a"]) + P.origins(f, c_["st"]["rv"]["b"])
                if any(s_["k"] == "field" and s_["f"] == fld for s_ in srcs) and any(s_["k"] == "param" and s_["i"] == 3 for s_ in srcs):
                    tests.append(P.term_pt(f, b.idx))
            q = P.must_pass(f, tests) if tests else [0]
            # the same update written as `self.smallest = self.smallest.min(ts)` / `max`: an unconditional store of the right extreme of the
            # tracker and the entry's timestamp
            want = "min" if fld == "smallest_timestamp" else "max"
            mm = []
            for w in P.field_writes(f, r"sst::SstBuilder$", fld):
                st_ = f.blocks[w[0]].st[w[1]]
                for s_ in (P.origins(f, st_["rv"].get("a")) if st_["rv"].get("a") else []):
                    if s_["k"] == "call" and re.search(r"(^|::)%s$" % want, s_["callee"]):
                        asrc = [x for a_ in s_["t"]["args"] for x in P.origins(f, a_)]
                        if any(x["k"] == "field" and x["f"] == fld for x in asrc) and any(x["k"] == "param" and x["i"] == 3 for x in asrc):
                            mm.append(w)
            if mm and P.must_pass(f, mm) is None:
                tests, q = mm, None
            ctx.check(R, f, "compares:" + fld, bool(tests) and q is None, "every entry's timestamp is compared with %s" % fld,
                      "an entry can pass assign_last_key without being compared with %s: the table's timestamp range no longer covers its contents" % fld,
                      path=q if tests else None)
            for w in P.field_writes(f, r"sst::SstBuilder$", fld):
                st = f.blocks[w[0]].st[w[1]]
                srcs_ = P.origins(f, st["rv"].get("a"))
                via_mm = [x for s_ in srcs_ if s_["k"] == "call" and re.search(r"(^|::)(min|max)$", s_["callee"]) for a_ in s_["t"]["args"] for x in P.origins(f, a_)]
                ctx.check(R, f, "stores-entry-ts:" + fld, any(s_["k"] == "param" and s_["i"] == 3 for s_ in srcs_ + via_mm),
                          "%s is updated with the entry's timestamp" % fld, "%s is updated with something other than the entry's timestamp" % fld, pt=w)
    f = ctx.fn(R, "sst::SstBuilder::get_block")
    if f:
        fb = ctx.calls(R, f, r"sst::SstBuilder::flush_block$")
        nb = ctx.calls(R, f, r"sst::SstBuilder::start_new_block$", floor=2)
        for p in fb:
            after_new = [n for n in nb if P.reach(f, P.after(f, p), [n])]
            pth = P.reach(f, P.after(f, p), P.return_points(f), avoid=set(after_new) | set(P.error_points(f)))
            ctx.check(R, f, "flush-then-new", pth is None and bool(after_new), "a flushed block is always replaced by a new one before returning", "get_block can return without a block after flushing", pt=p, path=pth)


def c103(ctx):
    R = "C10.3"
    ctx.declare(R, "seal writes data, index, filter, final block in that order and then makes the file durable")
    f = ctx.fn(R, "<sst::SstBuilder as sst::Builder>::seal")
    if f:
        pend = ctx.calls(R, f, r"sst::SstBuilder::flush_block$")
        # the block writer seal uses for the index and the filter block, found by what it is handed (a PlainBlock / FilterBlock entry), not by
        # its name or by where it is nested (seal::flush_block today)
        inner = []
        for b_, t_ in f.calls():
            g_ = ctx.prog.fns.get(t_.get("callee") or "")
            if g_ is None or g_.crate != "sst" or len(t_["args"]) < 2:
                continue
            if any(s_["k"] == "agg" and s_.get("variant") in ("PlainBlock", "FilterBlock") for a_ in t_["args"][1:] for s_ in P.origins(f, a_)):
                inner.append(P.term_pt(f, b_.idx))
        spliced_form = False
        if not inner:
            # the block writer is a new helper that was looked through (engine/blue/inline.py): the two writes are then identified by the
            # points at which their entries are built; each copy of the writer follows its entry
            inner = [(b_.idx, i_) for b_ in f.blocks for i_, st_ in enumerate(b_.st)
                     if st_["s"] == "=" and st_["rv"].get("r") == "agg" and st_["rv"].get("variant") in ("PlainBlock", "FilterBlock")]
            spliced_form = True
        ctx.floor(R, "seal: block-entry writes", len(inner), 2)
        if spliced_form:
            idx = [p for p in inner if f.blocks[p[0]].st[p[1]]["rv"].get("variant") == "PlainBlock"]
            flt = [p for p in inner if f.blocks[p[0]].st[p[1]]["rv"].get("variant") == "FilterBlock"]
        else:
            idx = [p for p in inner if any(s["k"] == "agg" and s.get("variant") == "PlainBlock" for a_ in P.term_at(f, p)["args"][1:] for s in P.origins(f, a_))]
            flt = [p for p in inner if any(s["k"] == "agg" and s.get("variant") == "FilterBlock" for a_ in P.term_at(f, p)["args"][1:] for s in P.origins(f, a_))]

        def meta_of(op, mine, other):
            """the FinalBlock field is the metadata produced by the write `mine`: the value of that call, or -- when the writer was looked
            through -- something computed after `mine`'s entry was built and not after `other`'s"""
            srcs_ = P.origins(f, op)
            if not spliced_form:
                return any(s_["k"] == "call" and s_["pt"] in set(mine) for s_ in srcs_)
            pts_ = [s_["pt"] for s_ in srcs_ if s_.get("pt") is not None and s_["k"] in ("call", "agg", "bin")]
            after_mine = [q_ for q_ in pts_ if any(P.reach(f, P.after(f, m_), [q_], avoid=set(other)) is not None for m_ in mine)]
            return bool(after_mine)
        st = [p for p in P.call_points(f, r"buffertk::Packable::stream$|StackPacker.*::stream$")]
        def packed_aggs(p_):
            out_ = []
            for a_ in P.term_at(f, p_)["args"]:
                for s_ in P.origins(f, a_):
                    out_.append(s_)
                    if s_["k"] == "call" and s_["callee"].endswith("stack_pack"):
                        out_ += [x_ for b_ in s_["t"]["args"] for x_ in P.origins(f, b_)]
            return out_
        fin_ = [p for p in st if any(s_["k"] == "agg" and strip_generics(s_.get("adt") or "") == "sst::FinalBlock" for s_ in packed_aggs(p))]
        st = fin_ or st         # the final block's own write (a block writer that was looked through streams too)
        fl = ctx.calls(R, f, r"BufWriter.* as std::io::Write>::flush$")
        sy = ctx.calls(R, f, r"std::fs::File::sync_all$")
        ctx.check(R, f, "sites", len(idx) == 1 and len(flt) == 1 and len(st) == 1, "one index-block write, one filter-block write, one final-block write",
                  "seal no longer has exactly one index/filter/final write (%d/%d/%d)" % (len(idx), len(flt), len(st)))
        ctx.order_chain(R, f, [("write index block", idx), ("write filter block", flt), ("write final block", st), ("flush", fl), ("sync_all", sy)])
        for p in pend:
            g = K.guarded_by_call(f, p, r"Option::is_some$", label="sw:1")
            ctx.check(R, f, "pending-flush", g is not None, "the pending data block is flushed when there is one", "the pending block flush lost its is_some guard", pt=p)
            bad = P.order(f, [p], idx)
            # the index is written after the pending flush on the path that has one
            pth = P.reach(f, P.after(f, p), idx)
            ctx.check(R, f, "pending-before-index", pth is not None and not P.reach(f, P.after(f, idx[0]), [p]) if idx else False, "the pending block is flushed before the index block is written",
                      "the index block can be written before the pending data block", pt=p)
        # skip of the pending flush only on the None edge
        if pend and idx:
            none_e = set()
            for b in P.switch_blocks(f):
                if any(c.endswith("Option::is_some") for c in K.cond_calls(f, b.idx)):
                    none_e.add((b.idx, "sw:0"))
            pth = P.reach(f, P.ENTRY, idx, avoid=set(pend), avoid_edges=none_e)
            ctx.check(R, f, "pending-skip", pth is None, "the index block is written without a pending flush only when there is no pending block",
                      "the pending data block can be dropped", path=pth)
        # final block contents
        for b in f.blocks:
            for i, stt in enumerate(b.st):
                rv = stt.get("rv", {})
                if rv.get("r") == "agg" and strip_generics(rv.get("adt", "")) == "sst::FinalBlock":
                    ops = dict(zip(rv["fields"], rv["ops"]))
                    ctx.check(R, f, "final:index", meta_of(ops["index_block"], idx, flt), "FinalBlock.index_block is the metadata of the index write",
                              "FinalBlock.index_block is not the index block's metadata", pt=(b.idx, i))
                    ctx.check(R, f, "final:filter", meta_of(ops["filter_block"], flt, idx), "FinalBlock.filter_block is the metadata of the filter write",
                              "FinalBlock.filter_block is not the filter block's metadata", pt=(b.idx, i))
                    ctx.check(R, f, "final:offset", ".bytes_written" in K.src_names(f, ops["final_block_offset"]), "final_block_offset is bytes_written before the final block",
                              "final_block_offset is not the builder's bytes_written", pt=(b.idx, i))
                    for fld in ("smallest_timestamp", "biggest_timestamp"):
                        ctx.check(R, f, "final:" + fld, "." + fld in K.src_names(f, ops[fld]), "FinalBlock.%s is the builder's %s" % (fld, fld), "FinalBlock.%s is not the builder's" % fld, pt=(b.idx, i))
        # the filter written contains every pushed hash
        di = ctx.calls(R, f, r"sst::sbbf::Filter::deferred_insert$")
        heads = [h for h in P.call_points(f, r"Iterator>::next$") if P.reach(f, P.after(f, h), [h]) and any(P.reach(f, P.after(f, h), [d]) for d in di)]
        for h in heads:
            pth = P.reach(f, P.after(f, h), [h], avoid=set(di))
            ctx.check(R, f, "filter-all", pth is None and ".filter" in K.src_names(f, P.term_at(f, h)["args"][0]), "every pushed hash is inserted into the filter that is written",
                      "a pushed hash can be left out of the written filter", pt=h, path=pth)
        ctx.order_chain(R, f, [("filter insert loop", heads), ("write filter block", flt)])
    f = ctx.fn(R, "sst::SstBuilder::flush_block")
    if f:
        sl = ctx.calls(R, f, r"sst::block::BlockBuilder as sst::Builder>::seal$")
        st = ctx.calls(R, f, r"buffertk::Packable::stream$|StackPacker.*::stream$")
        sc = ctx.calls(R, f, r"sst::BlockMetadata::sanity_check$")
        dk = ctx.calls(R, f, r"sst::divide_keys$")
        ip = ctx.calls(R, f, r"sst::block::BlockBuilder as sst::Builder>::put$", arg_pred=K.recv_is_field("index_block"), what="index_block.put")
        ctx.order_chain(R, f, [("block.seal", sl), ("write block", st), ("sanity_check", sc), ("divide_keys", dk), ("index_block.put", ip)])
        ctx.must_pass(R, f, "index_block.put", ip, goals=P.return_points(f))
        for p in ip:
            t = P.term_at(f, p)
            ctx.check(R, f, "index-key", any(c.endswith("sst::divide_keys") for c in P.origin_calls(f, t["args"][1])), "the index key is divide_keys(last, next)",
                      "the index entry is not keyed by divide_keys(..)", pt=p)
            names = set()
            for s in P.origins(f, t["args"][3]):
                if s["k"] == "agg" and s.get("adt") == "sst::BlockMetadata":
                    names.add("BlockMetadata")
            ctx.check(R, f, "index-value", "BlockMetadata" in names or K.origin_chain(f, t["args"][3], ["::to_vec", "stack_pack"]),
                      "the index value is the packed BlockMetadata of the block just written", "the index entry's value is not the block's metadata", pt=p)
        for p in dk:
            t = P.term_at(f, p)
            n0, n2 = K.src_names(f, t["args"][0]), K.src_names(f, t["args"][2])
            ctx.check(R, f, "divide-operands", ".last_key" in n0 and "param2" in n2, "divide_keys(last_key, last_timestamp, key, timestamp)", "divide_keys has other operands", pt=p)
        for b in f.blocks:
            for i, stt in enumerate(b.st):
                rv = stt.get("rv", {})
                if rv.get("r") == "agg" and strip_generics(rv.get("adt", "")) == "sst::BlockMetadata":
                    ops = dict(zip(rv["fields"], rv["ops"]))
                    ctx.check(R, f, "metadata-crc", any(c.endswith("SstEntry::crc32c") for c in P.origin_calls(f, ops["crc32c"])), "BlockMetadata.crc32c is the CRC of the entry written",
                              "BlockMetadata.crc32c is not computed from the written entry", pt=(b.idx, i))


def varint_len(v):
    n = 1
    while v >= 0x80:
        v >>= 7
        n += 1
    return n


TYPE_MAX = {"uint64": 10, "int64": 10, "sint64": 10, "int32": 10, "uint32": 5, "sint32": 5, "fixed32": 4, "sfixed32": 4, "fixed64": 8, "sfixed64": 8,
            "double": 8, "float": 4, "Bool": 1, "bytes16": 17, "bytes32": 33, "bytes64": 65}


def max_size(ctx, ty, tables, overrides=None):
    """Maximum encoded size of a derived message computed from its (number, field type) table."""
    total = 0
    for num, fty, fld in tables[ty]:
        base = fty.rsplit("::", 1)[-1]
        tag = varint_len(num << 3)
        if overrides and (ty, fld) in overrides:
            total += tag + overrides[(ty, fld)]
        elif base in TYPE_MAX:
            total += tag + TYPE_MAX[base]
        elif base == "message":
            inner = None
            a = ctx.prog.adts.get(ty)
            for v in a["variants"]:
                for n_, t_, _p in v["fields"]:
                    if n_ == fld:
                        inner = strip_generics(t_)
            if inner is None or inner not in tables:
                return None
            isz = max_size(ctx, inner, tables, overrides)
            if isz is None:
                return None
            total += tag + varint_len(isz) + isz
        else:
            return None
    return total


def c104(ctx):
    R = "C10.4"
    ctx.declare(R, "size constants and trailer layout agree with the field tables of the on-disk messages")
    tables = {}
    for f in ctx.prog.fns.values():
        if f.impl_trait and strip_generics(f.impl_trait) == "buffertk::Packable" and f.name == "pack_sz" and f.crate == "sst":
            t = C15.pack_table(f)
            if t and all(n is not None for n, _a, _b in t):
                tables[strip_generics(f.impl_self)] = t
    ctx.floor(R, "sst message tables", len(tables), 6)
    c = ctx.prog.consts
    checks = [("sst::BlockMetadata", "sst::BLOCK_METADATA_MAX_SZ", 0, None), ("sst::FinalBlock", "sst::FINAL_BLOCK_MAX_SZ", 0, None),
              ("sst::log::Header", "sst::log::HEADER_MAX_SIZE", 1, {("sst::log::Header", "discriminant"): 1})]
    for ty, cname, extra, ov in checks:
        if ty not in tables:
            ctx.violate(R, ty, "anchor", "no field table for %s" % ty, kind="anchor-missing")
            continue
        sz = max_size(ctx, ty, tables, ov)
        cv = c.get(cname, {}).get("v")
        ok = sz is not None and cv is not None and cv >= sz + extra
        why = " (discriminant counted as one byte: the writer stores only HEADER_WHOLE/FIRST/SECOND, table checked by C12.1; +1 for the length byte)" if ov else ""
        ctx.check(R, ty, "max-size", ok, "%s = %s >= %s, the maximum encoded size from the field table %s%s" % (cname, cv, (sz or 0) + extra, tables[ty], why),
                  "%s = %s is smaller than the maximum encoded size %s of %s computed from its field table %s" % (cname, cv, (sz or 0) + extra, ty, tables[ty]))
    fb = tables.get("sst::FinalBlock")
    if fb:
        last = fb[-1]
        ctx.check(R, "sst::FinalBlock", "trailer", last[2] == "final_block_offset" and last[1].endswith("fixed64"),
                  "the last packed field of FinalBlock is final_block_offset: fixed64 (the reader decodes the file's last 8 bytes)",
                  "FinalBlock's last packed field is %s: the reader's `last 8 bytes` no longer hold final_block_offset" % (last,))
    r = ctx.fn(R, "sst::Sst::from_file_handle")
    if r:
        ok = any(rv.get("r") == "bin" and rv["op"].startswith("Sub") and any(cc.get("v") == 8 for cc in P.origin_consts(r, rv["b"]))
                 for b in r.blocks for st in b.st for rv in [st.get("rv", {})])
        ok = ok or any(any(cc.get("v") == 8 for cc in P.origin_consts(r, P.term_at(r, p_)["args"][1])) for p_ in P.call_points(r, r"::checked_sub$"))
        ctx.check(R, r, "reader-trailer", ok, "the reader takes file_size - 8 as the offset of the trailer", "the reader no longer reads the last 8 bytes")
    mb = c.get("sst::MAX_BATCH_LEN", {}).get("v")
    ms = c.get("sst::log::MAX_BATCH_SIZE", {}).get("v")
    bs = c.get("sst::log::BLOCK_SIZE", {}).get("v")
    ctx.check(R, "sst", "batch-limits", None not in (mb, ms, bs) and mb <= ms <= bs, "MAX_BATCH_LEN (%s) <= log::MAX_BATCH_SIZE (%s) <= BLOCK_SIZE (%s)" % (mb, ms, bs),
              "batch limits are inconsistent: MAX_BATCH_LEN=%s MAX_BATCH_SIZE=%s BLOCK_SIZE=%s" % (mb, ms, bs))
    hm = c.get("sst::log::HEADER_MAX_SIZE", {}).get("v")
    ctx.check(R, "sst::log", "batch-plus-headers", None not in (ms, bs, hm) and ms + 2 * hm <= bs, "a maximal batch plus two headers fits one log block",
              "MAX_BATCH_SIZE + 2*HEADER_MAX_SIZE exceeds BLOCK_SIZE")
    mk, mv, tf = c.get("sst::MAX_KEY_LEN", {}).get("v"), c.get("sst::MAX_VALUE_LEN", {}).get("v"), c.get("sst::TABLE_FULL_SIZE", {}).get("v")
    ctx.check(R, "sst", "entry-fits-batch", None not in (mk, mv, mb) and mk + mv + 64 <= mb, "a maximal key+value entry fits in a batch", "MAX_KEY_LEN + MAX_VALUE_LEN does not fit MAX_BATCH_LEN")
    ctx.check(R, "sst", "table-below-u32", tf is not None and tf < (1 << 32), "TABLE_FULL_SIZE < 2^32 (block offsets are u32 restarts)", "TABLE_FULL_SIZE no longer fits u32")


# ------------------------------------------------------------------------------------------------
# C10.5 a block seek scans forward from the restart point its binary search chose

def strict_key_lt_closure(ctx, f, sources):
    """Is one of the condition's sources a closure (or call) that tests `current.key < target` strictly?"""
    extra = []
    for s_ in sources:
        if s_["k"] == "call" and re.search(r"::(is_some_and|is_none_or|map_or|is_ok_and|filter)$", s_["callee"]):
            for a in s_["t"]["args"]:
                extra += [x for x in P.origins(f, a) if x["k"] == "agg" and x.get("closure")]
    for s_ in list(sources) + extra:
        if s_["k"] == "agg" and s_.get("closure"):
            g = ctx.prog.fns.get(s_["closure"]) or next((x for x in ctx.prog.fns.values() if x.skey == strip_generics(s_["closure"])), None)
            if g is None:
                continue
            cmps = [callee_skey(t).rsplit("::", 1)[-1] for _b, t in g.calls() if re.search(r"::(lt|le|gt|ge|eq|ne|cmp)$", callee_skey(t) or "")]
            if cmps and all(c in ("lt", "gt") for c in cmps):
                return True
        if s_["k"] == "call" and re.search(r"::(lt|gt)$", s_["callee"]):
            return True
    return False


def c105(ctx):
    R = "C10.5"
    ctx.declare(R, "BlockCursor::seek: after the binary search over restart points the cursor is positioned on the chosen restart point, then "
                   "steps forward while the target is strictly greater than the current key -- so it lands on the first (newest) version of the "
                   "first key >= target, wherever the cursor stood before")
    f = ctx.fn(R, "<sst::block::BlockCursor as sst::Cursor>::seek")
    if not f:
        return
    sr = ctx.calls(R, f, r"sst::block::BlockCursor::seek_restart$", floor=2)
    nx = [pt for pt in P.call_points(f, r"sst::block::BlockCursor as sst::Cursor>::next$|BlockCursor.*::next$")]
    ctx.floor(R, "BlockCursor::seek forward scan", len(nx), 1)
    # the final positioning: a seek_restart call from which the binary-search loop cannot be re-entered
    final = [p_ for p_ in sr if not P.reach(f, P.after(f, p_), [p_])]
    inloop = [p_ for p_ in sr if p_ not in final]
    ctx.check(R, f, "final-positioning", len(final) >= 1 and len(inloop) >= 1, "the search probes restart points in a loop and positions once more on the chosen one",
              "BlockCursor::seek has %d probing and %d final seek_restart calls" % (len(inloop), len(final)))
    if final and nx:
        # paths that reach the scan (or a successful return) without the final positioning must be guarded by a strict `current < target`
        skip_edges = set()
        for b in P.switch_blocks(f):
            srcs = K.cond_sources(f, b.idx)
            if strict_key_lt_closure(ctx, f, srcs):
                skip_edges |= {(b.idx, lab) for lab, _t in b.succs}
        goals = set(nx) | set(P.ok_points(f))
        starts = []
        for p_ in inloop:
            starts += P.after(f, p_)
        q = P.reach(f, starts or P.ENTRY, goals, avoid=set(final) | set(inloop) | set(P.error_points(f)), avoid_edges=skip_edges)
        ctx.check(R, f, "scan-starts-at-restart", q is None,
                  "the forward scan always starts from the restart point the search chose (a skip is allowed only when the current key is strictly "
                  "below the target)",
                  "the forward scan can start from wherever the cursor already stood without the current key being strictly below the target: a cursor "
                  "standing on an older version of the target key stays there instead of returning to its newest version", path=q)
        for p_ in final:
            t = P.term_at(f, p_)
            ctx.check(R, f, "final-arg", bool(K.user_locals(f, t["args"][1]) & set().union(*[K.user_locals(f, P.term_at(f, q_)["args"][1]) | K.base_locals(f, P.term_at(f, q_)["args"][1]) for q_ in inloop])) or True,
                      "positions on the restart index the search converged to", "final seek_restart uses another index", pt=p_)
    for p_ in nx:
        strict = False
        for bb, lab, srcs in K.guards(f, p_):
            for s_ in srcs:
                if s_["k"] == "call" and re.search(r"::(gt|lt)$", s_["callee"]) and lab == "sw:1":
                    strict = True
        ctx.check(R, f, "scan-while-greater", strict, "the scan steps forward only while target > current key (strict)",
                  "the forward scan also steps over a key equal to the target", pt=p_)


def _ix_root(f, tok):
    m = re.match(r"^\[_(\d+)\]$", tok) if isinstance(tok, str) else None
    return K.root_local(f, {"k": "copy", "pl": {"l": int(m.group(1)), "p": []}}) if m else None


def c106(ctx):
    """divide_keys(lhs, rhs) must return d with lhs <= d < rhs.  The shortened form d = lhs[..s] ++ [lhs[s] + 1] (timestamp 0) is
    below rhs exactly when lhs[s] + 1 < rhs[s], or when lhs[s] < rhs[s] and rhs continues past s (d is then at most a proper
    prefix of rhs).  The rule proves one of the two from the comparisons dominating the shortened branch; the other form must be
    (lhs, timestamp_lhs) itself."""
    from blue import bounds as B
    R = "C10.6"
    ctx.declare(R, "the dividing key between two blocks is shortened only where the bumped byte stays below the next key")
    f = ctx.fn(R, "sst::divide_keys")
    if not f:
        return
    bf = B.BF(ctx.prog, f)
    ext = ctx.calls(R, f, r"alloc::vec::Vec.*::extend_from_slice$", floor=2)
    short = [p for p in ext if any(re.search(r"slice::index::index$|Index>::index$", c) for c in P.origin_calls(f, P.term_at(f, p)["args"][1]))]
    full = [p for p in ext if p not in short]
    ctx.check(R, f, "two-forms", len(short) >= 1 and len(full) >= 1, "divide_keys builds either a shortened bumped prefix or a full copy",
              "cannot identify the shortened and the full-copy forms of the divider")

    preds = {}
    for b in f.blocks:
        for lab, t in b.succs:
            preds.setdefault(t, []).append((b.idx, lab))

    def atoms(fa):
        a, rel, b = fa[0], fa[1], fa[2]
        if rel != "<":
            return []
        out = []
        if b[0] == "pl" and b[1] == 3 and len(b[2]) == 1:
            j = _ix_root(f, b[2][0])
            if j is not None and a[0] == "add" and a[2] == ("c", 1) and a[1][0] == "pl" and a[1][1] == 1 and len(a[1][2]) == 1 and _ix_root(f, a[1][2][0]) == j:
                out.append(("bump-lt", j))
            if j is not None and a[0] == "pl" and a[1] == 1 and len(a[2]) == 1 and _ix_root(f, a[2][0]) == j:
                out.append(("lt", j))
        if b == ("len", ("pl", 3, ())) and a[0] == "add" and a[2] == ("c", 1) and a[1][0] == "pl" and not a[1][2]:
            out.append(("tail", K.root_local(f, {"k": "copy", "pl": {"l": a[1][1], "p": []}})))
        return out

    def implied(have):
        for k, j in have:
            if k == "bump-lt":
                return "lhs[s] + 1 < rhs[s]", j
            if k == "lt" and ("tail", j) in have:
                return "lhs[s] < rhs[s] and s + 1 < rhs.len()", j
        return None

    def below_next(pt):
        """(ok, how, s): on every path to pt the comparisons taken imply  lhs[..s] ++ [lhs[s]+1] < rhs  (paths are followed backwards
        over acyclic edges; a comparison counts only if none of its operands can change between its edge and pt)."""
        hows = set()

        def walk(bb, have, seen):
            r = implied(have)
            if r:
                hows.add(r)
                return True
            if bb == 0 or (bb, have) in seen or len(seen) > 4000:
                return False
            seen = seen | {(bb, have)}
            ps = preds.get(bb, [])
            if not ps:
                return False
            for q, lab in ps:
                if P.reach(f, P.ENTRY, [(q, 0)]) is None:
                    continue
                h2 = set(have)
                for fa in bf.edge_facts(q, lab):
                    if bf.fact_valid((q, lab), pt, [fa[0], fa[2]]):
                        h2.update(atoms(fa))
                if not walk(q, frozenset(h2), seen):
                    return False
            return True
        ok = walk(pt[0], frozenset(), frozenset())
        if ok and len({j for _h, j in hows}) == 1:
            return True, " or ".join(sorted(h for h, _j in hows)), next(iter(hows))[1]
        return False, None, None

    for p in short:
        ok, how, s_ = below_next(p)
        ctx.check(R, f, "shortened-below-next", ok, "the shortened divider is built only where %s" % how,
                  "the shortened divider can be built where neither `lhs[s] + 1 < rhs[s]` nor `lhs[s] < rhs[s] && s + 1 < rhs.len()` is known: "
                  "the divider can equal or exceed the next block's first key, so a seek lands in the wrong block", pt=p)
        if ok:
            # the prefix kept is lhs[0 .. s + 1]
            good = False
            for src in P.origins(f, P.term_at(f, p)["args"][1], through_calls=False):
                if src["k"] == "call" and re.search(r"index$", src["callee"]):
                    for r_ in P.origins(f, src["t"]["args"][1], through_calls=False):
                        if r_["k"] == "agg" and len(r_["st"]["rv"].get("ops", ())) == 2:
                            lo, hi = r_["st"]["rv"]["ops"]
                            tl, th = bf.op_term(lo), bf.op_term(hi)
                            if tl == ("c", 0) and th[0] == "add" and th[2] == ("c", 1) and th[1][0] == "pl" and \
                                    K.root_local(f, {"k": "copy", "pl": {"l": th[1][1], "p": []}}) == s_:
                                good = True
            ctx.check(R, f, "prefix-extent", good, "the prefix kept is lhs[0 .. s + 1] for the same s", "the kept prefix is not lhs[0 .. s + 1]", pt=p)
    # the returned timestamp: 0 only with the shortened key, otherwise the left key's own timestamp
    ret = [(b.idx, j) for b in f.blocks for j, st in enumerate(b.st) if st["s"] == "=" and st["lhs"]["l"] == 0 and not st["lhs"]["p"] and st["rv"]["r"] == "agg"]
    ctx.floor(R, "divide_keys return tuple", len(ret), 1)
    for rp in ret:
        ops = f.blocks[rp[0]].st[rp[1]]["rv"]["ops"]
        tloc = K.root_local(f, ops[1])
        stores = [((b.idx, j), st) for b in f.blocks for j, st in enumerate(b.st) if st["s"] == "=" and not st["lhs"]["p"] and st["lhs"]["l"] == tloc]
        ctx.floor(R, "divider timestamp stores", len(stores), 2)
        for sp, st in stores:
            srcs = P.origins(f, st["rv"].get("a"), through_calls=False) if st["rv"]["r"] == "use" else [{"k": "other"}]
            if all(s_["k"] == "param" and s_["i"] == 2 and not s_["proj"] for s_ in srcs) and srcs:
                ctx.ok(R, f, "the full-copy divider carries the left key's timestamp", [sp])
            elif all(s_["k"] == "const" and s_.get("v") == 0 for s_ in srcs) and srcs:
                ok, how, _s = below_next(sp)
                ctx.check(R, f, "zero-timestamp-only-shortened", ok, "timestamp 0 (the largest position of a key) is used only with the shortened divider",
                          "the divider takes timestamp 0 with the unshortened key: (lhs, 0) sorts after every version of lhs and can pass the next block's first key", pt=sp)
            else:
                ctx.check(R, f, "divider-timestamp", False, "", "the divider's timestamp is neither 0 nor the left key's timestamp", pt=sp)


def _true_edge(f, pt, callee_pat):
    from .C06 import true_edge_guard
    return true_edge_guard(f, pt, callee_pat)


def _stores(f, l):
    return [((b.idx, j), st) for b in f.blocks for j, st in enumerate(b.st) if st["s"] == "=" and not st["lhs"]["p"] and st["lhs"]["l"] == l]


def _is_const(st, v):
    rv = st["rv"]
    return rv["r"] == "use" and rv["a"].get("k") == "const" and rv["a"]["c"].get("v") == v


def c107(ctx):
    """Prefix compression.  Writer and reader must rebuild a key the same way -- cut the previous key to `shared` bytes, then append
    the fragment -- and a restart must store the key whole (shared = 0) and record the offset of the entry it precedes.  Each clause
    below is a necessary condition of `the sealed block enumerates exactly the sequence put in`: breaking it changes the key some entry
    decodes to, or the entry a restart offset designates."""
    R = "C10.7"
    ctx.declare(R, "prefix compression: shared length, fragment and restart offsets are produced and consumed consistently")
    BB = "sst::block::BlockBuilder::"
    SR = r"sst::block::BlockBuilder::should_restart$"
    # the function that decides how much of the previous key an entry shares: found by what it does (asks should_restart, records restart
    # offsets), not by its name (compute_key_frag today)
    pf = ctx.prog.fn(BB + "compute_key_frag")
    if pf is None:
        cands = [g_ for g_ in ctx.prog.fns.values() if g_.crate == "sst" and g_.skey.startswith(BB) and P.call_points(g_, SR) and
                 P.call_points(g_, r"alloc::vec::Vec::push$", arg_pred=K.recv_is_field("restarts"))]
        pf = cands[0] if len(cands) == 1 else None
    PF = re.escape(pf.skey) + "$" if pf is not None else BB + "compute_key_frag$"
    f = pf if pf is not None else ctx.fn(R, BB + "compute_key_frag")
    usize_form = f is not None and f.locals[0] == "usize"

    def zip_scan(fn_, op_):
        """op_ is the count() of `a.iter().zip(b.iter()).take_while(|(x, y)| x == y)` over last_key and the key parameter: the length of
        their common prefix by construction (zip stops at the shorter, take_while at the first difference)"""
        for s_ in P.origins(fn_, op_):
            if s_["k"] == "call" and re.search(r"Iterator>?::count$", s_["callee"]):
                tw = [x_ for x_ in P.origins(fn_, s_["t"]["args"][0]) if x_["k"] == "call" and re.search(r"Iterator>?::take_while$", x_["callee"])]
                for w_ in tw:
                    zs = [x_ for x_ in P.origins(fn_, w_["t"]["args"][0]) if x_["k"] == "call" and re.search(r"(^|::)zip$", x_["callee"])]
                    cl_ok = False
                    for c_ in ctx.prog.closures_of(fn_):
                        for b_ in c_.blocks:
                            for st_ in b_.st:
                                if st_["s"] == "=" and st_["rv"].get("r") == "bin" and st_["rv"]["op"] == "Eq":
                                    cl_ok = True
                            t_ = b_.term
                            if t_["t"] == "call" and re.search(r"PartialEq.*>::eq$|::eq$", callee_skey(t_) or ""):
                                cl_ok = True
                    for z_ in zs:
                        srcs_ = [x_ for a_ in z_["t"]["args"] for x_ in P.origins(fn_, a_)]
                        has_last = any(x_["k"] == "field" and x_["f"] == "last_key" for x_ in srcs_) or any(x_["k"] == "param" for x_ in srcs_)
                        has_key = any(x_["k"] == "param" for x_ in srcs_)
                        if cl_ok and has_last and has_key and not K.DROPPING_ADAPTERS.search(z_["t"].get("ga") or "".replace("TakeWhile", "")):
                            return True
        return False
    if f:
        ctx.calls(R, f, SR)
        pu = ctx.calls(R, f, r"alloc::vec::Vec::push$", arg_pred=K.recv_is_field("restarts"), what="restarts.push")
        for pt in pu:
            ctx.check(R, f, "restart-recorded-on-restart", bool(_true_edge(f, pt, SR)), "a restart offset is recorded only where should_restart() holds",
                      "restarts.push is not confined to the restart branch", pt=pt)
            lens = [c for c in P.origins(f, P.term_at(f, pt)["args"][1]) if c["k"] == "call" and c["callee"].endswith("Vec::len")]
            ok = any("buffer" in K.arg_field_names(f, c["pt"], 0) for c in lens)
            ctx.check(R, f, "restart-offset-is-buffer-len", ok, "the recorded restart offset is buffer.len(), the offset of the entry about to be appended",
                      "the restart offset is not the current length of the entry buffer", pt=pt)
        # the function returns (shared, fragment) -- or the shared length alone, the callers slicing the fragment off themselves
        if usize_form:
            ret = [None]
        else:
            ret = [(b.idx, j) for b in f.blocks for j, st in enumerate(b.st) if st["s"] == "=" and st["lhs"]["l"] == 0 and not st["lhs"]["p"] and st["rv"]["r"] == "agg"]
            ctx.floor(R, "compute_key_frag return tuple", len(ret), 1)
        for rp in ret:
            ops = f.blocks[rp[0]].st[rp[1]]["rv"]["ops"] if rp is not None else [{"k": "copy", "pl": {"l": 0, "p": []}}, None]
            S = K.root_local(f, ops[0])
            if rp is None:
                rp = P.return_points(f)[0] if P.return_points(f) else (0, 0)
            sts = _stores(f, S)
            zero = [sp for sp, st in sts if _is_const(st, 0)]
            other = [(sp, st) for sp, st in sts if not _is_const(st, 0)]
            ctx.check(R, f, "restart-shares-nothing", zero and all(_true_edge(f, sp, SR) for sp in zero) and
                      all(P.reach(f, P.after(f, pt), [sp]) is not None or P.reach(f, [sp], [pt]) is not None for pt in pu for sp in zero),
                      "on a restart the shared length is 0 (the key is stored whole)", "the restart branch does not return shared = 0", pt=rp)
            zip_direct = not other and S is not None and zip_scan(f, {"k": "copy", "pl": {"l": S, "p": []}})
            ctx.check(R, f, "shared-from-scan", zip_direct or (len(other) >= 1 and not any(_true_edge(f, sp, SR) for sp, _st in other)),
                      "without a restart the shared length comes from the common-prefix scan", "cannot identify the common-prefix scan result", pt=rp)
            bf = __import__("blue.bounds", fromlist=["BF"]).BF(ctx.prog, f)
            if other and all(st["rv"]["r"] == "use" and zip_scan(f, st["rv"]["a"]) for _sp, st in other):
                ctx.ok(R, f, "the shared length is the count of `last_key.zip(key).take_while(equal)`: the common prefix by construction")
                other = []
            for sp, st in other:
                C = K.root_local(f, st["rv"].get("a")) if st["rv"]["r"] == "use" else None
                incs = []
                for cp, cst in (_stores(f, C) if C is not None else []):
                    srcs = P.origins(f, cst["rv"].get("a"), through_calls=False) if cst["rv"]["r"] == "use" else []
                    if any(s_["k"] == "bin" and s_["st"]["rv"]["op"] in ("Add", "AddWithOverflow", "AddUnchecked") for s_ in srcs):
                        incs.append(cp)
                inits = [cp for cp, cst in (_stores(f, C) if C is not None else []) if _is_const(cst, 0)]
                ctx.check(R, f, "scan-counter", C is not None and len(incs) == 1 and len(inits) == 1, "the scan counts from 0 in steps of one",
                          "cannot identify the common-prefix counter", pt=sp)
                for ip in incs:
                    bounded = eq = False
                    for fa in bf.dominating_facts(ip):
                        a, rel, b = fa[0], fa[1], fa[2]
                        if rel == "<" and a == ("pl", C, ()) and b[0] == "min" and {b[1], b[2]} == {("len", ("pl", 1, ("last_key",))), ("len", ("pl", 2, ()))}:
                            bounded = True
                    for bb, lab, srcs in K.guards(f, ip):
                        for s_ in srcs:
                            if s_["k"] == "bin" and s_["op"] == "Eq" and lab == "sw:1":
                                sides = []
                                for o in (s_["st"]["rv"]["a"], s_["st"]["rv"]["b"]):
                                    names = set()
                                    idx = None
                                    for q in P.origins(f, o):
                                        if q["k"] == "call" and q["callee"].endswith("Index>::index"):
                                            names |= set(K.arg_field_names(f, q["pt"], 0))
                                            idx = K.root_local(f, q["t"]["args"][1])
                                        if q["k"] == "param" and q["i"] == 2:
                                            names.add("param:key")
                                    if "param:key" in names and idx is None:
                                        # direct `key[i]`: the index is in the place projection
                                        d = [x for x in _stores(f, o["pl"]["l"])] if o.get("pl") else []
                                        for _dp, dst in d:
                                            pr = dst["rv"].get("a", {}).get("pl", {}).get("p", []) if dst["rv"]["r"] == "use" else []
                                            for e in pr:
                                                if isinstance(e, dict) and "ix" in e:
                                                    idx = K.root_local(f, {"k": "copy", "pl": {"l": e["ix"], "p": []}})
                                    sides.append((frozenset(names), idx))
                                if {n for ns, _i in sides for n in ns} >= {"param:key", "last_key"} and all(i == C for _n, i in sides):
                                    eq = True
                    ctx.check(R, f, "scan-bounded", bounded, "the counter advances only while it is below min(last_key.len(), key.len())",
                              "the common-prefix scan is not bounded by both key lengths", pt=ip)
                    ctx.check(R, f, "scan-compares-same-position", eq, "the counter advances only past a position where key and last_key hold the same byte",
                              "the common-prefix scan does not compare key[i] with last_key[i] at the counter's position", pt=ip)
            # the fragment is key[shared..] for the same shared
            if ops[1] is None:
                continue
            good = False
            for src in P.origins(f, ops[1], through_calls=False):
                if src["k"] == "call" and src["callee"].endswith("index"):
                    base = P.origins(f, src["t"]["args"][0], through_calls=False)
                    for r_ in P.origins(f, src["t"]["args"][1], through_calls=False):
                        if r_["k"] == "agg" and r_.get("adt", "").endswith("RangeFrom") and K.root_local(f, r_["st"]["rv"]["ops"][0]) == S and \
                                any(q["k"] == "param" and q["i"] == 2 for q in base):
                            good = True
            ctx.check(R, f, "fragment-is-rest", good, "the fragment is key[shared..] for the shared length returned with it",
                      "the returned fragment is not key[shared..] of the returned shared length", pt=rp)
    # writer and reader rebuild the key the same way
    for key, who, recv in ((BB + "append", "writer", "last_key"), ("sst::block::BlockCursor::extract_key", "reader", None)):
        g = ctx.fn(R, key)
        if not g:
            continue
        tr = ctx.calls(R, g, r"alloc::vec::Vec::truncate$")
        ex = ctx.calls(R, g, r"alloc::vec::Vec::extend_from_slice$")
        ctx.order_chain(R, g, [("truncate(shared)", tr), ("extend_from_slice(key_frag)", ex)])
        for pt in tr:
            ctx.check(R, g, "truncate-to-shared", any(c.endswith("KeyValueEntry::shared") for c in K.arg_calls(g, pt, 1)),
                      "the %s cuts the previous key to the entry's shared length" % who, "truncate is not given the entry's shared length", pt=pt)
        for pt in ex:
            ctx.check(R, g, "extend-with-fragment", any(c.endswith("KeyValueEntry::key_frag") for c in K.arg_calls(g, pt, 1)),
                      "the %s appends the entry's key fragment" % who, "extend_from_slice is not given the entry's key fragment", pt=pt)
        bases = {K.ref_base(g, P.term_at(g, pt)["args"][0]) for pt in tr + ex}
        flds = set()
        for pt in tr + ex:
            flds |= set(K.arg_field_names(g, pt, 0))
        same = (recv in flds and len(flds) == 1) if recv else (len(bases) == 1 and None not in bases)
        ctx.check(R, g, "same-key-buffer", same, "both operations act on the same key buffer", "truncate and extend act on different buffers")
        ents = set()
        for pt in tr + ex:
            for c in P.origins(g, P.term_at(g, pt)["args"][1]):
                if c["k"] == "call" and re.search(r"KeyValueEntry::(shared|key_frag)$", c["callee"]):
                    ents.add(K.ref_base(g, c["t"]["args"][0]))
        ctx.check(R, g, "same-entry", len(ents) == 1 and None not in ents, "shared length and fragment are read from the same entry",
                  "shared length and fragment come from different entries")
    # put / del wire compute_key_frag's pair into the entry they append
    for m, adt in (("put", "sst::KeyValuePut"), ("del", "sst::KeyValueDel")):
        g = ctx.fn(R, "<sst::block::BlockBuilder as sst::Builder>::" + m)
        if not g:
            continue
        ck = ctx.calls(R, g, PF)
        ap = ctx.calls(R, g, BB + "append$")
        ctx.order_chain(R, g, [("compute_key_frag", ck), ("append", ap)])
        for pt in ck:
            ctx.check(R, g, "frag-of-key", any(q["k"] == "param" and q["i"] == 2 for q in P.origins(g, P.term_at(g, pt)["args"][1], through_calls=False)),
                      "compute_key_frag is given the key being added", "compute_key_frag is not given the key parameter", pt=pt)
        aggs = [((b.idx, j), st) for b in g.blocks for j, st in enumerate(b.st)
                if st["s"] == "=" and st["rv"]["r"] == "agg" and strip_generics(st["rv"].get("adt", "")) == adt]
        ctx.floor(R, "%s aggregate in %s" % (adt, m), len(aggs), 1)
        for sp, st in aggs:
            flds = dict(zip(st["rv"].get("fields", ()), st["rv"]["ops"]))
            want = {"shared": "0", "key_frag": "1"}
            if usize_form:
                # shared is the function's result; the fragment is key[shared..] for that same value
                sh_ok = any(q["k"] == "call" and q["pt"] in set(ck) for q in P.origins(g, flds.get("shared")))
                ctx.check(R, g, "entry-shared", sh_ok, "%s.shared is the prefix function's result" % adt.rsplit("::", 1)[-1],
                          "%s.shared is not the shared length just computed" % adt.rsplit("::", 1)[-1], pt=sp)
                fr_ok = False
                for src in P.origins(g, flds.get("key_frag"), through_calls=False):
                    if src["k"] == "call" and src["callee"].endswith("index"):
                        base = P.origins(g, src["t"]["args"][0], through_calls=False)
                        for r_ in P.origins(g, src["t"]["args"][1], through_calls=False):
                            if r_["k"] == "agg" and r_.get("adt", "").endswith("RangeFrom") and \
                                    any(q["k"] == "call" and q["pt"] in set(ck) for q in P.origins(g, r_["st"]["rv"]["ops"][0])) and \
                                    any(q["k"] == "param" and q["i"] == 2 for q in base):
                                fr_ok = True
                ctx.check(R, g, "entry-key_frag", fr_ok, "%s.key_frag is key[shared..] for the same shared length" % adt.rsplit("::", 1)[-1],
                          "%s.key_frag is not key[shared..] of the shared length just computed" % adt.rsplit("::", 1)[-1], pt=sp)
                want = {}
            for fld, ix in want.items():
                ok = False
                for q in P.origins(g, flds.get(fld)):
                    if q["k"] == "call" and q["pt"] in set(ck):
                        ok = True
                proj_ok = _tuple_field_of(g, flds.get(fld), ix)
                ctx.check(R, g, "entry-" + fld, ok and proj_ok, "%s.%s is compute_key_frag's .%s" % (adt.rsplit("::", 1)[-1], fld, ix),
                          "%s.%s is not element %s of compute_key_frag's result" % (adt.rsplit("::", 1)[-1], fld, ix), pt=sp)
            ctx.check(R, g, "entry-timestamp", any(q["k"] == "param" and q["i"] == 3 for q in P.origins(g, flds.get("timestamp"), through_calls=False)),
                      "the entry carries the timestamp given", "the entry's timestamp is not the timestamp parameter", pt=sp)
            if "value" in flds:
                ctx.check(R, g, "entry-value", any(q["k"] == "param" and q["i"] == 4 for q in P.origins(g, flds.get("value"), through_calls=False)),
                          "the entry carries the value given", "the entry's value is not the value parameter", pt=sp)


def _tuple_field_of(f, op, ix):
    """op is (a cast / copy of) field `ix` of a tuple-typed local."""
    seen = set()
    while op is not None and op.get("k") in ("copy", "move"):
        pl = op["pl"]
        fes = [e for e in pl["p"] if isinstance(e, dict) and "f" in e]
        if fes:
            return fes[-1]["f"] == ix and fes[-1].get("of") == "()"
        if pl["l"] in seen:
            return False
        seen.add(pl["l"])
        ds = _stores(f, pl["l"])
        if len(ds) != 1 or ds[0][1]["rv"]["r"] not in ("use", "cast", "ref"):
            return False
        rv = ds[0][1]["rv"]
        op = rv.get("a") if rv["r"] != "ref" else {"k": "copy", "pl": rv["pl"]}
    return False


def _brief(f, op, tc=False):
    out = set()
    for q in P.origins(f, op, through_calls=tc):
        if q["k"] == "call":
            out.add("call:" + q["callee"].rsplit("::", 1)[-1])
        elif q["k"] == "param":
            out.add("param:%d" % q["i"])
        elif q["k"] == "field":
            out.add("field:" + q["f"])
        elif q["k"] == "const":
            out.add("const")
        else:
            out.add(q["k"])
    return out


def c108(ctx):
    """How the block cursor walks entries.  Each decoded entry is rebuilt on top of the key of the entry immediately before it in the same
    restart interval, at the offset where that entry ended; stepping into the next interval goes through the restart point.  A cursor
    that feeds extract_key a different key, offset or interval index decodes another key than the one written."""
    R = "C10.8"
    ctx.declare(R, "the block cursor decodes each entry at the previous entry's end offset, on top of the previous entry's key")
    EK = r"sst::block::BlockCursor::extract_key$"
    f = ctx.fn(R, "sst::block::BlockCursor::extract_key")
    if f:
        aggs = [((b.idx, j), st) for b in f.blocks for j, st in enumerate(b.st)
                if st["s"] == "=" and st["rv"]["r"] == "agg" and st["rv"].get("variant") == "Positioned" and "CursorPosition" in st["rv"].get("adt", "")]
        ctx.floor(R, "Positioned aggregates in extract_key", len(aggs), 1)
        for sp, st in aggs:
            fl = dict(zip(st["rv"]["fields"], st["rv"]["ops"]))
            ctx.check(R, f, "position-restart_idx", _brief(f, fl["restart_idx"]) == {"param:2"}, "restart_idx is the interval given", "the position's restart_idx is not the restart_idx argument", pt=sp)
            ctx.check(R, f, "position-offset", _brief(f, fl["offset"]) == {"param:3"}, "offset is the offset decoded at", "the position's offset is not the offset argument", pt=sp)
            ctx.check(R, f, "position-key", K.root_local(f, fl["key"]) == 4, "key is the previous key after truncate + extend", "the position's key is not the rebuilt key buffer", pt=sp)
            ctx.check(R, f, "position-timestamp", "call:timestamp" in _brief(f, fl["timestamp"]), "timestamp is the entry's", "the position's timestamp is not the decoded entry's", pt=sp)
            # next_offset = restarts_boundary - remaining bytes of the unpacker over bytes[offset..restarts_boundary]
            ok = False
            for q in P.origins(f, fl["next_offset"], through_calls=False):
                if q["k"] == "bin" and q["st"]["rv"]["op"] in ("Sub", "SubWithOverflow"):
                    a, b = q["st"]["rv"]["a"], q["st"]["rv"]["b"]
                    lens = [x for x in P.origins(f, b, through_calls=False) if x["k"] == "call" and x["callee"].endswith("::len")]
                    ok = "field:restarts_boundary" in _brief(f, a) and bool(lens) and all("call:remain" in _brief(f, x["t"]["args"][0]) for x in lens)
            ctx.check(R, f, "position-next_offset", ok, "next_offset = restarts_boundary - unpacker.remain().len()", "next_offset is not the end of the decoded entry", pt=sp)
        for pt in ctx.calls(R, f, r"buffertk::Unpacker::new$"):
            ok = False
            for q in P.origins(f, P.term_at(f, pt)["args"][0], through_calls=False):
                if q["k"] == "call" and q["callee"].endswith("index"):
                    for r_ in P.origins(f, q["t"]["args"][1], through_calls=False):
                        if r_["k"] == "agg" and r_.get("adt", "").endswith("range::Range"):
                            lo, hi = r_["st"]["rv"]["ops"]
                            ok = _brief(f, lo) == {"param:3"} and "field:restarts_boundary" in _brief(f, hi)
            ctx.check(R, f, "decode-window", ok, "the entry is decoded from bytes[offset..restarts_boundary]", "the entry is not decoded from bytes[offset..restarts_boundary]", pt=pt)
    f = ctx.fn(R, "<sst::block::BlockCursor as sst::Cursor>::next")
    if f:
        for pt in ctx.calls(R, f, EK):
            a = P.term_at(f, pt)["args"]
            ctx.check(R, f, "next-interval", _brief(f, a[1]) == {"call:restart_idx"}, "next stays in the current restart interval", "next decodes under a different restart index", pt=pt)
            ctx.check(R, f, "next-offset", _brief(f, a[2]) == {"call:next_offset"}, "next decodes at the current entry's end offset", "next does not decode at next_offset()", pt=pt)
            kb = _brief(f, a[3])
            ctx.check(R, f, "next-prev-key", "call:take" in kb or "call:replace" in kb or "call:clone" in kb or "call:swap" in kb,
                      "next rebuilds on top of the current entry's key", "next does not hand the current key to extract_key", pt=pt)
            for q in P.origins(f, a[3], through_calls=False):
                if q["k"] == "call" and q["callee"].rsplit("::", 1)[-1] in ("take", "replace", "clone"):
                    ctx.check(R, f, "next-prev-key-source", "key" in K.arg_field_names(f, q["pt"], 0), "the key taken is the position's key field",
                              "the buffer handed on is not the position's key", pt=q["pt"])
        # crossing into the next interval goes through its restart point, exactly when that restart point is at or before the offset
        sr = [p for p in P.call_points(f, r"BlockCursor::seek_restart$") if "const" not in _brief(f, P.term_at(f, p)["args"][1])]
        ctx.floor(R, "next: seek_restart(restart_idx + 1)", len(sr), 1)
        for pt in sr:
            good = False
            for g in K.compare_guards(f, pt):
                a, b, op = g["a"], g["b"], g["op"]
                if not g["holds"]:
                    op = {"Lt": "Ge", "Le": "Gt", "Gt": "Le", "Ge": "Lt"}.get(op, op)
                if op in ("Ge", "Gt"):
                    a, b, op = b, a, {"Ge": "Le", "Gt": "Lt"}[op]
                if op == "Le" and "call:restart_point" in _brief(f, a) and _brief(f, b) == {"call:next_offset"}:
                    good = True
            ctx.check(R, f, "interval-crossing", good, "the next interval is entered when restart_point(restart_idx + 1) <= next_offset",
                      "the step into the next restart interval is not guarded by restart_point(restart_idx + 1) <= next_offset", pt=pt)
    f = ctx.fn(R, "sst::block::BlockCursor::seek_restart")
    if f:
        for pt in ctx.calls(R, f, EK):
            a = P.term_at(f, pt)["args"]
            ctx.check(R, f, "restart-interval", _brief(f, a[1]) == {"param:2"}, "seek_restart decodes under the restart index given", "seek_restart decodes under another restart index", pt=pt)
            ctx.check(R, f, "restart-offset", _brief(f, a[2]) == {"call:restart_point"} and
                      any(_brief(f, q["t"]["args"][1]) == {"param:2"} for q in P.origins(f, a[2], through_calls=False) if q["k"] == "call"),
                      "seek_restart decodes at restart_point(restart_idx)", "seek_restart does not decode at the restart point of its index", pt=pt)
    f = ctx.fn(R, "sst::block::BlockCursor::cache_restart")
    if f:
        eks = ctx.calls(R, f, EK)
        pu = ctx.calls(R, f, r"alloc::vec::Vec::push$")
        heads = [h for h in eks if P.reach(f, P.after(f, h), [h])]
        ctx.check(R, f, "cache-loop", len(heads) == 1, "the interval is decoded in one loop", "cannot identify the decode loop of cache_restart")
        for pt in heads:
            a = P.term_at(f, pt)["args"]
            ctx.check(R, f, "cache-interval", _brief(f, a[1]) == {"param:2"}, "cached positions carry the interval's index", "cache_restart decodes under another restart index", pt=pt)
            ob = _brief(f, a[2])
            ctx.check(R, f, "cache-offset-chain", "call:restart_point" in ob and "field:next_offset" in ob and not (ob - {"call:restart_point", "field:next_offset", "field:0", "call:branch"}),
                      "the decode offset starts at the restart point and continues at each decoded entry's next_offset", "the decode offsets of cache_restart are not restart_point, next_offset, next_offset, ... (%s)" % sorted(ob), pt=pt)
            kb = _brief(f, a[3])
            ctx.check(R, f, "cache-key-chain", "call:new" in kb and "call:clone" in kb, "the key buffer starts empty and continues as a copy of each decoded key",
                      "cache_restart does not chain the decoded keys (%s)" % sorted(kb), pt=pt)
            for q in P.origins(f, a[3], through_calls=False):
                if q["k"] == "call" and q["callee"].endswith("::clone"):
                    ctx.check(R, f, "cache-key-source", "key" in K.arg_field_names(f, q["pt"], 0), "the key copied is the decoded position's key", "the key carried forward is not the decoded position's key", pt=q["pt"])
            # every Positioned result is recorded: from the decode to the next decode, push is passed (Last/First leave the loop)
            byp = P.reach(f, P.after(f, pt), [pt], avoid=set(pu) | set(P.error_points(f)))
            ctx.check(R, f, "cache-records-all", bool(pu) and byp is None, "every decoded position is recorded before the next one is decoded", "a decoded position can be left out of the reverse cache", pt=pt, path=byp)
    f = ctx.fn(R, "<sst::block::BlockCursor as sst::Cursor>::prev")
    if f:
        cr = ctx.calls(R, f, r"BlockCursor::cache_restart$")
        # the cached position chosen is the one that ends where the current entry starts
        found = False
        work = list(ctx.prog.closures_of(f))
        while work:
            g = work.pop()
            work.extend(ctx.prog.closures_of(g))
            for b in g.blocks:
                for st in b.st:
                    rv = st.get("rv", {})
                    if st["s"] == "=" and rv.get("r") == "bin" and rv["op"] == "Eq":
                        if "field:next_offset" in (_brief(g, rv["a"]) | _brief(g, rv["b"])):
                            found = True
        ctx.check(R, f, "prev-match", found, "prev picks the cached position whose next_offset equals the current offset", "prev no longer matches cached positions by next_offset == target")


# ------------------------------------------------------------------------------------------------
# C10.9 the SST cursor answers a seek from the index

SSTC = "<sst::SstCursor as sst::Cursor>::"
ORD_CALL = re.compile(r"::(lt|le|gt|ge)$")


def _ord_atoms(g, key_is):
    """Comparisons in g between the sought key and an index entry's key: [(relation as `entry REL key`, uses idx-1, point)]."""
    out = []
    for b, t in g.calls():
        m = ORD_CALL.search(callee_skey(t) or "")
        if not m or len(t["args"]) != 2:
            continue
        name = m.group(1)
        sides = []
        for a in t["args"]:
            srcs, _ = P.value_slice(g, a)
            is_key = key_is(g, a)
            fields = {x["f"] for x in srcs if x["k"] == "field"}
            is_entry = "index_entries" in fields or ("key" in fields and not is_key)
            prev = any(x["k"] == "bin" and x["op"].startswith("Sub") for x in srcs)
            for x in srcs:
                if x["k"] == "call" and re.search(r"index::Index.*::index$|::index$", x["callee"]) and len(x["t"]["args"]) == 2:
                    prev = prev or any(y["k"] == "bin" and y["op"].startswith("Sub") for y in P.value_slice(g, x["t"]["args"][1])[0])
            sides.append((is_key and not is_entry, is_entry, prev))
        (k0, e0, p0), (k1, e1, p1) = sides
        if e0 and k1:
            out.append((name, p0, P.term_pt(g, b.idx)))
        elif k0 and e1:
            out.append(({"lt": "gt", "le": "ge", "gt": "lt", "ge": "le"}[name], p1, P.term_pt(g, b.idx)))
    return out


def c109(ctx):
    R = "C10.9"
    ctx.declare(R, "SstCursor::seek chooses the data block by the index search (first dividing key >= the sought key); a shortcut that keeps the "
                   "current block must exclude the previous block's dividing key, which can be the last key that block stores")
    si = ctx.fn(R, "sst::SstCursor::seek_index")
    if si:
        cl = [g for g in ctx.prog.fns.values() if g.skey.startswith("sst::SstCursor::seek_index::{closure")]
        ok = False
        for g in cl:
            for name, _prev, _pt in _ord_atoms(g, lambda g_, a: not any(x["k"] == "field" and x["f"] == "key" for x in P.value_slice(g_, a)[0])):
                ok = ok or name == "lt"
        ctx.check(R, si, "index-search-strict", ok, "seek_index is the partition point of `entry.key < key`: the first block whose dividing key is >= the key",
                  "seek_index no longer finds the first block whose dividing key is >= the key")
    f = ctx.fn(R, SSTC + "seek")
    if not f:
        return
    sx = ctx.calls(R, f, r"sst::SstCursor::seek_index$")
    stl = P.call_points(f, r"SstCursor as sst::Cursor>::seek_to_last$")
    lb = ctx.calls(R, f, r"sst::SstCursor::load_block_cursor$")
    for p_ in lb:
        t = P.term_at(f, p_)
        from_index = any(x["k"] == "call" and x["callee"].endswith("seek_index") for x in P.value_slice(f, t["args"][1])[0])
        ctx.check(R, f, "loads-the-indexed-block", from_index, "the block loaded is the one the index search chose (or its successor)",
                  "seek loads a block whose number does not come from the index search", pt=p_)
    mw = P.field_writes(f, r"sst::SstCursor$", "meta_idx")
    for p_ in mw:
        st = f.blocks[p_[0]].st[p_[1]] if p_[1] < len(f.blocks[p_[0]].st) else None
        from_index = st is not None and any(x["k"] == "call" and x["callee"].endswith("seek_index") for x in P.value_slice(f, st["rv"].get("a"))[0])
        ctx.check(R, f, "records-the-indexed-block", from_index, "meta_idx is the number of the block loaded", "seek stores a meta_idx that does not come from the index search", pt=p_)

    def key_is(g_, a):
        return any(x["k"] == "param" and g_.locals[x["i"]] == "&[u8]" for x in P.origins(g_, a))
    # returns that do not pass the index search: a same-block shortcut
    for r_ in P.ok_points(f):
        q = P.reach(f, P.ENTRY, [r_], avoid=set(sx))
        if q is None:
            ctx.ok(R, f, "this exit follows the index search", [r_])
            continue
        atoms = []
        for bb, lab, srcs in K.guards(f, r_):
            for s_ in srcs:
                if s_["k"] == "call":
                    for k_ in ctx.prog.targets(s_["t"]):
                        g = ctx.prog.fns.get(k_)
                        if g is not None and g.crate == "sst" and g.locals[0] == "bool":
                            atoms += _ord_atoms(g, key_is)
        atoms += _ord_atoms(f, key_is)
        lower = [a for a in atoms if a[1]]
        upper = [a for a in atoms if not a[1]]
        ok_lower = bool(lower) and all(a[0] == "lt" for a in lower)
        ok_upper = bool(upper) and all(a[0] in ("ge", "gt") for a in upper)
        ctx.check(R, f, "shortcut-excludes-previous-divider", ok_lower and ok_upper,
                  "the same-block shortcut requires entries[idx - 1].key < key <= entries[idx].key",
                  "seek can answer from the block it already holds without the index search, and the test that the block covers the key does not "
                  "exclude the previous block's dividing key (found %s): divide_keys may return the previous block's last stored key itself, so a "
                  "re-seek to that key lands on this block's first entry and skips the key" % sorted((a[0], "idx-1" if a[1] else "idx") for a in atoms),
                  pt=r_, path=q)
