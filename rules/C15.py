"""C15 — protobuf codec: field-table agreement of the derived code, decode-path panic audit, tag tables."""
import re
from collections import defaultdict

from blue import prim as P
from blue.facts import callee_skey, strip_generics
from . import common as K

EXPLANATION = (
    "C15 structural clauses: (C15.1) for every #[derive(Message)] type compiled in the analysed crates, read from the "
    "expanded program: pack_sz, pack and stream mention the same (field number, prototk field type, struct field) list, "
    "unpack dispatches on exactly those (number, wire type) pairs with the wire type equal to the field type's WIRE_TYPE "
    "constant, merges into the same struct field, numbers are unique within the message, and unknown fields fall through "
    "to the next field; (C15.2) no explicit panic site is reachable from any Unpackable::unpack of buffertk/prototk, the "
    "field iterator, take_length_prefixed or any derived unpack (exceptions with reasons); (C15.3) WireType::new and "
    "tag_bits are inverse tables on {0,1,2,5}, every other 3-bit value is an error, Tag packs (number << 3) | bits and "
    "unpacks with >> 3 / & 7, FieldNumber::new rejects 0, > 2^29-1 and 19000..=19999, and prototk_derive's copies of "
    "those constants equal prototk's; (C15.2b) every index / range-slice expression in the same reach set (MIR BoundsCheck "
    "asserts and Index::index calls) is in range: the bound is established by a comparison, dominating the site, with the "
    "length of the *same* buffer, or by construction (loop variable, fixed array length), no write to an operand lying "
    "between check and use; v64::unpack_size's precondition buf.len() >= 10 >= SZ is proved at each of its call sites; "
    "sites the prover cannot discharge are excepted one by one with the reason.  TABLE (switch-tree reading), GUARDED, "
    "const eval, panic audit and array-bounds dataflow over REACH.")
NOT_DECIDED = "round-trip equality, wire compatibility, integer-overflow panics (debug builds) in the varint paths"
ASSUMPTIONS = ["overflow Assert terminators are out of scope; the 7 excepted slice sites are safe by the loop invariants / canonical-size argument given in the exception table"]

PACK_FNS = ("pack_sz", "pack", "stream")


def rules(ctx):
    c151(ctx)
    c152(ctx)
    c153(ctx)
    c155(ctx)
    c156(ctx)
    c157(ctx)
    c158(ctx)
    c159(ctx)


def c158(ctx):
    R = "C15.8"
    ctx.declare(R, "the varint decoders shift by an amount that grows with the number of bytes consumed; the number of such steps is bounded by a "
                   "constant (at most ten groups of seven bits fit a u64), whatever the length of the input")
    n = 0
    for f in sorted(ctx.prog.fns.values(), key=lambda f: f.key):
        if f.crate != "buffertk" or "varint" not in f.skey or "{closure" in f.skey:
            continue
        for b in f.blocks:
            for i, st in enumerate(b.st):
                if not (st["s"] == "=" and st["rv"]["r"] == "bin" and st["rv"]["op"] in ("Shl", "ShlUnchecked") and st["rv"]["b"].get("k") != "const"):
                    continue
                pt = (b.idx, i)
                srcs, _ = P.value_slice(f, st["rv"]["b"])
                # where the amount grows: additions / multiplications inside a loop, or the counter of an enumerate()
                grow = []
                for x in srcs:
                    if x["k"] == "bin" and x["op"].startswith(("Add", "Mul")) and "pt" in x and P.reach(f, P.after(f, x["pt"]), [x["pt"]]) is not None:
                        grow.append(x["pt"])
                    if x["k"] == "call" and re.search(r"Iterator>?::next$", x["callee"]) and P.reach(f, P.after(f, x["pt"]), [x["pt"]]) is not None:
                        grow.append(x["pt"])
                if not grow:
                    continue        # not loop-carried (a constant expression such as 7 * (SZ - 1))
                n += 1
                bounded = None
                for g_ in grow + [pt]:
                    for c in K.compare_guards(f, g_):
                        for side, lim in ((c["b"], {"Lt": 10, "Le": 9}), (c["a"], {"Gt": 10, "Ge": 9})):
                            if c["op"] in lim and c["holds"]:
                                cs = [x.get("v") for x in P.value_slice(f, side)[0] if x["k"] == "const" and isinstance(x.get("v"), int) and x.get("v") > 0]
                                if cs and max(cs) <= lim[c["op"]]:
                                    bounded = "comparison with a value that is at most %d" % max(cs)
                    for h in [h for h in P.call_points(f, r"Iterator>?::next$") if P.reach(f, P.after(f, h), [g_]) is not None and P.reach(f, P.after(f, g_), [h]) is not None]:
                        if re.search(r"\bTake<", K.loop_iterator_type(f, h)):
                            bounded = bounded or "take(n) on the byte iterator"
                ctx.check(R, f, "shift-steps-bounded", bounded is not None, "the shift amount at line %d grows in a loop whose trip count is bounded (%s)" % (st["sp"][1], bounded),
                          "%s shifts left by an amount that grows with every byte of the input, in a loop that nothing bounds by a constant: ten "
                          "continuation bytes followed by more input shift by 70 -- a panic in a checked build, a wrapped shift and a garbage value otherwise" % f.skey, pt=pt)
    ctx.floor(R, "loop-carried shift amounts in the varint decoders", n, 1)


def c159(ctx):
    R = "C15.9"
    ctx.declare(R, "packing to a writer writes all pack_sz() bytes or fails: Packable::stream hands its bytes to write_all, and nothing in the codec "
                   "crates calls the single-shot Write::write outside a loop that re-offers the remainder (a short write would return Ok(n) with n < pack_sz())")
    st = [g for k, g in ctx.prog.fns.items() if k.endswith("buffertk::Packable::stream")]
    ctx.floor(R, "Packable::stream", len(st), 1)
    for f in st:
        wa = P.call_points(f, r"io::Write::write_all$|as std::io::Write>::write_all$")
        q = P.must_pass(f, wa) if wa else [0]
        ctx.check(R, f, "stream-writes-all", bool(wa) and q is None, "stream passes through write_all on every success path",
                  "Packable::stream can return Ok without having handed all its bytes to write_all: a writer that accepts part of the buffer leaves a "
                  "truncated encoding behind and the byte count the callers add to their offsets is short")
    n = 0
    for f in sorted(ctx.prog.fns.values(), key=lambda f: f.key):
        if f.crate not in ("buffertk", "prototk", "sst", "mani"):
            continue
        if f.name == "write" and (f.impl_trait or "").endswith("io::Write"):
            continue        # a Write impl that delegates write() to the file it wraps promises no more than that file does
        for pt in P.call_points(f, r"io::Write::write$|as std::io::Write>::write$"):
            n += 1
            looped = P.reach(f, P.after(f, pt), [pt]) is not None
            ctx.check(R, f, "no-single-shot-write", looped, "the write is re-offered in a loop",
                      "%s calls Write::write once and takes its count for the whole buffer" % f.skey, pt=pt)
    if n == 0:
        ctx.ok(R, "buffertk", "no single-shot Write::write in buffertk, prototk, sst, mani")


def pack_table(f):
    """[(field number, field type, struct field or variant)] from FieldNumber::must(N) + field_packer::<T>(.., &self.f)."""
    out = []
    for b, t in f.calls():
        ck = callee_skey(t) or ""
        if not ck.endswith("prototk::FieldType::field_packer") and not ck.endswith("FieldType>::field_packer"):
            continue
        ga = t.get("ga", "")
        m = re.match(r"\[([^,\]]+(?:<[^\]]*?>)?)", ga)
        ty = strip_generics(m.group(1)) if m else "?"
        num = None
        for s in P.origins(f, t["args"][0]):
            if s["k"] == "call" and s["callee"].endswith("FieldNumber::must"):
                cs = P.origin_consts(f, s["t"]["args"][0])
                if cs and "v" in cs[0]:
                    num = cs[0]["v"]
        flds = sorted({s["f"] for s in P.origins(f, t["args"][1]) if s["k"] == "field" and not s["f"].isdigit()})
        out.append((num, ty, ",".join(flds)))
    return out


def unpack_table(f, raw=False):
    """[(field number, wire type discriminant, field type, struct field)] from the derived unpack's switch tree.
    raw=True keeps the generic arguments of the field type (message<M>)."""
    out = []
    for b, t in f.calls():
        ck = callee_skey(t) or ""
        if not ck.endswith("prototk::unpack_as"):
            continue
        pt = P.term_pt(f, b.idx)
        ga = t.get("ga", "")
        parts = [x.strip() for x in ga.strip("[]").split(", ", 1)]
        ty = (parts[1] if raw else strip_generics(parts[1])) if len(parts) > 1 else "?"
        num = wt = None
        for bb, lab in P.guards_of(f, pt):
            d = f.blocks[bb].term["discr"]
            if not lab.startswith("sw:"):
                continue
            if d.get("k") in ("copy", "move") and d["pl"]["p"] and isinstance(d["pl"]["p"][-1], dict) and d["pl"]["p"][-1].get("f") == "0":
                num = int(lab[3:])
            else:
                srcs = P.origins(f, d)
                if any(s["k"] == "discr" for s in srcs) and any(s["k"] == "field" and s["f"] == "wire_type" for s in srcs):
                    wt = int(lab[3:])
        # the struct field merged into: merge_field(&mut ret.f, ..) reachable right after this unpack_as
        fld = set()
        for b2, t2 in f.calls():
            if (callee_skey(t2) or "").endswith("::merge_field") and not P.order(f, [pt], [P.term_pt(f, b2.idx)]):
                if any(s["k"] == "call" and s["pt"] == pt for s in P.origins(f, t2["args"][1])):
                    fld |= {s["f"] for s in P.origins(f, t2["args"][0]) if s["k"] == "field" and not s["f"].isdigit()}
        out.append((num, wt, ty, ",".join(sorted(fld))))
    return out


def wire_type_of(ctx, ty):
    for k, c in ctx.prog.consts.items():
        if k.endswith("::WIRE_TYPE") and strip_generics(k).startswith("<" + ty + " as prototk::FieldType>"):
            return c.get("v")
    if ty.startswith("prototk::field_types::message") or ty in ("prototk::field_types::stringref", "prototk::field_types::bytes", "prototk::field_types::string"):
        return 2
    return None


def c151(ctx):
    R = "C15.1"
    ctx.declare(R, "the derived pack, size, stream and unpack code agree on every message's field table")
    by_type = defaultdict(dict)
    for f in ctx.prog.fns.values():
        if f.impl_trait and f.impl_self and f.name:
            tr = strip_generics(f.impl_trait)
            if tr == "buffertk::Packable" and f.name in PACK_FNS:
                by_type[strip_generics(f.impl_self)][f.name] = f
            elif tr == "buffertk::Unpackable" and f.name == "unpack":
                by_type[strip_generics(f.impl_self)]["unpack"] = f
    n_types = 0
    skipped = []
    for ty in sorted(by_type):
        fs = by_type[ty]
        if "pack_sz" not in fs or "unpack" not in fs:
            continue
        pt = {name: pack_table(fs[name]) for name in PACK_FNS if name in fs}
        if not pt.get("pack_sz"):
            continue   # hand-written Packable (not a derived message)
        ut = unpack_table(fs["unpack"])
        if not ut:
            continue
        n_types += 1
        f0 = fs["pack_sz"]
        adt = ctx.prog.adts.get(ty, {})
        is_enum = adt.get("kind") == "Enum"
        if is_enum and any(len(v["fields"]) > 1 or any(not n_.isdigit() for n_, _t, _p in v["fields"]) for v in adt.get("variants", [])):
            # struct-like variants are packed as nested anonymous messages: their inner field numbers live in a
            # different scope from the variant tags; the flat table reading does not apply (recorded, not decided)
            skipped.append(ty)
            n_types -= 1
            continue
        base = sorted(pt["pack_sz"], key=lambda x: (x[0] is None, x[0]))
        for name in ("pack", "stream"):
            if name in pt:
                ctx.check(R, fs[name], "pack-tables-agree", sorted(pt[name], key=lambda x: (x[0] is None, x[0])) == base,
                          "%s::%s has the same (number, type, field) list as pack_sz" % (ty, name),
                          "%s::%s packs %s but pack_sz sizes %s" % (ty, name, sorted(pt[name]), base))
        nums = [n for n, _t, _f in base]
        ctx.check(R, f0, "numbers-unique", len(nums) == len(set(nums)) and None not in nums, "%s: field numbers %s are unique" % (ty, nums),
                  "%s reuses a field number: %s" % (ty, nums))
        up = sorted((n, t, fl) for n, _w, t, fl in ut)
        want = sorted((n, t, "" if is_enum else fl) for n, t, fl in base)
        got = sorted((n, t, "" if is_enum else fl) for n, t, fl in up)
        ctx.check(R, fs["unpack"], "unpack-matches-pack", got == want, "%s::unpack handles exactly the packed (number, type, field) set" % ty,
                  "%s::unpack handles %s but pack writes %s" % (ty, got, want))
        for n, w, t, fl in ut:
            ww = wire_type_of(ctx, t)
            if ww is None:
                continue
            ctx.check(R, fs["unpack"], "wire-type", w == ww, "%s field %s is accepted with wire type %s = %s::WIRE_TYPE" % (ty, n, w, t.rsplit("::", 1)[-1]),
                      "%s field %s (%s) is accepted with wire type %s but the type's WIRE_TYPE is %s" % (ty, n, t, w, ww))
        # struct unpack skips unknown fields: the field-number switch has an `otherwise` edge that continues the loop
        g = fs["unpack"]
        if not is_enum:
            heads = [h for h in P.call_points(g, r"prototk::FieldIterator.*Iterator>::next$")]
            skip = False
            for b in P.switch_blocks(g):
                d = b.term["discr"]
                if d.get("k") in ("copy", "move") and d["pl"]["p"] and isinstance(d["pl"]["p"][-1], dict) and d["pl"]["p"][-1].get("f") == "0":
                    others = [s_ for lab, s_ in b.succs if lab == "otherwise" or (lab.startswith("sw:") and int(lab[3:]) not in nums)]
                    for other in others:
                        if heads and P.reach(g, [(other, 0)], heads, avoid=P.error_points(g)) is not None:
                            skip = True
            ctx.check(R, g, "skips-unknown", skip, "%s::unpack skips unknown (number, wire type) pairs and continues" % ty,
                      "%s::unpack does not skip unknown fields" % ty)
    # every loop over the fields of a message -- also the nested anonymous message of a struct-like enum variant -- can pass over a
    # field it does not know: from each FieldIterator::next there is a way back to it that decodes nothing and reports nothing
    nloops = 0
    for ty in sorted(by_type):
        g = by_type[ty].get("unpack")
        if g is None or "pack_sz" not in by_type[ty] or not pack_table(by_type[ty]["pack_sz"]):
            continue
        heads = [h for h in P.call_points(g, r"prototk::FieldIterator.*Iterator>::next$") if P.reach(g, P.after(g, h), [h]) is not None]
        decode = set(P.call_points(g, r"prototk::unpack_as$|FieldUnpackHelper.*::merge_field$"))
        for h in heads:
            nloops += 1
            q = P.reach(g, P.after(g, h), [h], avoid=decode | set(P.error_points(g)) | set(P.return_points(g)))
            ctx.check(R, g, "loop-skips-unknown", q is not None, "%s::unpack: a field loop passes over fields it does not know" % ty,
                      "%s::unpack: a loop over the fields of a (nested) message has no way round an unknown field -- it is an error there, while every "
                      "other message skips it: a reader one version behind cannot decode a struct-like enum variant that gained a field" % ty, pt=h)
    ctx.floor(R, "field loops in derived decoders", nloops, 8)
    ctx.floor(R, "derived message types", n_types, 8)
    if skipped:
        ctx.notes.append("C15.1: enums with struct-like variants not table-checked: %s" % skipped)
        ctx.ok(R, "prototk_derive", "not table-checked (nested anonymous messages in struct-like enum variants): %s" % skipped)


DECODE_EXC = {
    ("<core::result::Result as buffertk::Unpackable>::unpack", "unwrap(Unpacker::unpack)"):
        "tag.try_into().unwrap() directly follows `if tag > u32::MAX { return Err(tag_too_large) }`",
    ("<buffertk::varint::v64 as core::convert::Into>::into", "unwrap(core::num::error::TryFromIntError)"):
        "u64 -> usize is infallible on the 64-bit targets this workspace builds for (the crate tests the assumption)",
}
BOUNDS_EXC = {
    ("<prototk::FieldIterator as core::iter::traits::iterator::Iterator>::next", "range"): (2,
        "`&buf[0..x.pack_sz()]` / `&buf[0..x.pack_sz() + sz]`: buf is remain() taken before the varint x was unpacked from it; the canonical "
        "size of x is at most the number of bytes that unpack consumed (the canonical varint is the shortest), and sz <= remain().len() is "
        "checked after it, so the end is within buf"),
    ("buffertk::varint::v64::unpack_size", "index"): (1,
        "`buf[SZ - 1]`: precondition buf.len() >= 10 >= SZ, established at every call site (checked below as C15.2b precondition)"),
    ("buffertk::varint::v64::unpack_size", "range"): (1,
        "`&buf[SZ..]`: same precondition buf.len() >= 10 >= SZ"),
    ("buffertk::varint::v64::unpack_slow", "index"): (2,
        "`buf[idx]` in the loop: idx + 1 < bytes and bytes = min(buf.len(), 10); after the loop `!buf.is_empty()` is tested first and idx has "
        "only been incremented while idx + 1 < bytes, so idx <= bytes - 1 < buf.len() (loop invariant, by reading)"),
    ("buffertk::varint::v64::unpack_slow", "range"): (1,
        "`&buf[idx..]` after `idx += 1` that directly follows the successful `buf[idx]` read: idx <= buf.len()"),
}
OVERFLOW_EXC = {
    ("<prototk::field_types::message as buffertk::Unpackable>::unpack", "Sub"): (1,
        "`v - empty.len()` inside error construction: `empty` is the unconsumed suffix that M::unpack returned for buf = rem[..v] "
        "(the Unpackable contract: the remainder is a suffix of the input), so empty.len() <= v"),
}
RERR_EXC = {
    ("<core::result::Result as buffertk::Unpackable>::unpack", "unwrap(<varint::v64 as convert::TryInto>::try_into)"):
        "tag.try_into().unwrap() directly follows `if tag > u32::MAX { return Err(tag_too_large) }`",
}


def c152(ctx):
    R = "C15.2"
    ctx.declare(R, "decoding arbitrary bytes returns a value or an error, never an explicit panic")
    entries = []
    for f in ctx.prog.fns.values():
        if f.crate in ("buffertk", "prototk") and f.impl_trait and strip_generics(f.impl_trait) == "buffertk::Unpackable" and f.name == "unpack":
            entries.append(f)
        elif f.impl_trait and strip_generics(f.impl_trait) == "buffertk::Unpackable" and f.name == "unpack" and \
                (f.crate in ("sst", "lsmtk", "mani", "setsum", "tuple_key") or (ctx.tier == "thorough" and f.crate not in ("scrunch",))):
            # thorough tier (whole workspace): every crate's derived or macro-generated decoder is an entry point too
            entries.append(f)
        elif f.skey in ("prototk::take_length_prefixed", "<prototk::FieldIterator as core::iter::traits::iterator::Iterator>::next", "prototk::unpack_as",
                        "prototk::unpack_from", "buffertk::Unpacker::unpack", "buffertk::Unpacker::take", "buffertk::Unpacker::advance"):
            entries.append(f)
    ctx.floor(R, "decode entry points", len(entries), 40)
    # reach within the codec crates; derived unpack bodies of other crates are included as entries themselves
    keys = [f.key for f in entries]
    seen = ctx.prog.reach(keys, crates={"buffertk", "prototk"})
    fns = {k: ctx.prog.fns[k] for k in seen if k in ctx.prog.fns and ctx.prog.fns[k].crate in ("buffertk", "prototk")}
    for f in entries:
        fns[f.key] = f
    # exclude the encode side reached through shared helpers
    audit = [f for f in fns.values() if not re.search(r"::(pack|pack_sz|stream|field_pack|field_pack_sz|field_packer|must|fmt)$", f.skey)]
    exc = dict(DECODE_EXC)
    for f in entries:
        a = ctx.prog.adts.get(strip_generics(f.impl_self or ""))
        if a and [n_ for v in a["variants"] for (n_, t_, _p) in v["fields"] if t_.startswith("[u8;")] == ["id"]:
            exc[(f.skey, "unwrap(Unpacker::remain)")] = ("generate_id_prototk!: try_into() of `rem[..16]` (exactly 16 bytes) to [u8; 16] cannot fail; the slice "
                                                        "expression itself is an implicit bounds check (observation O8, outside this audit)")
    n = K.panic_audit(ctx, R, audit, exc)
    ctx.ok(R, "prototk", "audited %d functions reachable from %d decode entry points; %d explicit panic constructs examined" % (len(audit), len(entries), n))
    # implicit panics: every index / range-slice expression of the decode path is in range
    nb, pb = K.bounds_audit(ctx, R + "b", audit, BOUNDS_EXC)
    ctx.declare(R + "b", "decoding never indexes a buffer beyond the length a dominating comparison established for that same buffer")
    ctx.floor(R + "b", "index / slice sites on the decode path", nb, 20)
    no = K.overflow_audit(ctx, R + "b", audit, OVERFLOW_EXC)
    ctx.floor(R + "b", "arithmetic on decoded lengths", no, 2)
    # interprocedural precondition of the unrolled varint decoder: every caller has established buf.len() >= 10 and SZ <= 10
    from blue import bounds as B
    ncall = 0
    for f in ctx.prog.fns.values():
        if f.crate != "buffertk":
            continue
        bf = None
        for b, t in f.calls():
            if (callee_skey(t) or "") != "buffertk::varint::v64::unpack_size":
                continue
            ncall += 1
            bf = bf or B.BF(ctx.prog, f)
            pt = P.term_pt(f, b.idx)
            m = re.match(r"^\[(\d+)_usize\]$", t.get("ga") or "")
            sz = int(m.group(1)) if m else None
            why = bf.prove(("c", 10), False, ("len", bf.root(t["args"][0])), pt)
            ctx.check(R + "b", f, "unpack_size-precondition", bool(why) and sz is not None and 1 <= sz <= 10,
                      "unpack_size::<%s> is called with buf.len() >= 10 (%s)" % (sz, why),
                      "unpack_size::<%s> is called without an established buf.len() >= 10: its unchecked buf[SZ - 1] / buf[SZ..] can be out of range" % sz, pt=pt)
    ctx.floor(R + "b", "callers of v64::unpack_size", ncall, 10)
    # the error discipline of the decode path
    K.r_err(ctx, R + "e", audit, RERR_EXC, err_types=re.compile(r"^(handled::SError|buffertk::Error|prototk::Error)$"))


def c153(ctx):
    R = "C15.3"
    ctx.declare(R, "tag packing and wire-type tables agree between encoder and decoder")
    new = ctx.fn(R, "prototk::WireType::new")
    bits = ctx.fn(R, "prototk::WireType::tag_bits")
    if new and bits:
        tn = P.switch_table(new)
        tb = P.switch_table(bits)
        ok = tn is not None and tb is not None
        ctx.check(R, new, "tables-readable", ok, "WireType::new and tag_bits are pure switch tables", "WireType::new / tag_bits are no longer plain match tables")
        if ok:
            variants = {v["name"]: v["discr"] for v in ctx.prog.adts["prototk::WireType"]["variants"]}
            dec = {}
            err_default = False
            for labels, res in tn:
                if labels and labels[0].startswith("sw:") and res[0] == "Ok" and res[1][0] == "variant":
                    dec[int(labels[0][3:])] = res[1][1]
                elif labels and labels[0] == "otherwise":
                    err_default = res[0] == "Err"
            enc = {}
            for labels, res in tb:
                if labels and labels[0].startswith("sw:") and res[0] == "const":
                    name = [n for n, d in variants.items() if d == int(labels[0][3:])]
                    if name:
                        enc[name[0]] = res[1]
            ctx.check(R, new, "inverse", dec and {v: k for k, v in dec.items()} == enc and set(dec) == {0, 1, 2, 5},
                      "decode table %s is the inverse of encode table %s on {0,1,2,5}" % (dec, enc), "WireType::new %s and tag_bits %s are not inverse tables on {0,1,2,5}" % (dec, enc))
            ctx.check(R, new, "others-rejected", err_default, "every other wire-type value is an error", "unknown wire types are not rejected")
            ctx.check(R, bits, "covers-variants", set(enc) == set(variants), "tag_bits covers every WireType variant", "tag_bits does not cover %s" % sorted(set(variants) - set(enc)))
    f = ctx.fn(R, "prototk::Tag::v64")
    if f:
        shl = orr = False
        for b in f.blocks:
            for st in b.st:
                rv = st.get("rv", {})
                if rv.get("r") == "bin" and rv["op"].startswith("Shl"):
                    shl = any(c.get("v") == 3 for c in P.origin_consts(f, rv["b"]))
                if rv.get("r") == "bin" and rv["op"] == "BitOr":
                    orr = True
        ctx.check(R, f, "tag-pack", shl and orr and bool(P.call_points(f, r"prototk::WireType::tag_bits$")), "tag = (field_number << 3) | wire_type.tag_bits()",
                  "Tag::v64 is no longer (field_number << 3) | tag_bits")
    f = ctx.fn(R, "<prototk::Tag as buffertk::Unpackable>::unpack")
    if f:
        shr = msk = False
        for b in f.blocks:
            for st in b.st:
                rv = st.get("rv", {})
                if rv.get("r") == "bin" and rv["op"].startswith("Shr"):
                    shr = shr or any(c.get("v") == 3 for c in P.origin_consts(f, rv["b"]))
                if rv.get("r") == "bin" and rv["op"] == "BitAnd":
                    msk = msk or any(c.get("v") == 7 for c in P.origin_consts(f, rv["b"]))
        fn_new = P.call_points(f, r"prototk::FieldNumber::new$")
        wt_new = P.call_points(f, r"prototk::WireType::new$")
        ctx.check(R, f, "tag-unpack", shr and msk and bool(fn_new) and bool(wt_new), "field number = tag >> 3 (validated by FieldNumber::new), wire type = WireType::new(tag & 7)",
                  "Tag::unpack no longer splits with >> 3 / & 7 through the validating constructors")
        oks = P.ok_points(f)
        for p in oks:
            g = [x for x in K.compare_guards(f, p) if x["op"] == "Gt" and not x["holds"]]
            ctx.check(R, f, "tag-bound", bool(g), "a tag is accepted only if it fits in 32 bits", "the tag > u32::MAX check no longer guards the result", pt=p)
    f = ctx.fn(R, "prototk::FieldNumber::new")
    if f:
        c = ctx.prog.consts
        vals = {k.rsplit("::", 1)[-1]: v.get("v") for k, v in c.items() if k.startswith("prototk::") and k.endswith("FIELD_NUMBER") and "v" in v}
        ctx.check(R, f, "constants", vals == {"FIRST_FIELD_NUMBER": 1, "LAST_FIELD_NUMBER": (1 << 29) - 1, "FIRST_RESERVED_FIELD_NUMBER": 19000, "LAST_RESERVED_FIELD_NUMBER": 19999},
                  "field-number limits are 1, 2^29-1, 19000, 19999", "field-number limits are %s" % vals)
        dvals = {k.rsplit("::", 1)[-1]: v.get("v") for k, v in c.items() if k.startswith("prototk_derive::") and k.endswith("FIELD_NUMBER") and "v" in v}
        if dvals:
            ctx.check(R, f, "derive-constants", dvals == vals, "prototk_derive's copies equal prototk's", "prototk_derive's field-number limits %s differ from prototk's %s" % (dvals, vals))
        oks = P.ok_points(f)
        for p in oks:
            cg = K.compare_guards(f, p)
            lo = any(g["op"] == "Lt" and not g["holds"] and "#FIRST_FIELD_NUMBER" in K.src_names(f, g["b"]) for g in cg)
            hi = any(g["op"] == "Gt" and not g["holds"] and "#LAST_FIELD_NUMBER" in K.src_names(f, g["b"]) for g in cg)
            rs = any(s["k"] == "call" and s["callee"].endswith("::contains") for _bb, lab, ss in K.guards(f, p) for s in ss if lab == "sw:0")
            ctx.check(R, f, "rejects", lo and hi and rs, "Ok only if >= FIRST, <= LAST and outside the reserved range",
                      "FieldNumber::new no longer rejects 0 / too large / reserved (lo=%s hi=%s reserved=%s)" % (lo, hi, rs), pt=p)


CONCRETE_PACK = re.compile(r"^<(.+) as buffertk::Packable>::(pack_sz|pack)$")


def _concrete(f, meth):
    out = set()
    for _b, t in f.calls():
        m = CONCRETE_PACK.match(callee_skey(t) or "")
        if m and m.group(2) == meth:
            out.add(m.group(1))
    return out


def varint_len(v):
    n = 1
    while v >= 0x80:
        v >>= 7
        n += 1
    return n


def c155(ctx):
    """`stack_pack` allocates pack_sz() bytes and pack() fills them; a size that disagrees with what pack writes leaves a gap byte or
    overruns.  Sibling rule over every hand-written Packable impl: each concrete component type whose `pack` the impl's pack calls must
    be sized by the same type's `pack_sz` in the impl's pack_sz.  Where an impl sizes a component itself instead (no delegation), the
    size function is tabulated exactly (piecewise-constant class) and compared with the varint length of what pack writes; anything
    outside that class is reported as undecidable by this rule rather than passed."""
    from blue import pwc
    R = "C15.5"
    ctx.declare(R, "pack_sz sizes exactly the components pack writes")
    impls = {}
    for f in ctx.prog.fns.values():
        if f.impl_trait and f.impl_trait.endswith("buffertk::Packable") and f.name in ("pack_sz", "pack"):
            impls.setdefault((f.crate, f.impl_self), {})[f.name] = f
    n = 0
    for (crate, self_), d in sorted(impls.items(), key=str):
        if "pack" not in d or "pack_sz" not in d:
            continue
        wr, sz = _concrete(d["pack"], "pack"), _concrete(d["pack_sz"], "pack_sz")
        if not wr:
            continue
        n += 1
        if wr <= sz:
            ctx.ok(R, d["pack_sz"], "pack writes %s; pack_sz asks each for its size" % sorted(wr), [])
            continue
        missing = sorted(wr - sz)
        if self_ == "prototk::Tag" and missing == ["buffertk::varint::v64"]:
            try:
                tab = pwc.tabulate(d["pack_sz"], input_call=r"prototk::FieldNumber::get$|prototk::FieldNumber as core::convert::Into")
            except pwc.NotInClass as e:
                ctx.check(R, d["pack_sz"], "tag-size", False, "", "Tag::pack_sz no longer delegates to the varint it packs and cannot be tabulated (%s)" % e)
                continue
            bad = None
            for lo, hi, v in tab:
                lo2, hi2 = max(lo, 1), min(hi, (1 << 29) - 1)
                if lo2 > hi2:
                    continue
                # the varint length of (f << 3 | w) is monotone in f: constant on [lo2, hi2] iff equal at both ends
                if not (isinstance(v, int) and v == varint_len(lo2 << 3) == varint_len((hi2 << 3) | 7)):
                    bad = (lo2, hi2, v)
                    break
            ctx.check(R, d["pack_sz"], "tag-size", bad is None, "Tag::pack_sz equals the varint length of (field_number << 3 | wire type) on every valid field number (tabulated)",
                      "Tag::pack_sz returns %s for field numbers %s..=%s, but the tag pack() writes takes %s..%s bytes there: the packed buffer gets a gap or a short field"
                      % ((bad[2], bad[0], bad[1], varint_len(bad[0] << 3), varint_len((bad[1] << 3) | 7)) if bad else ("", "", "", "", "")))
            continue
        ctx.check(R, d["pack_sz"], "sizes-what-it-writes", False, "",
                  "pack of %s writes %s through their own pack, but pack_sz does not ask them for their size" % (self_, missing))
    ctx.floor(R, "Packable impls that delegate to concrete component types", n, 4)


# ------------------------------------------------------------------------------------------------
# C15.6 presence: a field packer for a value always writes the field (tag and value), whatever the value

def c156(ctx):
    R = "C15.6"
    ctx.declare(R, "a present value is always written: every FieldPackHelper of a leaf type writes the tag on every path of field_pack and counts it "
                   "on every path of field_pack_sz; only the Option / Vec / Box wrappers decide presence")
    n = derived = 0
    for f in sorted(ctx.prog.fns.values(), key=lambda f: f.key):
        if not (f.impl_trait or "").startswith("prototk::FieldPackHelper") or f.name not in ("field_pack", "field_pack_sz"):
            continue
        if f.crate != "prototk":
            derived += 1        # the helper that #[derive(Message)] generates for a message nested in another one
        self_ty = f.impl_self or ""
        wrapper = re.match(r"^(alloc::boxed::Box<F>|alloc::vec::Vec<F>|core::option::Option<F>|alloc::sync::Arc<F>)$", self_ty)
        if wrapper:
            inner = P.call_points(f, r"FieldPackHelper.*::%s$" % f.name)
            ctx.check(R, f, "wrapper-delegates", bool(inner), "%s of %s hands each contained value to the inner packer" % (f.name, self_ty),
                      "%s of %s no longer delegates to the packer of the contained type" % (f.name, self_ty))
            continue
        n += 1
        sp = [p_ for p_ in P.call_points(f, r"buffertk::stack_pack$")
              if any(x["k"] == "param" and x["i"] == 2 for x in P.origins(f, P.term_at(f, p_)["args"][0]))]
        q = P.must_pass(f, sp) if sp else [0]
        ctx.check(R, f, "always-written:" + f.name, bool(sp) and q is None,
                  "%s of %s packs the tag on every path" % (f.name, self_ty),
                  "%s of %s can return without %s the field: a value that happens to equal some default (an empty string, zero) vanishes from "
                  "repeated, optional and enum positions, where absence means something else (the element is dropped, Some becomes None, an enum "
                  "variant packs to nothing)" % (f.name, self_ty, "counting" if f.name == "field_pack_sz" else "writing"),
                  pt=q[-1][1] if q and isinstance(q[-1], tuple) else None, path=q if sp else None)
    ctx.floor(R, "leaf field packers", n - derived, 36)
    ctx.floor(R, "derived nested-message field packers", derived, 20)


# ------------------------------------------------------------------------------------------------
# C15.7 the wire type a field type announces is the wire type of the bytes its Packable writes

def c157(ctx):
    R = "C15.7"
    ctx.declare(R, "every field type announces the wire type of what it writes: fixed four-byte payloads are ThirtyTwo, eight-byte payloads SixtyFour, "
                   "varint payloads Varint (a reader skips or decodes a field by the announced type)")
    wt = ctx.prog.adts.get("prototk::WireType")
    if not wt:
        ctx.violate(R, "prototk::WireType", "anchor", "enum prototk::WireType not found", kind="anchor-missing")
        return
    names = [v["name"] for v in wt["variants"]]
    n = 0
    for ck, c in sorted(ctx.prog.consts.items()):
        m = re.match(r"^<prototk::field_types::(\w+)(?:<'a>)? as prototk::FieldType<'_?a?>>::WIRE_TYPE$", ck)
        if not m or "v" not in c:
            continue
        ty = m.group(1)
        announced = names[c["v"]] if c["v"] < len(names) else "?"
        g = None
        for f in ctx.prog.fns.values():
            if f.crate == "prototk" and f.name == "pack_sz" and (f.impl_trait or "").startswith("buffertk::Packable") and \
                    strip_generics(f.impl_self or "") == "prototk::field_types::" + ty:
                g = f
        if g is None:
            continue
        callees = [callee_skey(t) or "" for _b, t in g.calls()]
        writes = None
        if any("v64" in c_ for c_ in callees):
            writes = "Varint"
        else:
            packed = [str(t.get("ga") or "") for _b, t in g.calls() if (callee_skey(t) or "").endswith("buffertk::stack_pack")]
            if any(re.search(r"[ \[](u32|i32|f32)\]$", x) for x in packed):
                writes = "ThirtyTwo"
            elif any(re.search(r"[ \[](u64|i64|f64)\]$", x) for x in packed):
                writes = "SixtyFour"
        if writes is None:
            continue
        n += 1
        ctx.check(R, g, "wire-type:" + ty, announced == writes, "%s announces %s and writes %s" % (ty, announced, writes),
                  "field type %s announces wire type %s but its Packable writes a %s payload: the tag on the wire promises a different length than "
                  "follows, so the field cannot be decoded by its own type and a reader that does not know it skips the wrong number of bytes" %
                  (ty, announced, writes))
    ctx.floor(R, "scalar field types with a determinable payload", n, 10)
