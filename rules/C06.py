"""C06 — linearizability and batch atomicity: critical-section and completion-order structure."""
import re

from blue import prim as P
from blue.facts import callee_skey, strip_generics
from . import common as K

EXPLANATION = (
    "C06 structural clauses: (C06.1) one critical section of KeyValueStore.state assigns a writer its wait-list position, "
    "sequence number, memtable and log; (C06.2) a writer returns Ok only after log append < memtable insert < waiting to "
    "be head of the wait list < leaving it < notifying the next; (C06.3) readers capture (mem, imm, version, timestamp) "
    "inside one critical section; (C06.4) the flush thread swaps memtables, starts the new log, drains earlier writers "
    "inside one critical section, and clears imm only after the ingest; (C06.5) the field readers use as snapshot "
    "timestamp is advanced only at a point dominated by the writer's memtable insert and head-of-list wait (a completion "
    "watermark), never by the allocation counter.  HELD (lock-guard dataflow), ORDER, GUARDED, WRITES, ORIGIN over MIR.")
NOT_DECIDED = "linearizability over all interleavings (schedules); the rules decide the critical-section and ordering skeleton it needs"
ASSUMPTIONS = ["std::sync::Mutex provides mutual exclusion", "WaitList hands out positions in link order (C18.2)"]

KVS = "lsmtk::kvs::KeyValueStore::"
STATE = "KeyValueStore.state"
ST = r"KeyValueStoreState$"


def rules(ctx):
    c061(ctx)
    c062(ctx)
    c063(ctx)
    c064(ctx)
    c065(ctx)
    c066(ctx)
    from . import C02
    C02.c028(ctx)              # within a batch the last write of a key is the one that becomes visible
    from . import C20
    C20.c203_departures(ctx)   # a failed write hands the head of the wait list on (a writer queued behind it would sleep for ever)


def held_at(ctx, R, f, pts, what, lock=STATE):
    h = P.held(ctx.prog, f)
    for pt in pts:
        ctx.check(R, f, "held:" + what, lock in h.locks_at(pt, must=True), "%s happens with %s held" % (what, lock),
                  "%s is performed without holding %s" % (what, lock), pt=pt)


def true_edge_guard(f, pt, callee_pat):
    """pt is dominated by the edge on which a call matching callee_pat returned true."""
    rx = re.compile(callee_pat)
    for bb, lab, srcs in K.guards(f, pt):
        if not any(s["k"] == "call" and rx.search(s["callee"]) for s in srcs):
            continue
        negs = sum(1 for x in srcs if x["k"] == "un" and x["op"] == "Not")
        true_lab = "sw:1" if negs % 2 == 0 else "sw:0"
        if lab == true_lab:
            return (bb, lab)
    return None


def clone_of_field(f, field):
    return [p for p in P.call_points(f, r"alloc::sync::Arc as core::clone::Clone>::clone$|core::option::Option as core::clone::Clone>::clone$")
            if field in K.arg_field_names(f, p, 0)]


def c061(ctx):
    R = "C06.1"
    ctx.declare(R, "one critical section assigns (queue position, sequence number, memtable, log)")
    f = ctx.fn(R, KVS + "write")
    if not f:
        return
    link = ctx.calls(R, f, r"sync42::wait_list::WaitList::link$")
    seqw = P.field_writes(f, ST, "seq_no")
    ctx.floor(R, "writes to seq_no in write()", len(seqw), 1)
    cm = clone_of_field(f, "mem")
    cl = clone_of_field(f, "mem_log")
    ctx.floor(R, "Arc::clone(state.mem)", len(cm), 1)
    ctx.floor(R, "Arc::clone(state.mem_log)", len(cl), 1)
    ro = ctx.calls(R, f, KVS + "rollover_memtable$")
    for what, pts in (("WaitList::link", link), ("seq_no assignment", seqw), ("clone of state.mem", cm), ("clone of state.mem_log", cl),
                      ("rollover_memtable", ro)):
        held_at(ctx, R, f, pts, what)
    # all in the SAME critical section: no release of the state guard between link and the clones
    h = P.held(ctx.prog, f)
    drops = guard_release_points(ctx, f, STATE)
    for a in link:
        for d in drops:
            for b in cl + cm:
                if P.reach(f, P.after(f, a), [d], avoid={b} | set(P.error_points(f))) is not None and \
                   P.reach(f, P.after(f, d), [b], avoid=set(P.error_points(f))) is not None:
                    ctx.violate(R, f, "section-split", "the state lock is released between taking the queue position and capturing mem/mem_log", pt=d)
    ctx.ok(R, f, "link, seq_no, mem and mem_log are taken without releasing the state lock in between", link + cl)
    # the batch is stamped with the freshly allocated number, before it is logged or inserted
    tsw = P.field_writes(f, r"KeyValuePair$", "timestamp")
    ctx.floor(R, "timestamp stamping", len(tsw), 1)
    ap = P.call_points(f, r"sst::log::ConcurrentLogBuilder::append$")
    mw = P.call_points(f, r"lsmtk::kvs::memtable::MemTable::write$")
    # the stamping loop runs over every entry before the batch is logged or inserted
    head = [p for p in P.call_points(f, r"IterMut as core::iter::traits::iterator::Iterator>::next$") if any(P.reach(f, P.after(f, p), [t]) for t in tsw)]
    ctx.floor(R, "stamping loop", len(head), 1)
    ctx.order_chain(R, f, [("stamping loop over batch.entries", head), ("log append", ap)])
    ctx.order_chain(R, f, [("stamping loop over batch.entries", head), ("MemTable::write", mw)])
    for n in head:
        p = P.reach(f, P.after(f, n), [n], avoid=set(tsw))
        ctx.check(R, f, "stamp-every-entry", p is None, "every iteration of the loop stamps its entry", "an entry can be left unstamped", pt=n, path=p)
        ctx.check(R, f, "stamp-all-entries", ".entries" in K.src_names(f, P.term_at(f, n)["args"][0]), "the loop iterates batch.entries",
                  "the stamping loop does not iterate batch.entries", pt=n)
    for pt in tsw:
        st = f.blocks[pt[0]].st[pt[1]]
        sg = K.sig(f, st["rv"]["a"]) if st["rv"].get("a") else set()
        ctx.check(R, f, "stamp-value", "f:seq_no" in sg, "entries are stamped with the allocated seq_no", "entries are not stamped with the allocated seq_no", pt=pt)
    for pt in seqw:
        st = f.blocks[pt[0]].st[pt[1]]
        srcs, _ = P.value_slice(f, st["rv"]["a"]) if st["rv"].get("a") else ([], set())
        ok = any(s["k"] == "bin" and s["op"].startswith("Add") for s in srcs) and any(s["k"] == "field" and s["f"] == "seq_no" for s in srcs) \
            and any(s["k"] == "const" and s.get("v") == 1 for s in srcs)
        ctx.check(R, f, "seq-monotone", ok, "seq_no is advanced as seq_no + 1 (monotone counter)", "seq_no is not advanced by incrementing itself", pt=pt)


def guard_release_points(ctx, f, lock):
    """Points that end a critical section of `lock`: Drop terminators / mem::drop of its guard locals."""
    h = P.held(ctx.prog, f)
    gl = {g for g in h.guards if h.lock_id_of_local(g) == lock}
    out = []
    for b in f.blocks:
        t = b.term
        if t["t"] == "drop" and not t["pl"]["p"] and t["pl"]["l"] in gl:
            out.append(P.term_pt(f, b.idx))
        elif t["t"] == "call" and (callee_skey(t) or "").endswith("mem::drop"):
            if any(a.get("k") == "move" and not a["pl"]["p"] and a["pl"]["l"] in gl for a in t["args"]):
                out.append(P.term_pt(f, b.idx))
    return out


def c062(ctx):
    R = "C06.2"
    ctx.declare(R, "writers complete in queue order: append < insert < wait-for-head < unlink < notify < Ok")
    f = ctx.fn(R, KVS + "write")
    if not f:
        return
    ap = ctx.calls(R, f, r"sst::log::ConcurrentLogBuilder::append$")
    mw = ctx.calls(R, f, r"lsmtk::kvs::memtable::MemTable::write$")
    ih = ctx.calls(R, f, r"sync42::wait_list::WaitGuard::is_head$")
    dr = [p for p in P.call_points(f, r"core::mem::drop$") if any("WaitGuard" in f.locals[a["pl"]["l"]] for a in P.term_at(f, p)["args"] if a.get("k") in ("move", "copy"))]
    ctx.floor(R, "drop(wait_guard)", len(dr), 1)
    nh = ctx.calls(R, f, r"sync42::wait_list::WaitList::notify_head$")
    oks = P.ok_points(f)
    ctx.order_chain(R, f, [("ConcurrentLogBuilder::append", ap), ("MemTable::write", mw), ("is_head wait loop", ih),
                           ("drop(wait_guard)", dr), ("notify_head", nh), ("Ok(())", oks)])
    for pt in dr:
        g = true_edge_guard(f, pt, r"WaitGuard::is_head$")
        ctx.check(R, f, "leave-as-head", g is not None, "the wait loop is left only on the is_head() == true edge",
                  "a writer can leave the wait list without being its head", pt=pt)
    nw = ctx.calls(R, f, r"sync42::wait_list::WaitGuard::naked_wait$")
    held_at(ctx, R, f, ih + nw, "is_head / naked_wait")
    # the inserted memtable and log are the ones captured under the lock
    for pt in mw:
        ctx.check(R, f, "insert-captured-mem", "mem" in K.arg_field_names(f, pt, 0), "the batch is inserted into the memtable captured under the lock",
                  "the batch is inserted into a memtable other than the one captured under the lock", pt=pt)
    for pt in ap:
        ctx.check(R, f, "append-captured-log", "mem_log" in K.arg_field_names(f, pt, 0), "the batch is appended to the log captured under the lock",
                  "the batch is appended to a log other than the one captured under the lock", pt=pt)


def c063(ctx):
    R = "C06.3"
    ctx.declare(R, "readers capture their snapshot (mem, imm, version, timestamp) atomically")
    for key in (KVS + "load", KVS + "range_scan"):
        f = ctx.fn(R, key)
        if not f:
            continue
        cm = clone_of_field(f, "mem")
        ci = clone_of_field(f, "imm")
        ts = ctx.calls(R, f, r"lsmtk::tree::LsmTree::take_snapshot$")
        ctx.floor(R, f.skey + " clone(state.mem)", len(cm), 1)
        ctx.floor(R, f.skey + " clone(state.imm)", len(ci), 1)
        held_at(ctx, R, f, cm, "clone of state.mem")
        held_at(ctx, R, f, ci, "clone of state.imm")
        held_at(ctx, R, f, ts, "take_snapshot")
        # the timestamp is read from the state under the lock
        rd = [p for p in P.field_reads(f, ST, READ_TS_FIELD[0]) ] if READ_TS_FIELD else []
        tsr = ts_field_reads(f)
        ctx.floor(R, f.skey + " timestamp read", len(tsr), 1)
        held_at(ctx, R, f, [p for p, _ in tsr], "read of the snapshot timestamp")
        # every component is read at that one timestamp: mem, imm and the tree (and the scan's pruning stage) all receive the
        # value read from the state, never a constant or another value ("imm is frozen, read it unpruned" is wrong: writers
        # that already hold the memtable keep inserting after it became imm)
        consumers = P.call_points(f, r"lsmtk::kvs::memtable::MemTable::load$|lsmtk::tree::VersionRef::load$|sst::pruning_cursor::PruningCursor::new$")
        ts_fields = {fld for _p, fld in tsr}
        for c in consumers:
            t = P.term_at(f, c)
            idx = 2 if (callee_skey(t) or "").endswith("::load") else 1
            srcs = [s_ for s_ in P.origins(f, t["args"][idx]) if s_["k"] in ("field", "const", "call", "param")]
            from_state = [s_ for s_ in srcs if s_["k"] == "field" and re.search(ST, s_["owner"]) and s_["f"] in ts_fields]
            other = [s_ for s_ in srcs if s_["k"] == "const" or (s_["k"] == "call" and not P.TRANSPARENT.search(s_["callee"]) and
                                                                  not re.search(r"(Mutex|RwLock).*::(lock|read|write)$", s_["callee"]))]
            ctx.check(R, f, "same-timestamp", bool(from_state) and not other,
                      "%s reads at the snapshot timestamp" % P.short(callee_skey(t)),
                      "%s is not read at the snapshot timestamp (its timestamp comes from %s): entries of batches that are not yet visible -- "
                      "writers still inserting into a memtable that has just become imm -- are returned" % (
                          P.short(callee_skey(t)), sorted({s_["k"] + ":" + str(s_.get("v", s_.get("named", s_.get("callee", "")))) for s_ in other}) or "nowhere"), pt=c)
        # and no point-read entry of the memtable is used that takes no timestamp at all
        if key.endswith("::load"):
            for c in P.call_points(f, r"^lsmtk::kvs::memtable::MemTable::[a-z_0-9]+$"):
                t = P.term_at(f, c)
                if (callee_skey(t) or "").endswith(("::approximate_size", "::load")):
                    continue
                carries = any(s_["k"] == "field" and re.search(ST, s_["owner"]) and s_["f"] in ts_fields for a in t["args"][1:] for s_ in P.origins(f, a))
                ctx.check(R, f, "same-timestamp", carries, "%s reads at the snapshot timestamp" % P.short(callee_skey(t)),
                          "%s is handed no snapshot timestamp: a memtable -- also the immutable one, which writers that already hold it keep "
                          "inserting into -- contains entries of batches that are not yet visible" % P.short(callee_skey(t)), pt=c)
        # one critical section: exactly one acquisition of the state lock
        locks = P.call_points(f, r"Mutex.*::lock$", arg_pred=K.recv_is_field("state"))
        ctx.check(R, f, "single-section", len(locks) == 1, "the snapshot is taken in a single critical section",
                  "the snapshot is assembled across %d acquisitions of the state lock" % len(locks))


READ_TS_FIELD = []


def ts_field_reads(f):
    """(point, field) of reads of KeyValueStoreState.<u64 field> whose value flows into the `timestamp`
    argument of MemTable::load / range_scan or VersionRef::load / range_scan."""
    out = []
    consumers = P.call_points(f, r"lsmtk::kvs::memtable::MemTable::load$|lsmtk::tree::VersionRef::load$|sst::pruning_cursor::PruningCursor::new$")
    fields = set()
    for c in consumers:
        t = P.term_at(f, c)
        idx = 2 if (callee_skey(t) or "").endswith("::load") else 1
        if idx >= len(t["args"]):
            continue
        for s in P.origins(f, t["args"][idx]):
            if s["k"] == "field" and re.search(ST, s["owner"]):
                fields.add(s["f"])
    for fld in fields:
        for p in P.field_reads(f, ST, fld):
            out.append((p, fld))
    return out


def reader_timestamp_fields(ctx, R):
    fields = set()
    for key in (KVS + "load", KVS + "range_scan"):
        f = ctx.fn(R, key)
        if f:
            fields |= {fld for _p, fld in ts_field_reads(f)}
    return fields


def c064(ctx):
    R = "C06.4"
    ctx.declare(R, "memtable rollover hands off inside one critical section and retires imm only after its ingest")
    f = ctx.fn(R, KVS + "_memtable_thread")
    if not f:
        return
    w_imm = P.field_writes(f, ST, "imm")
    w_mem = P.field_writes(f, ST, "mem")
    w_log = P.field_writes(f, ST, "mem_log")
    w_msn = P.field_writes(f, ST, "mem_seq_no")
    w_seq = P.field_writes(f, ST, "seq_no")
    ctx.floor(R, "writes to state.imm", len(w_imm), 2)

    def is_none(pt):
        if pt[1] >= len(f.blocks[pt[0]].st):
            return False
        rv = f.blocks[pt[0]].st[pt[1]]["rv"]
        if rv.get("r") == "agg":
            return rv.get("variant") == "None"
        vs = {s.get("variant") for s in P.origins(f, rv.get("a")) if s["k"] == "agg" and s.get("adt", "").endswith("option::Option")}
        return vs == {"None"}
    imm_some = [p for p in w_imm if not is_none(p)]
    imm_none = [p for p in w_imm if is_none(p)]
    link = ctx.calls(R, f, r"sync42::wait_list::WaitList::link$")
    ih = ctx.calls(R, f, r"sync42::wait_list::WaitGuard::is_head$")
    dr = [p for p in P.call_points(f, r"core::mem::drop$") if any("WaitGuard" in f.locals[a["pl"]["l"]] for a in P.term_at(f, p)["args"] if a.get("k") in ("move", "copy"))]
    # the hand-off is failure-atomic: once the first of the rollover's state writes has happened, nothing can fail before the section is
    # complete (the thread has linked into the wait list) -- an error in between leaves `mem`, `mem_log` and `imm` unpaired, and a
    # restarted flush thread then overwrites the immutable memtable that still holds acknowledged writes
    swap_writes = [p for p in imm_some + w_mem + w_log + w_msn if any(not P.order(f, [p], [l_]) for l_ in link)]
    errs = P.error_points(f)
    for p in swap_writes:
        q = P.reach(f, P.after(f, p), errs, avoid=set(link))
        ctx.check(R, f, "handoff-failure-atomic", q is None, "no error exit lies between the rollover's state writes and the end of the hand-off",
                  "_memtable_thread can fail (return an error) after it has begun to rewrite the store state and before the hand-off is complete: "
                  "the memtable, its log and the immutable memtable are left unpaired; when the flush thread is started again it replaces the "
                  "immutable memtable, and writes acknowledged before the failure are no longer readable", pt=p, path=q)
    tu = ctx.calls(R, f, r"alloc::sync::Arc.*::try_unwrap$")
    seal = ctx.calls(R, f, r"sst::log::ConcurrentLogBuilder::seal$")
    ing = ctx.calls(R, f, r"lsmtk::tree::LsmTree::_ingest$")
    for what, pts in (("state.imm = Some(mem)", imm_some), ("state.mem = new", w_mem), ("state.mem_log = new", w_log),
                      ("state.mem_seq_no", w_msn), ("state.seq_no bump", w_seq), ("WaitList::link", link), ("is_head wait", ih)):
        if not pts:
            ctx.violate(R, f, "missing:" + what, "no site for %s" % what, kind="below-floor")
        held_at(ctx, R, f, pts, what)
    ctx.order_chain(R, f, [("state.imm = Some(old mem)", imm_some), ("state.mem = new memtable", w_mem), ("state.mem_log = new log", w_log),
                           ("WaitList::link", link), ("is_head wait loop", ih), ("drop(wait_guard)", dr),
                           ("Arc::try_unwrap(imm_log)", tu), ("ConcurrentLogBuilder::seal", seal)], cycles=False)
    for pt in dr:
        g = true_edge_guard(f, pt, r"WaitGuard::is_head$")
        ctx.check(R, f, "drained", g is not None, "the flush thread proceeds only once it is head of the wait list (all earlier writers finished)",
                  "the flush thread can seal the log while earlier writers are still in flight", pt=pt)
    # one critical section from the swap to the drain
    drops = guard_release_points(ctx, f, STATE)
    split = []
    for a in imm_some:
        for d in drops:
            if P.reach(f, P.after(f, a), [d], avoid=set(dr) | set(P.error_points(f))) is not None:
                split.append(d)
    if split:
        print("DEBUG split", split, P.path_text(f, P.reach(f, P.after(f, imm_some[0]), [split[0]], avoid=set(dr) | set(P.error_points(f)))))
    ctx.check(R, f, "one-section", not split, "the state lock is not released between the memtable swap and the drain of earlier writers",
              "the state lock is released between the memtable swap and the drain", pt=split[0] if split else None)
    # imm is cleared only after the ingest, under the lock
    ctx.order_chain(R, f, [("LsmTree::_ingest", ing), ("state.imm = None", imm_none)], cycles=True)
    held_at(ctx, R, f, imm_none, "state.imm = None")
    # what becomes imm is the memtable that was mem, and its log is the one that gets sealed
    for pt in imm_some:
        st = f.blocks[pt[0]].st[pt[1]]
        o = st["rv"]["ops"][0] if st["rv"].get("ops") else st["rv"].get("a")
        ctx.check(R, f, "imm-is-old-mem", "mem" in {n for (_o, n) in P.origin_fields(f, o)},
                  "state.imm takes the previous state.mem", "state.imm is not set to the previous memtable", pt=pt)
    for pt in tu:
        ctx.check(R, f, "seal-old-log", "mem_log" in K.arg_field_names(f, pt, 0), "the log that is unwrapped and sealed is the previous state.mem_log",
                  "the sealed log is not the previous mem_log", pt=pt)
    # writers' rollover hook: the trigger is set and announced under the lock
    g = ctx.fn(R, KVS + "rollover_memtable")
    if g:
        wt = P.field_writes(g, ST, "imm_trigger")
        no = ctx.calls(R, g, r"Condvar::notify_(one|all)$", arg_pred=K.recv_is_field("cnd_needs_memtable_flush"), what="cnd_needs_memtable_flush.notify")
        ctx.order_chain(R, g, [("imm_trigger = ..", wt), ("cnd_needs_memtable_flush.notify", no)])
        held_at(ctx, R, g, wt + no, "imm_trigger update / notify")


def c065(ctx):
    R = "C06.5"
    ctx.declare(R, "the readers' snapshot timestamp is a completion watermark: it advances only after the batch is in the memtable and at the head of the wait list")
    fields = reader_timestamp_fields(ctx, R)
    ctx.check(R, "lsmtk::kvs::KeyValueStore", "timestamp-field", len(fields) == 1,
              "load and range_scan take their timestamp from one state field: %s" % sorted(fields),
              "readers take their timestamp from %s" % sorted(fields))
    # at open everything that survived is complete: the snapshot starts at the allocation counter, which lies above every timestamp of the
    # tree and of the replayed logs -- not below it (the counter's own derivation, max with tree.max_timestamp(), has no `+ 1` on that arm)
    o = ctx.fn(R, KVS + "open")
    if o and fields:
        aggs = [(b.idx, i) for b in o.blocks for i, st in enumerate(b.st) if st["s"] == "=" and st["rv"].get("r") == "agg"
                and (st["rv"].get("adt") or "").endswith("kvs::KeyValueStoreState")]
        ctx.floor(R, "KeyValueStore::open: state constructions", len(aggs), 1)
        for pt in aggs:
            rv = o.blocks[pt[0]].st[pt[1]]["rv"]
            for fld in sorted(fields):
                if fld not in rv["fields"]:
                    continue
                op = rv["ops"][rv["fields"].index(fld)]
                sl, _ = P.value_slice(o, op)
                from_tree = any(x["k"] == "call" and x["callee"].endswith("LsmTree::max_timestamp") for x in sl)
                lowered = any(x["k"] == "bin" and x["op"].startswith("Sub") for x in sl)
                same_as_counter = "seq_no" in rv["fields"] and K.root_local(o, op) is not None and \
                    K.root_local(o, op) == K.root_local(o, rv["ops"][rv["fields"].index("seq_no")])
                ctx.check(R, o, "open-snapshot-covers-recovered", from_tree and not lowered and same_as_counter,
                          "at open the readers' snapshot is the allocation counter (which is at least tree.max_timestamp())",
                          "KeyValueStore::open starts the readers' snapshot (%s) below or apart from the allocation counter: a read issued before the first "
                          "write of this incarnation misses the newest recovered batch (when it lives only in the tree, mem_seq_no equals its timestamp)" % fld, pt=pt)
    f = ctx.fn(R, KVS + "write")
    if not f or not fields:
        return
    mw = P.call_points(f, r"lsmtk::kvs::memtable::MemTable::write$")
    ih = P.call_points(f, r"sync42::wait_list::WaitGuard::is_head$")
    n = 0
    for fld in sorted(fields):
        for pt in P.field_writes(f, ST, fld):
            n += 1
            bad = P.order(f, mw, [pt])
            g = true_edge_guard(f, pt, r"WaitGuard::is_head$")
            if bad or g is None:
                ctx.violate(R, f, "advance %s before completion" % fld,
                            "the field readers use as snapshot timestamp (state.%s) is advanced before the batch is in the memtable and "
                            "at the head of the wait list: a concurrent scan's timestamp can include an in-flight batch and observe "
                            "only part of it" % fld, pt=pt, path=bad[0][1] if bad else None)
            else:
                ctx.ok(R, f, "state.%s advances only after MemTable::write and the head-of-list wait" % fld, [pt])
    # a writer must advance the watermark before acknowledging (read-your-writes)
    if n == 0:
        ctx.violate(R, f, "no-advance", "write() never advances the readers' timestamp field %s: acknowledged writes would stay invisible" % sorted(fields))
    else:
        for fld in sorted(fields):
            w = P.field_writes(f, ST, fld)
            p = P.must_pass(f, w)
            ctx.check(R, f, "advance-before-ack", p is None, "every Ok return of write() has advanced state.%s" % fld,
                      "write() can acknowledge without making the batch visible to readers", path=p)
            held_at(ctx, R, f, w, "advance of state.%s" % fld)
    # no other function lowers or rewinds it
    for g in ctx.prog.fns.values():
        if g.crate != "lsmtk" or g.skey == f.skey:
            continue
        for fld in fields:
            for pt in P.field_writes(g, ST, fld):
                ok = g.skey in (KVS + "_memtable_thread",) or g.skey.endswith("KeyValueStore::open")
                ctx.check(R, g, "other-writer", ok, "state.%s is also written by %s (rollover bump / open)" % (fld, g.skey),
                          "state.%s is written by %s" % (fld, g.skey), pt=pt)


# ------------------------------------------------------------------------------------------------
# C06.6 the memtable: every entry of a batch is inserted; a read seeks (key, timestamp) and answers for that key only

def c066(ctx):
    R = "C06.6"
    ctx.declare(R, "the memtable stores every entry of a batch under (key, timestamp) and a timestamped read answers with the first version "
                   "at or below the timestamp of exactly the key asked for; versions of a key sort newest first")
    MT = "lsmtk::kvs::memtable::MemTable::"
    f = ctx.fn(R, MT + "write")
    if f:
        heads = [h for h in P.call_points(f, r"Iterator>::next$") if P.reach(f, P.after(f, h), [h])]
        ins = ctx.calls(R, f, r"skipfree::SkipList.*::insert$")
        ctx.floor(R, "MemTable::write entry loop", len(heads), 1)
        for h in heads:
            q = P.reach(f, P.after(f, h), [h], avoid=set(ins))
            ctx.check(R, f, "every-entry-inserted", q is None, "every entry of the batch is inserted into the skiplist", "an entry of the batch can be skipped", pt=h, path=q)
        for pt in ins:
            t = P.term_at(f, pt)
            k_ok = any(s_["k"] == "call" and re.search(r"sst::Key as core::convert::From.*>::from$|::from$", s_["callee"]) for s_ in P.origins(f, t["args"][1]))
            v_ok = any(s_["k"] == "field" and s_["f"] == "value" for s_ in P.origins(f, t["args"][2]))
            ctx.check(R, f, "insert-operands", k_ok and v_ok, "inserted as (Key::from(entry), entry.value)", "the skiplist entry is not (Key::from(entry), entry.value)", pt=pt)
    f = ctx.fn(R, MT + "load")
    pmap = {2: 2, 3: 3, 4: 4}       # parameter of the function that holds the lookup -> parameter of MemTable::load (self, key, timestamp, is_tombstone)
    f0, keyagg = f, {}              # MemTable::load itself; helper parameter -> the Key aggregate MemTable::load passes for it
    if f and not P.call_points(f, r"skipfree::SkipListIterator.*::seek$"):
        # the lookup lives in a helper of the memtable: follow the call that carries key and timestamp (separately, or as one Key)
        for c in P.call_points(f, r"^lsmtk::kvs::memtable::"):
            t = P.term_at(f, c)
            for k_ in ctx.prog.targets(t):
                g = ctx.prog.fns.get(k_)
                if g is None or not P.call_points(g, r"skipfree::SkipListIterator.*::seek$"):
                    continue
                m = {}
                for i, a in enumerate(t["args"]):
                    srcs = P.origins(f, a)
                    ps = {s_["i"] for s_ in srcs if s_["k"] == "param"}
                    ag = [s_ for s_ in srcs if s_["k"] == "agg" and s_.get("adt", "").endswith("sst::Key")]
                    if ag:
                        keyagg[i + 1] = ag
                    elif len(ps) == 1:
                        m[i + 1] = ps.pop()
                if 4 in set(m.values()) and ({2, 3} <= set(m.values()) or keyagg):
                    f, pmap = g, m
                break
    if f:
        inv = {v: k for k, v in pmap.items()}
        sk = ctx.calls(R, f, r"skipfree::SkipListIterator.*::seek$")

        def agg_ok(fn, a, kparam, tparam):
            rv = a["st"]["rv"]
            fk = rv["ops"][rv["fields"].index("key")]
            ft = rv["ops"][rv["fields"].index("timestamp")]
            return any(s_["k"] == "param" and s_["i"] == kparam for s_ in P.origins(fn, fk)) and any(s_["k"] == "param" and s_["i"] == tparam for s_ in P.origins(fn, ft))
        for pt in sk:
            t = P.term_at(f, pt)
            srcs = P.origins(f, t["args"][1])
            aggs = [s_ for s_ in srcs if s_["k"] == "agg" and s_.get("adt", "").endswith("sst::Key")]
            ok = any(agg_ok(f, a, inv.get(2), inv.get(3)) for a in aggs)
            for s_ in srcs:
                if s_["k"] == "param" and s_["i"] in keyagg:
                    ok = ok or any(agg_ok(f0, a, 2, 3) for a in keyagg[s_["i"]])
            ctx.check(R, f, "seek-target", ok, "the iterator is positioned at Key { key, timestamp } of the request", "MemTable::load does not seek to (key, timestamp) of the request", pt=pt)
        # Some(value) is produced only when the iterator is valid and stands on the requested key
        vals = P.call_points(f, r"Option.*Clone>::clone$|core::clone::Clone::clone$")
        vals = [p_ for p_ in vals if any(s_["k"] == "call" and s_["callee"].endswith("SkipListIterator::value") for s_ in P.origins(f, P.term_at(f, p_)["args"][0]))]
        ctx.floor(R, "MemTable::load value hand-out", len(vals), 1)
        for p_ in vals:
            valid = K.guarded_by_call(f, p_, r"SkipListIterator.*::is_valid$", label="sw:1")
            eq = [1 for bb, lab, srcs in K.guards(f, p_) if (lab == "sw:1" and any(s_["k"] == "call" and re.search(r"::eq$", s_["callee"]) for s_ in srcs)) or
                  (lab == "sw:0" and any(s_["k"] == "call" and re.search(r"::ne$", s_["callee"]) for s_ in srcs))]     # `a == b` taken, or `a != b` not taken
            ctx.check(R, f, "hit-test", valid is not None and bool(eq), "a value is handed out only when the iterator is valid and its key equals the requested key",
                      "MemTable::load hands out the value of whatever entry the seek landed on", pt=p_)
        tw = [w for b in f.blocks for w in [(b.idx, i) for i, st in enumerate(b.st) if st["s"] == "=" and st["lhs"]["l"] == inv.get(4) and "*" in st["lhs"]["p"]]]
        ctx.check(R, f, "tombstone-flag", bool(tw), "the tombstone flag is reported through the out-parameter", "MemTable::load no longer reports tombstones")
    f = ctx.fn(R, "<lsmtk::kvs::memtable::SkipListIteratorWrapper as sst::Cursor>::seek")
    if f:
        for pt in ctx.calls(R, f, r"skipfree::SkipListIterator.*::seek$"):
            aggs = [s_ for s_ in P.origins(f, P.term_at(f, pt)["args"][1]) if s_["k"] == "agg" and s_.get("adt", "").endswith("sst::Key")]
            ok = False
            for a in aggs:
                rv = a["st"]["rv"]
                ft = rv["ops"][rv["fields"].index("timestamp")]
                ok = any(s_["k"] == "const" and (s_.get("v") == (1 << 64) - 1 or "MAX" in str(s_.get("named", ""))) for s_ in P.origins(f, ft))
            ctx.check(R, f, "seek-newest", ok, "a cursor seek targets (key, u64::MAX): the newest version of the key sorts first", "the memtable cursor's seek does not target the newest version", pt=pt)
    f = ctx.fn(R, "<sst::KeyRef as core::cmp::Ord>::cmp")
    if f:
        rev = ctx.calls(R, f, r"core::cmp::Ordering::reverse$")
        then = ctx.calls(R, f, r"core::cmp::Ordering::then$")
        def cmp_of(op, field, depth=0):
            """(the operand is cmp() of the two sides' `field`, number of Ordering::reverse applied on the way)"""
            for s_ in P.origins(f, op):
                if s_["k"] != "call":
                    continue
                ck = s_["callee"]
                if ck.endswith("Ordering::reverse") and depth < 3:
                    r_ = cmp_of(s_["t"]["args"][0], field, depth + 1)
                    if r_ is not None:
                        return r_ + 1
                if re.search(r"::cmp$", ck) and len(s_["t"]["args"]) == 2:
                    if all(any(x["k"] == "field" and x["f"] == field for x in P.origins(f, a_)) for a_ in s_["t"]["args"]):
                        lhs_self = any(x["k"] == "param" and x["i"] == 1 for x in P.origins(f, s_["t"]["args"][0]))
                        return 0 if lhs_self else 1      # cmp(rhs, self) is one reversal
            return None
        ok = False
        for pt in then:
            t = P.term_at(f, pt)
            first, second = cmp_of(t["args"][0], "key"), cmp_of(t["args"][1], "timestamp")
            ok = first == 0 and second is not None and second % 2 == 1
        ctx.check(R, f, "key-then-newest-first", ok, "entries order by key ascending, then timestamp descending (newest version first)",
                  "KeyRef::cmp no longer orders versions of a key newest first: a seek to (key, t) lands on an older or newer version than the newest <= t")
