"""Rule helpers shared by several properties: receiver/argument origins, guard queries,
the error-discipline rule (R-ERR) and the explicit-panic audit."""
import re

from blue import prim as P
from blue.facts import callee_skey, strip_generics

STORE_CRATES = ("lsmtk", "sst", "mani", "utilz")


def arg_fields(fn, pt, i=0):
    t = P.term_at(fn, pt)
    if i >= len(t["args"]):
        return set()
    return P.origin_fields(fn, t["args"][i])


def arg_field_names(fn, pt, i=0):
    return {f for (_o, f) in arg_fields(fn, pt, i)}


def arg_calls(fn, pt, i=0):
    t = P.term_at(fn, pt)
    if i >= len(t["args"]):
        return set()
    return P.origin_calls(fn, t["args"][i])


def arg_consts(fn, pt, i):
    t = P.term_at(fn, pt)
    if i >= len(t["args"]):
        return []
    return P.origin_consts(fn, t["args"][i])


def recv_is_field(field):
    def pred(fn, t):
        return bool(t["args"]) and field in {f for (_o, f) in P.origin_fields(fn, t["args"][0])}
    return pred


def arg_from_call(i, pat):
    rx = re.compile(pat)

    def pred(fn, t):
        return i < len(t["args"]) and any(rx.search(c) for c in P.origin_calls(fn, t["args"][i]))
    return pred


def const_arg(i, value):
    def pred(fn, t):
        if i >= len(t["args"]):
            return False
        return any(c.get("v") == value for c in P.origin_consts(fn, t["args"][i]))
    return pred


def cond_sources(fn, bb):
    return P.switch_cond_sources(fn, bb)


def cond_calls(fn, bb):
    return {s["callee"] for s in cond_sources(fn, bb) if s["k"] == "call"}


def cond_bin_ops(fn, bb):
    return [s for s in cond_sources(fn, bb) if s["k"] == "bin"]


def guards(fn, pt):
    """[(switch block, label, sources)] of switch edges dominating pt."""
    return [(bb, lab, cond_sources(fn, bb)) for (bb, lab) in P.guards_of(fn, pt)]


def guarded_by_call(fn, pt, callee_pat, label=None, recv_field=None):
    """Is pt dominated by an edge of a switch on the result of a call matching callee_pat
    (optionally: the given edge label, the call's receiver originating in recv_field)?"""
    rx = re.compile(callee_pat)
    for bb, lab, srcs in guards(fn, pt):
        if label is not None and lab != label:
            continue
        for s in srcs:
            if s["k"] == "call" and rx.search(s["callee"]):
                if recv_field is None:
                    return (bb, lab)
                if recv_field in {f for (_o, f) in P.origin_fields(fn, s["t"]["args"][0])}:
                    return (bb, lab)
    return None


def ty_args(ty):
    """Top-level generic arguments of a type string `a::B<X, Y<Z>>` -> ['X', 'Y<Z>']."""
    i = ty.find("<")
    if i < 0 or not ty.endswith(">"):
        return []
    inner = ty[i + 1:-1]
    out = []
    depth = 0
    cur = ""
    for j, c in enumerate(inner):
        if c in "<([":
            depth += 1
        elif c in ">)]" and not (c == ">" and j > 0 and inner[j - 1] == "-"):
            depth -= 1
        if c == "," and depth == 0:
            out.append(cur.strip())
            cur = ""
        else:
            cur += c
    if cur.strip():
        out.append(cur.strip())
    return out


def result_err(ty):
    if ty.startswith("core::result::Result<"):
        a = ty_args(ty)
        if len(a) == 2:
            return a[1]
    return None


# error types whose loss is a storage-layer error loss
ERR_TYPES = re.compile(r"^(handled::SError|std::io::error::Error|buffertk::Error|prototk::Error|mani::Error|"
                       r"sst::Error|lsmtk::Error|utilz::\w+::Error|std::io::Error)$")

DISCARDERS = re.compile(r"core::result::Result::(ok|unwrap_or|unwrap_or_default|unwrap_or_else|is_ok|is_err|err|iter|into_iter)$")
PANICKERS = re.compile(r"core::result::Result::(unwrap|expect|unwrap_err|expect_err)$")


def local_uses(fn, l):
    """Every use of local l: ('operand', pt, term-or-stmt, argidx) / ('ref', pt, st) / ('discr', pt, st) / ('drop', pt)."""
    uses = []
    for b in fn.blocks:
        for i, st in enumerate(b.st):
            if st["s"] != "=":
                continue
            rv = st["rv"]
            pt = (b.idx, i)
            for kk in ("a", "b"):
                o = rv.get(kk)
                if isinstance(o, dict) and o.get("k") in ("copy", "move") and o["pl"]["l"] == l:
                    uses.append(("operand", pt, st, kk))
            for j, o in enumerate(rv.get("ops", ())):
                if o.get("k") in ("copy", "move") and o["pl"]["l"] == l:
                    uses.append(("operand", pt, st, j))
            if "pl" in rv and rv["pl"]["l"] == l:
                uses.append(("discr" if rv["r"] == "discr" else "ref", pt, st, None))
            # writes through projections of l are not uses of the value
        t = b.term
        pt = P.term_pt(fn, b.idx)
        if t["t"] == "call":
            for j, a in enumerate(t["args"]):
                if a.get("k") in ("copy", "move") and a["pl"]["l"] == l:
                    uses.append(("arg", pt, t, j))
        elif t["t"] == "drop":
            if t["pl"]["l"] == l:
                uses.append(("drop", pt, t, None))
        elif t["t"] == "switch":
            o = t["discr"]
            if o.get("k") in ("copy", "move") and o["pl"]["l"] == l:
                uses.append(("switch", pt, t, None))
    return uses


def r_err(ctx, rule, fns, exceptions=None, err_types=ERR_TYPES):
    """Error discipline: every call returning Result<_, E> (E a storage error type) in `fns` has its
    result used — not dropped unused, not fed to ok()/unwrap_or*(), not unwrapped into a panic.
    exceptions: {(fn skey, construct): why}."""
    exceptions = exceptions or {}
    n_sites = 0
    used_exc = set()
    for fn in fns:
        for b, t in fn.calls():
            d = t["dest"]
            if d["p"] or d["l"] == 0:
                continue   # stored into a place / returned directly
            e = result_err(fn.locals[d["l"]])
            if e is None or not err_types.match(strip_generics(e)):
                continue
            ck = callee_skey(t) or "indirect"
            if PANICKERS.search(ck) or DISCARDERS.search(ck):
                continue
            n_sites += 1
            pt = P.term_pt(fn, b.idx)
            uses = local_uses(fn, d["l"])
            real = [u for u in uses if u[0] != "drop"]
            construct = None
            msg = None
            if not real:
                construct = "discard %s" % P.short(ck)
                msg = "the Result of %s is dropped without being examined (error lost)" % P.short(ck)
            else:
                for u in real:
                    if u[0] == "arg" and u[3] == 0:
                        uk = callee_skey(u[2]) or ""
                        if PANICKERS.search(uk):
                            construct = "%s(%s)" % (uk.rsplit("::", 1)[-1], P.short(ck))
                            msg = "the error of %s is turned into a panic by .%s()" % (P.short(ck), uk.rsplit("::", 1)[-1])
                        elif DISCARDERS.search(uk):
                            # is_ok/is_err feeding a branch is handling; ok()/unwrap_or*() discard
                            name = uk.rsplit("::", 1)[-1]
                            if name in ("is_ok", "is_err"):
                                continue
                            if name.startswith("unwrap_or") and ck.endswith("::stream_position"):
                                continue   # accepted idiom: best-effort offset inside error construction
                            construct = "%s(%s)" % (name, P.short(ck))
                            msg = "the error of %s is discarded by .%s()" % (P.short(ck), name)
            if construct:
                why = exceptions.get((fn.skey, construct))
                if why:
                    used_exc.add((fn.skey, construct))
                    ctx.exception(rule, fn.skey, construct, why)
                    ctx.ok(rule, fn, "excepted: %s (%s)" % (construct, why), [pt])
                else:
                    ctx.violate(rule, fn, construct, msg, pt=pt)
            else:
                ctx.ok(rule, fn, "result of %s is propagated or handled" % P.short(ck), [pt])
    # errors discarded *wholesale*: an error-dropping function passed as a value (`.map_while(Result::ok)`,
    # `.filter_map(Result::ok)`), an error-dropping method applied to a Result that is not a local call result (a closure
    # parameter: `.filter_map(|l| l.ok())`), or an iterator of io::Result flattened (`lines().flatten()`)
    for fn in fns:
        examined = set()
        for b, t in fn.calls():
            d = t["dest"]
            if not d["p"] and d["l"] != 0 and result_err(fn.locals[d["l"]]) is not None:
                examined.add(d["l"])
        for b, t in fn.calls():
            pt = P.term_pt(fn, b.idx)
            ck = callee_skey(t) or ""
            for a in t["args"]:
                if a.get("k") == "const" and "fn" in a["c"]:
                    fk = strip_generics(a["c"]["fn"])
                    if re.search(r"core::result::Result::(ok|unwrap_or_default|err)$", fk):
                        ga = a["c"].get("ga", "")
                        es = [x for x in re.findall(r"[\w:]+(?:::\w+)+", ga) if err_types.match(strip_generics(x))]
                        if es:
                            construct = "%s(fn %s)" % (ck.rsplit("::", 1)[-1], fk.rsplit("::", 1)[-1])
                            n_sites += 1
                            why = exceptions.get((fn.skey, construct))
                            if why:
                                used_exc.add((fn.skey, construct))
                                ctx.exception(rule, fn.skey, construct, why)
                            else:
                                ctx.violate(rule, fn, construct, "every %s of the items is discarded by passing Result::%s to %s: an I/O or decoding "
                                            "error ends or thins the iteration silently" % (es[0], fk.rsplit("::", 1)[-1], P.short(ck)), pt=pt)
            if DISCARDERS.search(ck) and not re.search(r"::(is_ok|is_err|iter|into_iter)$", ck) and t["args"]:
                a = t["args"][0]
                if a.get("k") in ("copy", "move"):
                    ty = fn.locals[a["pl"]["l"]] if not a["pl"]["p"] else ""
                    e = result_err(ty)
                    src_calls = [s_ for s_ in P.origins(fn, a) if s_["k"] == "call" and not P.TRANSPARENT.search(s_["callee"])]
                    if e is not None and err_types.match(strip_generics(e)) and not src_calls and any(s_["k"] == "param" for s_ in P.origins(fn, a)):
                        name = ck.rsplit("::", 1)[-1]
                        construct = "%s(param)" % name
                        n_sites += 1
                        why = exceptions.get((fn.skey, construct))
                        if why:
                            used_exc.add((fn.skey, construct))
                            ctx.exception(rule, fn.skey, construct, why)
                        else:
                            ctx.violate(rule, fn, construct, "the %s carried by a Result handed to this function/closure is discarded by .%s()" % (e, name), pt=pt)
            d = t["dest"]
            if not d["p"] and re.search(r"::(flatten|flat_map)$", ck):
                dty = fn.locals[d["l"]]
                if re.search(r"Flatten<std::io::Lines<|Flatten<.*Result<", dty):
                    n_sites += 1
                    ctx.violate(rule, fn, "flatten(io::Lines)", "an iterator of io::Result items is flattened: every read error is dropped silently", pt=pt)
    # an Err arm that never looks at the error and carries on (`if let Ok(x) = f() {..}`, `Err(_) => {}`): the error edge of
    # the switch on the Result reaches a success return, or the next iteration, without reading the payload
    for fn in fns:
        seen_sites = set()
        for b, t in fn.calls():
            d = t["dest"]
            if d["p"] or d["l"] == 0:
                continue
            e = result_err(fn.locals[d["l"]])
            if e is None or not err_types.match(strip_generics(e)):
                continue
            l = d["l"]
            cpt = P.term_pt(fn, b.idx)
            for bb in fn.blocks:
                tt = bb.term
                if tt["t"] != "switch" or tt["discr"].get("k") not in ("copy", "move"):
                    continue
                dl = tt["discr"]["pl"]["l"]
                if not [1 for (_pt, kind, p_) in P.defs(fn).of(dl) if kind == "assign" and p_["rv"]["r"] == "discr" and p_["rv"]["pl"]["l"] == l and not p_["rv"]["pl"]["p"]]:
                    continue
                errs = [s_ for lab, s_ in bb.succs if lab == "sw:1"]
                if not errs:
                    continue
                reads = []
                for b2 in fn.blocks:
                    for i, st in enumerate(b2.st):
                        if st["s"] != "=":
                            continue
                        rv = st["rv"]
                        ops = [rv.get("a"), rv.get("b")] + list(rv.get("ops", ())) + ([{"k": "copy", "pl": rv["pl"]}] if "pl" in rv and rv["r"] != "discr" else [])
                        for o in ops:
                            if isinstance(o, dict) and o.get("k") in ("copy", "move") and o["pl"]["l"] == l:
                                if any(isinstance(e_, dict) and e_.get("dc") == "Err" for e_ in o["pl"]["p"]) or not o["pl"]["p"]:
                                    reads.append((b2.idx, i))
                    t2 = b2.term
                    if t2["t"] == "call" and any(a.get("k") in ("copy", "move") and a["pl"]["l"] == l for a in t2["args"]):
                        reads.append(P.term_pt(fn, b2.idx))
                avoid = set(reads) | set(P.error_points(fn))
                q = P.reach(fn, [(errs[0], 0)], P.return_points(fn), avoid=avoid) or P.reach(fn, [(errs[0], 0)], [cpt], avoid=avoid)
                if q is None or cpt in seen_sites:
                    continue
                seen_sites.add(cpt)
                ck = callee_skey(t) or "indirect"
                construct = "err-arm-ignored(%s)" % P.short(ck)
                n_sites += 1
                why = exceptions.get((fn.skey, construct))
                if why:
                    used_exc.add((fn.skey, construct))
                    ctx.exception(rule, fn.skey, construct, why)
                    ctx.ok(rule, fn, "excepted: %s (%s)" % (construct, why), [cpt])
                else:
                    ctx.violate(rule, fn, construct, "the Err arm of %s neither reads the error nor fails: the function carries on as if the call had "
                                "succeeded (error swallowed on this branch)" % P.short(ck), pt=cpt, path=q)
    for k, why in exceptions.items():
        if k not in used_exc:
            ctx.notes.append("%s: exception %s no longer matches any site" % (rule, k))
    return n_sites


PANIC_CALLEES = re.compile(
    r"^(core::panicking::(panic|panic_fmt|panic_display|panic_explicit|assert_failed|assert_failed_inner|"
    r"panic_nounwind|unreachable_display|panic_str_2015|panic_const::\w+)|"
    r"std::rt::(begin_panic|panic_fmt)|core::option::(unwrap_failed|expect_failed)|core::result::unwrap_failed|"
    r"core::option::Option::(unwrap|expect)|core::result::Result::(unwrap|expect|unwrap_err|expect_err)|"
    r"std::process::(abort|exit)|core::intrinsics::abort)$")


def panic_audit(ctx, rule, fns, exceptions=None):
    """Explicit-panic audit: calls to panic machinery, Option/Result unwrap/expect in `fns`.
    exceptions: {(fn skey, construct): why}.  lock().unwrap() on a PoisonError is an accepted idiom."""
    exceptions = exceptions or {}
    n = 0
    used = set()
    for fn in fns:
        for b, t in fn.calls():
            ck = callee_skey(t) or ""
            if not PANIC_CALLEES.match(ck):
                continue
            pt = P.term_pt(fn, b.idx)
            name = ck.rsplit("::", 1)[-1]
            construct = name
            if "Result::" in ck and t["args"]:
                a = t["args"][0]
                ty = fn.locals[a["pl"]["l"]] if a.get("k") in ("copy", "move") and not a["pl"]["p"] else ""
                e = result_err(ty) or ""
                if "PoisonError" in e:
                    continue   # lock().unwrap(): poisoning only follows another panic
                srcs = sorted(c for c in P.origin_calls(fn, a) if not P.TRANSPARENT.search(c))
                construct = "%s(%s)" % (name, P.short(srcs[0]) if srcs else strip_generics(e))
            elif "Option::" in ck and t["args"]:
                srcs = sorted(c for c in P.origin_calls(fn, t["args"][0]) if not P.TRANSPARENT.search(c))
                construct = "%s(%s)" % (name, P.short(srcs[0]) if srcs else "option")
            elif name in ("assert_failed", "panic", "panic_fmt", "panic_display", "panic_explicit"):
                construct = name
            n += 1
            why = exceptions.get((fn.skey, construct))
            if not why and "Option::" in ck and t["args"]:
                # the same site named by the field the option is read from (`self.block_cursor.as_mut().unwrap()`): the producer of the
                # value may sit in a helper, the field does not move
                for (_o, fld) in sorted(P.origin_fields(fn, t["args"][0])):
                    alt = "%s(.%s)" % (name, fld)
                    if exceptions.get((fn.skey, alt)):
                        construct, why = alt, exceptions[(fn.skey, alt)]
                        break
            if why:
                used.add((fn.skey, construct))
                ctx.exception(rule, fn.skey, construct, why)
                ctx.ok(rule, fn, "excepted: %s (%s)" % (construct, why), [pt])
            else:
                ctx.violate(rule, fn, construct, "explicit panic site %s reachable from the audited entry points" % ck, pt=pt)
    for k in exceptions:
        if k not in used:
            ctx.notes.append("%s: exception %s no longer matches any site" % (rule, k))
    return n


def reach_fns(ctx, entries, crates, rule=None, stop=None):
    """Functions (in `crates`) reachable from entry keys (exact or generic-stripped).  Functions whose
    generic-stripped key matches `stop` are neither included nor expanded."""
    keys = []
    for e in entries:
        f = ctx.fn(rule or "REACH", e) if isinstance(e, str) else e
        if f is not None:
            keys.append(f.key)
    rx = re.compile(stop) if stop else None
    g = ctx.prog.callgraph()
    seen = set()
    work = list(keys)
    while work:
        k = work.pop()
        if k in seen:
            continue
        f = ctx.prog.fns.get(k)
        if f is None or f.crate not in crates:
            continue
        if rx is not None and rx.search(f.skey):
            continue
        seen.add(k)
        for n in g.get(k, ()):
            if n not in seen:
                work.append(n)
    return [ctx.prog.fns[k] for k in sorted(seen)]


CMP_OPS = ("Eq", "Ne", "Lt", "Le", "Gt", "Ge")


def compare_guards(fn, pt, user_only=True):
    """Comparison guards dominating pt: [{'bb','lab','op','a','b','line','holds'}] where `holds`
    says whether the comparison is true (True) or false (False) on the dominating edge."""
    out = []
    for bb, lab, srcs in guards(fn, pt):
        for s in srcs:
            if s["k"] == "bin" and s["op"] in CMP_OPS:
                st = s["st"]
                if user_only and st["sp"][3]:
                    continue
                # count logical negations between the comparison and the switch
                negs = sum(1 for x in srcs if x["k"] == "un" and x["op"] == "Not")
                holds = (lab != "sw:0")
                if negs % 2:
                    holds = not holds
                out.append({"bb": bb, "lab": lab, "op": s["op"], "a": st["rv"]["a"], "b": st["rv"]["b"],
                            "line": st["sp"][1], "holds": holds, "st": st})
    return out


def call_guards(fn, pt, pat):
    """Guards dominating pt whose switch discriminant derives from a call matching pat."""
    rx = re.compile(pat)
    out = []
    for bb, lab, srcs in guards(fn, pt):
        for s in srcs:
            if s["k"] == "call" and rx.search(s["callee"]):
                out.append({"bb": bb, "lab": lab, "callee": s["callee"], "t": s["t"], "pt": s["pt"]})
    return out


def src_names(fn, op):
    """A coarse description of where an operand comes from: field names, constants, call names."""
    names = set()
    for s in P.origins(fn, op):
        if s["k"] == "field":
            names.add("." + s["f"])
        elif s["k"] == "const":
            if "v" in s:
                names.add("#%d" % s["v"])
            if s.get("named"):
                names.add("#" + s["named"].rsplit("::", 1)[-1])
            if "str" in s:
                names.add("#%r" % s["str"])
        elif s["k"] == "call":
            names.add(s["callee"].rsplit("::", 1)[-1] + "()")
        elif s["k"] == "param":
            names.add("param%d" % s["i"])
    return names


def equal_edge_guard(fn, pt, a_pred, b_pred):
    """pt is dominated by the *equal* edge of an Eq/Ne comparison (or PartialEq::eq/ne call) whose two
    operands satisfy a_pred / b_pred (in either order).  Returns the guard or None."""
    for g in compare_guards(fn, pt):
        if g["op"] not in ("Eq", "Ne"):
            continue
        equal = g["holds"] if g["op"] == "Eq" else not g["holds"]
        if not equal:
            continue
        na, nb = src_names(fn, g["a"]), src_names(fn, g["b"])
        if (a_pred(na) and b_pred(nb)) or (a_pred(nb) and b_pred(na)):
            return g
    for bb, lab, srcs in guards(fn, pt):
        for s in srcs:
            if s["k"] == "call" and re.search(r"PartialEq.*>::(eq|ne)$|::(eq|ne)$", s["callee"]):
                name = s["callee"].rsplit("::", 1)[-1]
                negs = sum(1 for x in srcs if x["k"] == "un" and x["op"] == "Not")
                holds = (lab != "sw:0")
                if negs % 2:
                    holds = not holds
                equal = holds if name == "eq" else not holds
                if not equal:
                    continue
                t = s["t"]
                if len(t["args"]) < 2:
                    continue
                na, nb = src_names(fn, t["args"][0]), src_names(fn, t["args"][1])
                if (a_pred(na) and b_pred(nb)) or (a_pred(nb) and b_pred(na)):
                    return {"bb": bb, "lab": lab, "op": name, "line": t["sp"][1]}
    return None


def has(*names):
    def pred(ns):
        return all(n in ns for n in names)
    return pred


def callers_of(ctx, pat, crates=None):
    """{caller skey: [points]} of calls whose resolved/declared callee matches pat."""
    out = {}
    for f in ctx.prog.fns.values():
        if crates is not None and f.crate not in crates:
            continue
        pts = P.call_points(f, pat)
        if pts:
            out[f.skey] = (f, pts)
    return out


ARITH = re.compile(r"core::ops::arith::(Add|Sub|Neg)>::(add|sub|neg)$|::(hexdigest|digest|from_digest|from_hexdigest|into_inner|"
                   r"fast_setsum|metadata|to_string|and_then|unwrap_or_default)$")


def var_names(fn, op):
    """Debug names of the user variables in the backward slice of an operand (through refs, copies,
    arithmetic and Add/Sub operator calls)."""
    names = set()
    work = [op]
    seen_pts = set()
    while work:
        o = work.pop()
        srcs, locs = P.value_slice(fn, o)
        for l in locs:
            n = fn.local_name(l)
            if n:
                names.add(n)
        for s in srcs:
            if s["k"] == "call" and ARITH.search(s["callee"]) and s["pt"] not in seen_pts:
                seen_pts.add(s["pt"])
                work.extend(s["t"]["args"])
    return names


def only_errors_from(fn, bb):
    """Every return reachable from the start of block bb is an error return (and one is reachable),
    or the block can only diverge (panic)."""
    errs = P.error_points(fn)
    if P.reach(fn, [(bb, 0)], P.return_points(fn), avoid=errs) is not None:
        return False
    return True


def equality_gates(fn, ty_rx=r"setsum::Setsum"):
    """Switches whose discriminant is a PartialEq::{eq,ne} call (or Eq/Ne binop) — optionally restricted
    to operand types matching ty_rx — with the edge taken when the operands DIFFER.
    [{'bb','a','b','differ_label','equal_label','fails_closed','line'}]"""
    rx = re.compile(ty_rx) if ty_rx else None
    out = []
    for b in P.switch_blocks(fn):
        for s in cond_sources(fn, b.idx):
            if s["k"] == "call" and re.search(r"PartialEq.*>::(eq|ne)$|cmp::PartialEq::(eq|ne)$", s["callee"]):
                t = s["t"]
                if len(t["args"]) < 2:
                    continue
                if rx is not None and not rx.search(t.get("ga", "")):
                    continue
                name = s["callee"].rsplit("::", 1)[-1]
                negs = sum(1 for x in cond_sources(fn, b.idx) if x["k"] == "un" and x["op"] == "Not")
                # label taken when the call returned false is sw:0
                false_lab, true_lab = "sw:0", "sw:1"
                if negs % 2:
                    false_lab, true_lab = true_lab, false_lab
                differ = false_lab if name == "eq" else true_lab
                equal = true_lab if name == "eq" else false_lab
                succ = dict(b.succs)
                if differ not in succ:
                    continue
                out.append({"bb": b.idx, "a": var_names(fn, t["args"][0]), "b": var_names(fn, t["args"][1]),
                            "sa": sig(fn, t["args"][0]), "sb": sig(fn, t["args"][1]), "ga": t.get("ga", ""),
                            "differ_label": differ, "equal_label": equal, "line": t["sp"][1], "pt": s["pt"],
                            "fails_closed": only_errors_from(fn, succ[differ]), "t": t})
                break
    return out


def find_gate_sig(gates, a, b, not_a=(), not_b=(), ga=None, not_ga=None):
    """A gate one of whose operand signatures contains all tokens of `a` (and none of not_a) and the other all of `b`
    (and none of not_b); optionally constrained by the generic arguments of the comparison (operand types)."""
    a, b = set(a), set(b)
    for g in gates:
        if ga is not None and ga not in g["ga"]:
            continue
        if not_ga is not None and not_ga in g["ga"]:
            continue
        for x, y in ((g["sa"], g["sb"]), (g["sb"], g["sa"])):
            if a <= x and b <= y and not (set(not_a) & x) and not (set(not_b) & y):
                return g
    return None


def find_gate(gates, a, b):
    """A gate comparing variable sets a and b (either order), failing closed."""
    a, b = set(a), set(b)
    for g in gates:
        if (a <= g["a"] and b <= g["b"]) or (a <= g["b"] and b <= g["a"]):
            return g
    return None


def origin_chain(fn, op, suffixes, arg=0):
    """op originates in a call ending suffixes[0], whose argument `arg` originates in a call ending
    suffixes[1], ...  A suffix starting with '.' instead requires a read of that field."""
    if not suffixes:
        return True
    want = suffixes[0]
    for s in P.origins(fn, op):
        if want.startswith("."):
            if s["k"] == "field" and s["f"] == want[1:]:
                return origin_chain(fn, op, suffixes[1:], arg) if len(suffixes) > 1 else True
        elif s["k"] == "call" and s["callee"].endswith(want):
            t = s["t"]
            if len(suffixes) == 1:
                return True
            for a in t["args"][:max(1, arg + 1)] if arg == 0 else [t["args"][arg]]:
                if origin_chain(fn, a, suffixes[1:], 0):
                    return True
    return False


def _compound_targets(fn):
    """Locals that are the `&mut` receiver of a compound assignment operator (+=, -=) or of a container store."""
    out = {}
    d = P.defs(fn)
    for b, t in fn.calls():
        ck = callee_skey(t) or ""
        m = re.search(r"core::ops::arith::(AddAssign|SubAssign)>::(add_assign|sub_assign)$", ck)
        if not m or not t["args"]:
            continue
        a0 = t["args"][0]
        if a0.get("k") not in ("copy", "move"):
            continue
        for _pt, kind, st in d.of(a0["pl"]["l"]):
            if kind == "assign" and st["rv"]["r"] == "ref" and not P._field_elems(st["rv"]["pl"]):
                out.setdefault(st["rv"]["pl"]["l"], []).append((m.group(2), t))
    return out


def sig(fn, op):
    """Name-free signature of where a value comes from: parameters (`p<i>`), non-transparent calls (`c:<Type::fn>`),
    calls with a constant char argument (`info:<ch>`), field reads (`f:<name>`), constants (`k:<v>`), and `acc` when a
    local in the slice is the target of += / -= (an accumulator, with `acc<-<sig of what is added>`)."""
    toks = set()
    work = [op]
    seen_pts = set()
    comp = _compound_targets(fn)
    seen_loc = set()
    while work:
        o = work.pop()
        srcs, locs = P.value_slice(fn, o)
        for l in locs:
            if l in comp and l not in seen_loc:
                seen_loc.add(l)
                toks.add("acc")
                for opname, t in comp[l]:
                    for s2 in P.origins(fn, t["args"][1]):
                        if s2["k"] == "call" and not P.TRANSPARENT.search(s2["callee"]):
                            toks.add("acc<-" + ("+" if opname == "add_assign" else "-") + P.short(s2["callee"]).rsplit("::", 1)[-1])
        for s in srcs:
            if s["k"] == "param":
                toks.add("p%d" % s["i"])
            elif s["k"] == "field":
                toks.add("f:" + s["f"])
            elif s["k"] == "const" and "v" in s:
                toks.add("k:%s" % s["v"])
            elif s["k"] == "call":
                if ARITH.search(s["callee"]) or s["callee"].endswith("::poison"):
                    if s["pt"] not in seen_pts:
                        seen_pts.add(s["pt"])
                        work.extend(s["t"]["args"])
                    continue
                if P.TRANSPARENT.search(s["callee"]) or P.WRAPPERS.search(s["callee"]):
                    continue
                toks.add("c:" + s["callee"].rsplit("::", 1)[-1])
                toks.add("C:" + P.short(s["callee"]))
                for a in s["t"]["args"]:
                    if a.get("k") == "const" and a["c"].get("ty") == "char" and "v" in a["c"]:
                        toks.add("info:" + chr(a["c"]["v"]))
    return toks


def base_locals(fn, op):
    """Non-parameter locals in the backward slice of an operand (used for `the same variable` tests without names)."""
    _srcs, locs = P.value_slice(fn, op)
    return {l for l in locs if l > fn.argc}


def user_locals(fn, op):
    """base_locals restricted to locals that carry a user variable (debug info), i.e. not compiler temporaries."""
    return {l for l in base_locals(fn, op) if fn.local_name(l)}


# ------------------------------------------------------------------------------------------------
# implicit-bounds audit (engine/blue/bounds.py)

def bounds_audit(ctx, rule, fns, exceptions=None, elem=None, skip=None, invariants=()):
    """Every slice/array/Vec index or range-slice site in `fns` is provably in range (dominating comparison with the
    length of the *same* buffer, loop/position construction, fixed array length) or listed in `exceptions`:
      {(fn skey, 'index'|'range'): (count, why)}   -- at most `count` unproved sites of that kind in that function.
    elem: regex on the element type to restrict the audit (e.g. r'^u8$' = raw byte buffers)."""
    from blue import bounds as B
    exceptions = exceptions or {}
    erx = re.compile(elem) if elem else None
    srx = re.compile(skip) if skip else None
    n = proved = 0
    used = set()
    for fn in sorted(fns, key=lambda f: f.key):
        if srx is not None and srx.search(fn.skey):
            continue
        bf = B.BF(ctx.prog, fn, invariants)
        open_sites = {}
        for s in bf.sites():
            if erx is not None and not erx.search(s.get("elem") or ""):
                continue
            n += 1
            res = bf.decide(s)
            if all(j for _w, j in res):
                proved += 1
                ctx.ok(rule, fn, "in range: %s (%s)" % (B.named(fn, s["obl"][0][0]), "; ".join("%s: %s" % (w, j) for w, j in res))[:300], [s["pt"]])
            else:
                open_sites.setdefault(s["kind"], []).append((s, res))
        for kind, lst in sorted(open_sites.items()):
            exc = exceptions.get((fn.skey, kind))
            if exc and len(lst) <= exc[0]:
                used.add((fn.skey, kind))
                ctx.exception(rule, fn.skey, kind, exc[1])
                for s, res in lst:
                    ctx.ok(rule, fn, "excepted %s site (%s)" % (kind, exc[1]), [s["pt"]])
                continue
            if exc:
                used.add((fn.skey, kind))
            for s, res in lst:
                missing = [w for w, j in res if not j]
                facts = ["%s %s %s" % (B.named(fn, a), op, B.named(fn, b)) for (a, op, b, _e) in bf.dominating_facts(s["pt"])
                         if op in ("<", "<=") or (op == "==" and a[0] != "pl")][:4]
                ctx.violate(rule, fn, kind,
                            "implicit bounds check can fail: `%s` needs %s, which no dominating comparison on the same buffer establishes "
                            "(facts in force: %s)%s" % (describe_site(fn, s), " and ".join(missing), facts or "none",
                                                         "; %d such sites here, %d excepted (%s)" % (len(lst), exc[0], exc[1]) if exc else ""),
                            pt=s["pt"])
    for k in exceptions:
        if k not in used:
            ctx.notes.append("%s: bounds exception %s no longer matches any site" % (rule, k))
    return n, proved


def describe_site(fn, s):
    from blue import bounds as B
    ln = s["len"]
    buf = B.named(fn, ln[1]) if ln[0] == "len" else "[_; %s]" % B.named(fn, ln)
    obl = s["obl"]
    if s["kind"] == "index":
        return "%s[%s]" % (buf, B.named(fn, obl[0][0]))
    what = {o[3]: o for o in obl}
    if "start <= end" in what:
        return "%s[%s..%s]" % (buf, B.named(fn, what["start <= end"][0]), B.named(fn, what["start <= end"][2]))
    if "end <= len" in what:
        return "%s[..%s]" % (buf, B.named(fn, what["end <= len"][0]))
    if "start <= len" in what:
        return "%s[%s..]" % (buf, B.named(fn, what["start <= len"][0]))
    return "%s[%s]" % (buf, ", ".join(B.named(fn, o[0]) for o in obl))


def le_len_invariant(ctx, rule, owner_rx, field, buf, crates, floor=2):
    """Type invariant  x.field <= x.buf.len()  for values of a type matching owner_rx: every statement that writes the
    field stores a value proved <= len of the same value's buffer (assuming the invariant before the write and the
    guards that dominate it); constructors initialise it in range; the buffer field is written by constructors only."""
    from blue import bounds as B
    inv = [(owner_rx, field, buf)]
    n = 0
    for f in sorted(ctx.prog.fns.values(), key=lambda f: f.key):
        if f.crate not in crates:
            continue
        w = P.field_writes(f, owner_rx, field)
        wb = P.field_writes(f, owner_rx, buf)
        for pt in wb:
            ctx.violate(rule, f, "buffer-rewritten", "%s.%s is reassigned outside a constructor: the invariant %s <= %s.len() is not inductive" % (owner_rx, buf, field, buf), pt=pt)
        bf = None
        for pt in w:
            st = f.blocks[pt[0]].st[pt[1]] if pt[1] < len(f.blocks[pt[0]].st) else None
            n += 1
            if st is None or st["rv"]["r"] not in ("use",):
                ctx.violate(rule, f, "index-write", "%s is written by a construct the invariant rule cannot evaluate" % field, pt=pt)
                continue
            bf = bf or B.BF(ctx.prog, f, inv)
            val = bf.op_term(st["rv"]["a"])
            base = bf.place_term({"l": st["lhs"]["l"], "p": st["lhs"]["p"][:-1]})
            if base[0] != "pl":
                ctx.violate(rule, f, "index-write", "the owner of %s is not a plain place" % field, pt=pt)
                continue
            ln = ("len", ("pl", base[1], base[2] + (buf,)))
            why = bf.prove(val, False, ln, pt)
            ctx.check(rule, f, "index-write", bool(why), "%s = %s keeps %s <= %s.len() (%s)" % (field, B.named(f, val), field, buf, why),
                      "`%s = %s` is not shown to keep %s <= %s.len(): the next slice of the buffer at %s can be out of range" % (
                          field, B.named(f, val), field, buf, field), pt=pt)
        # constructors
        for b in f.blocks:
            for i, st in enumerate(b.st):
                rv = st.get("rv", {})
                if st["s"] == "=" and rv.get("r") == "agg" and re.search(owner_rx, strip_generics(rv.get("adt", ""))) and field in rv.get("fields", []):
                    n += 1
                    if (f.impl_trait or "").endswith("clone::Clone") and f.name == "clone":
                        ctx.ok(rule, f, "Clone copies a value for which the invariant already holds", [(b.idx, i)])
                        continue
                    bf = bf or B.BF(ctx.prog, f, inv)
                    val = bf.op_term(rv["ops"][rv["fields"].index(field)])
                    bufop = rv["ops"][rv["fields"].index(buf)]
                    why = bf.prove(val, False, ("len", bf.root(bufop)), (b.idx, i))
                    ctx.check(rule, f, "index-init", bool(why), "constructed with %s = %s (%s)" % (field, B.named(f, val), why),
                              "constructed with %s = %s, not shown to be within %s" % (field, B.named(f, val), buf), pt=(b.idx, i))
    ctx.floor(rule, "writes of %s.%s" % (owner_rx, field), n, floor)
    return inv


def overflow_audit(ctx, rule, fns, exceptions=None):
    """Arithmetic on a value decoded from the input (`len + n`, `len - n`, `len * n`) must not be able to overflow: each decoded
    operand of an addition/multiplication is capped by a dominating comparison with a buffer length or a constant (or by its
    type/width), a subtraction's subtrahend is proved <= the minuend.  In debug builds the overflow is a panic, in release a
    wrapped length that the following bounds checks were written against.  exceptions: {(fn skey, 'Add'|'Sub'|'Mul'): (count, why)}."""
    from blue import bounds as B
    exceptions = exceptions or {}
    n = 0
    for fn in sorted(fns, key=lambda f: f.key):
        bf = B.BF(ctx.prog, fn)
        open_ = {}
        for s in bf.overflow_sites():
            n += 1
            why = bf.decide_overflow(s)
            if why:
                ctx.ok(rule, fn, "decoded length in `%s %s %s` cannot overflow (%s)" % (B.named(fn, s["ta"]), {"Add": "+", "Sub": "-", "Mul": "*"}[s["op"]], B.named(fn, s["tb"]), why), [s["pt"]])
            else:
                open_.setdefault(s["op"], []).append(s)
        for op, lst in sorted(open_.items()):
            exc = exceptions.get((fn.skey, op))
            if exc and len(lst) <= exc[0]:
                ctx.exception(rule, fn.skey, op, exc[1])
                for s in lst:
                    ctx.ok(rule, fn, "excepted %s site (%s)" % (op, exc[1]), [s["pt"]])
                continue
            for s in lst:
                ctx.violate(rule, fn, "overflow:" + op,
                            "`%s %s %s` is computed from a length decoded from the input before that length has been compared with any buffer "
                            "length: a hostile length makes it overflow (a panic in debug builds, a wrapped value that passes the following check in "
                            "release)" % (B.named(fn, s["ta"]), {"Add": "+", "Sub": "-", "Mul": "*"}[s["op"]], B.named(fn, s["tb"])), pt=s["pt"])
    return n


# ------------------------------------------------------------------------------------------------
# a predicate that is a conjunction of comparisons between fields of its parameters

def conjunction_of_comparisons(f):
    """If f(params..) -> bool is `c1 && c2 && .. && cn` with every ci a comparison of two parameter fields, return
    [(op, (param, field path), (param, field path))] with op in Lt/Le/Gt/Ge/Eq/Ne; otherwise (None, reason)."""
    def side(o):
        if o.get("k") not in ("copy", "move"):
            return None
        ps = [s for s in P.origins(f, o) if s["k"] == "param"]
        if len(ps) != 1 or not ps[0]["proj"]:
            return None
        return (ps[0]["i"], tuple(ps[0]["proj"]))

    def atom_of_operand(o):
        # the comparison that produced boolean operand o
        if o.get("k") not in ("copy", "move") or o["pl"]["p"]:
            return None
        ds = [(pt, kind, p) for (pt, kind, p) in P.defs(f).of(o["pl"]["l"]) if kind in ("assign", "call")]
        if len(ds) != 1:
            return None
        pt, kind, p = ds[0]
        if kind == "assign" and p["rv"]["r"] == "bin" and p["rv"]["op"] in ("Lt", "Le", "Gt", "Ge", "Eq", "Ne"):
            a, b = side(p["rv"]["a"]), side(p["rv"]["b"])
            return (p["rv"]["op"], a, b) if a and b else None
        if kind == "call":
            m = re.search(r"::(lt|le|gt|ge|eq|ne)$", callee_skey(p) or "")
            if m and len(p["args"]) == 2:
                a, b = side(p["args"][0]), side(p["args"][1])
                return (m.group(1).capitalize(), a, b) if a and b else None
        return None

    def returns_const(bi, want, seen=()):
        b = f.blocks[bi]
        if bi in seen or len(seen) > 6:
            return False
        vals = [st for st in b.st if st["s"] == "=" and st["lhs"]["l"] == 0 and not st["lhs"]["p"]]
        if vals:
            rv = vals[-1]["rv"]
            return rv["r"] == "use" and rv["a"].get("k") == "const" and bool(rv["a"]["c"].get("v")) == want and b.term["t"] in ("goto", "return")
        if b.term["t"] == "goto" and not [st for st in b.st if st["s"] == "="]:
            return returns_const(b.term["to"], want, seen + (bi,))
        return False

    atoms = []
    bi = 0
    for _ in range(32):
        b = f.blocks[bi]
        t = b.term
        if t["t"] == "call" and t["dest"]["l"] == 0 and not t["dest"]["p"]:
            m = re.search(r"::(lt|le|gt|ge|eq|ne)$", callee_skey(t) or "")
            a, c = (side(t["args"][0]), side(t["args"][1])) if m and len(t["args"]) == 2 else (None, None)
            if not (m and a and c):
                return None, "the last conjunct is not a comparison of two parameter fields"
            atoms.append((m.group(1).capitalize(), a, c))
            return atoms, None
        if t["t"] == "call":
            bi = t["to"]
            continue
        if t["t"] == "switch":
            at = atom_of_operand(t["discr"])
            if at is None:
                return None, "a branch is not on a comparison of two parameter fields"
            succ = dict(b.succs)
            if "sw:0" not in succ or "sw:1" not in succ or not returns_const(succ["sw:0"], False):
                return None, "the false edge of a conjunct does not return false"
            atoms.append(at)
            bi = succ["sw:1"]
            continue
        if t["t"] == "goto":
            vals = [st for st in b.st if st["s"] == "=" and st["lhs"]["l"] == 0 and not st["lhs"]["p"]]
            if vals:
                rv = vals[-1]["rv"]
                if rv["r"] == "use" and rv["a"].get("k") == "const" and bool(rv["a"]["c"].get("v")):
                    return atoms, None
                at = atom_of_operand(rv["a"]) if rv["r"] == "use" else ((rv["op"], side(rv["a"]), side(rv["b"])) if rv["r"] == "bin" else None)
                if at is None or None in at:
                    return None, "the result is not a comparison of two parameter fields"
                atoms.append(at)
                return atoms, None
            bi = t["to"]
            continue
        if t["t"] == "return":
            return atoms, None
        return None, "unexpected terminator %s" % t["t"]
    return None, "too long"


def ref_base(f, op):
    """Local whose address the operand holds (`&mut x` -> x), following copies."""
    seen = set()
    while op is not None and op.get("k") in ("copy", "move") and not op["pl"]["p"] and op["pl"]["l"] not in seen:
        l = op["pl"]["l"]
        seen.add(l)
        ds = [st for b in f.blocks for st in b.st if st["s"] == "=" and not st["lhs"]["p"] and st["lhs"]["l"] == l]
        if len(ds) != 1:
            return l
        rv = ds[0]["rv"]
        if rv["r"] == "ref":
            pl = rv["pl"]
            if [e for e in pl["p"] if e != "*"]:
                return None
            if "*" in pl["p"]:
                op = {"k": "copy", "pl": {"l": pl["l"], "p": []}}
                continue
            return pl["l"]
        if rv["r"] == "use":
            op = rv["a"]
            continue
        return l
    return None


def root_local(f, op):
    """The user variable an operand is a plain copy of (None when it is computed)."""
    seen = set()
    while op is not None and op.get("k") in ("copy", "move") and not op["pl"]["p"]:
        l = op["pl"]["l"]
        if f.local_name(l) or l in seen or l <= f.argc:
            return l
        seen.add(l)
        ds = [st for b in f.blocks for st in b.st if st["s"] == "=" and not st["lhs"]["p"] and st["lhs"]["l"] == l]
        if len(ds) != 1 or ds[0]["rv"]["r"] != "use":
            return l
        op = ds[0]["rv"]["a"]
    return None


DROPPING_ADAPTERS = re.compile(r"\b(TakeWhile|Take|Skip|SkipWhile|Filter|FilterMap|StepBy|MapWhile|Scan|Flatten|FlatMap|Peekable)\b")


def loop_iterator_type(f, head):
    """Type of the iterator whose `next` call at `head` drives a loop (the local behind the `&mut` argument)."""
    t = P.term_at(f, head)
    if not t["args"] or not t["args"][0].get("pl"):
        return "?"
    base = ref_base(f, t["args"][0])
    return f.locals[base] if base is not None else f.locals[t["args"][0]["pl"]["l"]]


def loop_source_subslice(f, head):
    """The call (if any) that narrows the collection a loop iterates to a sub-slice (`v[a..b].iter()`, `split_at`, `get(a..b)`)."""
    t = P.term_at(f, head)
    base = ref_base(f, t["args"][0]) if t["args"] and t["args"][0].get("pl") else None
    if base is None:
        return None
    for q in P.origins(f, {"k": "copy", "pl": {"l": base, "p": []}}):
        if q["k"] != "call":
            continue
        ck = q["callee"]
        dty = f.locals[q["t"]["dest"]["l"]] if not q["t"]["dest"]["p"] else ""
        m = re.match(r"^&(?:mut )?\[(.*)\]$", dty)
        # only a slice of the iterated element type narrows this loop (an enclosing `levels[1..]` does not)
        if re.search(r"index::index(_mut)?$|Index(Mut)?>::index(_mut)?$|::get(_mut)?$", ck) and m and m.group(1) in f.locals[base]:
            return ck
        if re.search(r"::(split_at|split_at_mut|split_first|split_last|split_off|drain)$", ck):
            return ck
    return None


def loop_body(f, head_bb):
    """Blocks of the (outermost) loop through block head_bb: reachable from it and reaching it."""
    fwd = P.reachable_blocks(f, [(head_bb, 0)])
    body = set()
    for b in fwd:
        if head_bb in P.reachable_blocks(f, [(s_, 0) for _l, s_ in f.blocks[b].succs]) or b == head_bb:
            body.add(b)
    if head_bb not in P.reachable_blocks(f, [(s_, 0) for _l, s_ in f.blocks[head_bb].succs]):
        return set()
    return body


def loop_exits(f, head_bb):
    """[(block, label, successor)] edges that leave the loop through head_bb."""
    body = loop_body(f, head_bb)
    return [(b, lab, s_) for b in sorted(body) for lab, s_ in f.blocks[b].succs if s_ not in body and not f.blocks[s_].cleanup]


def value_tests(fn, subject):
    """Tests of a value against constants, whatever the source form: `x == C` / `x != C` (a comparison feeding a switch) and
    `match x { C1 => .., C2 => .., _ => .. }` (a switch on the value itself).  `subject(fn, operand)` says whether an operand reads the
    value in question.  Returns [{pt, value, named, eq_edges}] -- eq_edges are the (block, label) edges taken when x equals the constant."""
    out = []
    for b in fn.blocks:
        for i, st in enumerate(b.st):
            if st["s"] != "=":
                continue
            rv = st["rv"]
            if rv.get("r") == "bin" and rv["op"] in ("Eq", "Ne"):
                for x, y in ((rv["a"], rv["b"]), (rv["b"], rv["a"])):
                    if subject(fn, x):
                        for c in P.origin_consts(fn, y):
                            if c.get("v") is None:
                                continue
                            eq = set()
                            for sb in P.switch_blocks(fn):
                                for s_ in cond_sources(fn, sb.idx):
                                    if s_["k"] == "bin" and s_["pt"] == (b.idx, i):
                                        eq.add((sb.idx, "sw:1" if rv["op"] == "Eq" else "sw:0"))
                            out.append({"pt": (b.idx, i), "value": c["v"], "named": c.get("named"), "eq_edges": eq, "form": "compare"})
    for sb in P.switch_blocks(fn):
        d = sb.term["discr"]
        if d.get("k") not in ("copy", "move") or not subject(fn, d):
            continue
        if not d["pl"]["p"]:
            ds = P.defs(fn).of(d["pl"]["l"])
            if any(kind != "assign" or p_["rv"].get("r") not in ("use", "cast") for (_pt, kind, p_) in ds):
                continue        # a switch on the outcome of a comparison / call / enum discriminant, not on the value itself
        for v, _t in sb.term["arms"]:
            out.append({"pt": P.term_pt(fn, sb.idx), "value": v, "named": None, "eq_edges": {(sb.idx, "sw:%d" % v)}, "form": "switch"})
    return out
