"""Exception table of the explicit-panic audit on storage read paths: (function, construct) -> reason.
Every entry was read in the source; the reason says why the panic cannot be reached from file contents."""
PANIC_EXC = {
    ("<sst::SstCursor as sst::Cursor>::next", "unwrap(SstCursor::load_block_cursor)"):
        "block_cursor.as_mut().unwrap() directly follows `if self.block_cursor.is_none() { ...; self.block_cursor = Some(..) }`",
    ("<sst::SstCursor as sst::Cursor>::prev", "unwrap(SstCursor::load_block_cursor)"):
        "block_cursor.as_mut().unwrap() directly follows `if self.block_cursor.is_none() { ...; self.block_cursor = Some(..) }`",
    ("<sst::SstCursor as sst::Cursor>::next", "unwrap(.block_cursor)"):
        "the same site when the block is entered through a helper: as_mut().unwrap() follows `if self.block_cursor.is_none() { .. enter the block .. }`, whose every success path stores Some(..)",
    ("<sst::SstCursor as sst::Cursor>::prev", "unwrap(.block_cursor)"):
        "the same site when the block is entered through a helper: as_mut().unwrap() follows `if self.block_cursor.is_none() { .. enter the block .. }`, whose every success path stores Some(..)",
    ("<sst::concat_cursor::ConcatenatingCursor as sst::Cursor>::seek", "unwrap(Cursor::key)"):
        "the preceding loop leaves only with key().is_some() or mid == left, and mid == left breaks before the unwrap",
    ("sst::concat_cursor::ConcatenatingCursor::reposition", "panic"):
        "assert!(!cursors.is_empty()): new() asserts the same and the vector never shrinks; not data dependent",
    ("sst::block::Block::restart_point", "panic"):
        "assert!(restart_idx < num_restarts): callers compare against num_restarts first (rule C09.5 checks each call site)",
    ("sst::file_manager::open_without_manager", "panic"):
        "assert!(fd < usize::MAX) on a descriptor just returned by open(2)",
    ("sst::lazy_cursor::LazyCursor::establish_cursor", "panic_fmt"):
        "the panic arm follows the assignment of the very variant the `if let` matches",
    ("sst::sbbf::Filter::do_hashing", "panic_fmt"):
        "((x >> 32) * len) >> 32 < len for len >= 1, and Filter::try_from rejects empty filters",
    ("<sst::pruning_cursor::PruningCursor as sst::Cursor>::next", "unwrap(option)"):
        "skip_key.as_ref().unwrap() is the right operand of `skip_key.is_none() ||`",
    ("<sst::pruning_cursor::PruningCursor as sst::Cursor>::seek", "unwrap(option)"):
        "skip_key.as_ref().unwrap() is the right operand of `skip_key.is_none() ||`",
    ("<sst::pruning_cursor::PruningCursor as sst::Cursor>::prev", "unwrap(option)"):
        "inside `while self.skip_key.is_some()` with no intervening write to skip_key",
    ("<sst::pruning_cursor::PruningCursor as sst::Cursor>::prev", "panic"):
        "both asserts restate the exit condition of the while-let loop directly above (None returns an error first)",
    ("lsmtk::verifier::LsmVerifier::verify_gc", "unwrap(Cursor::key_value)"):
        "inside `while let (Some(i), _) = (input.key(), ..)` and the cursor has not moved: key() Some implies key_value() Some",
    ("lsmtk::verifier::LsmVerifier::process_one", "panic"):
        "assert!(strs().count() == 0): every verifier edit that adds strs also sets 'M', and possibly_complete_processing "
        "removes all strs whenever 'M' is set; a torn verifier manifest drops whole edits (C13.1)",
    ("mani::Manifest::poison", "unwrap(option)"):
        "self.poison was set to Some two lines above when it was None",
    ("mani::Manifest::to_edit", "expect(Edit::add)"):
        "check_str rejects only '\\n'; strings come from BufRead::lines() or from edits admitted by check_str",
    ("mani::Manifest::to_edit", "expect(Edit::info)"):
        "check_str rejects only '\\n'; strings come from BufRead::lines() or from edits admitted by check_str",
}


# implicit-bounds audit (C09.4b / C12.4b / C13.4b): {(fn skey, 'index'|'range'): (max unproved sites, why)}
_BLOCK_CRC = ("block bytes reach Block::new only after crc32c(bytes) matched the index entry (Sst::load_block, rule C09.1) or straight from "
              "BlockBuilder::seal; the offsets are those of a well-formed block: ")
BOUNDS_EXC = {
    ("<sst::block::BlockCursor as sst::Cursor>::value::{closure#0}", "range"): (1, _BLOCK_CRC +
        "(offset, len) was computed in extract_key from a value slice that lies inside block.bytes"),
    ("sst::block::Block::restart_point", "index"): (1, _BLOCK_CRC +
        "restarts_idx + 4 * restart_idx + i with restart_idx < num_restarts (asserted; callers checked by C09.5) addresses the restart table"),
    ("sst::block::Block::restart_point", "range"): (1, _BLOCK_CRC +
        "the same four bytes taken as one slice: bytes[restarts_idx + 4 * restart_idx ..][..4] with restart_idx < num_restarts (asserted; callers "
        "checked by C09.5) is an entry of the restart table"),
    ("sst::block::BlockCursor::extract_key", "range"): (1, _BLOCK_CRC +
        "restarts_boundary = len - capstone - footer is within the block (Block::new)"),
    ("sst::log::LogIterator::next_frame", "range"): (1,
        "`&mut self.buffer[buffer_start_sz..]` directly after self.buffer.resize(buffer_start_sz + header.size, 0): the start is the old length, "
        "which is at most the new length (header.size is bounded by C09.3)"),
}


# arithmetic on decoded lengths (overflow audit): {(fn skey, 'Add'|'Sub'|'Mul'): (max unproved sites, why)}
OVERFLOW_EXC = {
    ("sst::block::Block::new", "Sub"): (2, _BLOCK_CRC +
        "`bytes.len() - capstone - 4 * num_restarts` and `restarts_idx - footer_head` use the restart count stored in the block's last four "
        "bytes without comparing it with the block length; a block that passed its CRC carries the count its builder wrote (observation O2 of "
        "round 0: for a block whose CRC collides, this subtraction is where it would fail)"),
}
