"""C16 — tuple keys: decoder panic audit and encode/decode table agreement only."""
import re

from blue import prim as P
from blue.facts import callee_skey, strip_generics
from . import common as K

EXPLANATION = (
    "C16 structural clauses only: (C16.1) no explicit panic site is reachable from the decoders of either format "
    "(TupleKeyParser, Element::parse_from, TupleKey::unfield_number, TupleKeyIterator::next, tuple_key2's parser); "
    "(C16.2) tuple_key's to_discriminant / from_discriminant are inverse bijections read off their switch tables, every "
    "code is < 16 (it is packed into four bits beside the field number), every other code decodes to None, and "
    "KeyDataType::wire_type covers every variant; the tag is built as (number << 4) | code and split with & 15 / >> 4; "
    "(C16.3) tuple_key2's evaluated tag constants put the negative-integer range strictly below the non-negative range, "
    "each 9 wide (payload lengths 0..=8), disjoint from the unsigned range and the unit tag, with INTEGER_TAG_MIN/MAX "
    "spanning exactly their union; (C16.1b) every index / range-slice expression of the decoders is in range by a "
    "dominating comparison with the length of the same buffer, by construction, or by the type invariant offset <= "
    "buffer.len() of TupleKeyParser / TupleKeyIterator, which is proved inductively (every write of offset stores a value "
    "proved in range: +1 after a successful get()/comparison, or checked_add(..).filter(<= len)); unproved sites are "
    "excepted one by one with the reason; (C16.4) the per-byte map that reverse_encoding applies to descending elements is "
    "read from MIR and evaluated on all 256 bytes: it is an involution, preserves the continuation bit, reverses the order "
    "of bytes whose data bits differ, and -- the clause that FAILS on this tree, known finding F14 -- orders a terminator "
    "byte after the continuation byte with the same data bits; (C16.6) ordered::encode_i32/i64 and decode_i32/i64 are piecewise "
    "translations of their argument (class checked), tabulated exactly: encode is strictly increasing from signed to unsigned order, "
    "decode inverts it on every value, and the signed Element impls go through them; (C16.7) tuple_key2's byte-string framing is "
    "written and read by the same table: the writer emits every payload byte once, emits the escape 0xff only behind a payload byte that a "
    "comparison with 0x00 identified, and ends with 0x00 0x00; the reader turns 0x00 0xff into 0x00, ends at 0x00 0x00, rejects any other "
    "pair and copies every other byte.  TABLE, const eval, finite-domain evaluation, "
    "exact piecewise tabulation, panic audit and array-bounds dataflow over REACH.")
NOT_DECIDED = ("order preservation, prefix contiguity and round-trip for values in general: relations between two inputs at width and "
               "escape boundaries (C16.4 decides one necessary per-byte condition of descending order by exhaustive evaluation)")
ASSUMPTIONS = ["overflow Assert terminators are out of scope; the excepted slice sites are safe by the arguments in the exception table"]


def rules(ctx):
    c161(ctx)
    c162(ctx)
    c163(ctx)
    c164(ctx)
    c165(ctx)
    c166(ctx)
    c167(ctx)
    c168(ctx)
    c169(ctx)


def c169(ctx):
    R = "C16.9"
    ctx.declare(R, "a descending element is inverted whole, whatever its length: the writer's call of reverse_encoding depends on the direction alone "
                   "(an element that is just its terminator byte -- the empty string, unit -- must still sort after every longer value)")
    n = 0
    for f in sorted(ctx.prog.fns.values(), key=lambda f: f.key):
        if f.crate != "tuple_key" or not re.search(r"^tuple_key::TupleKey::", f.skey) or "{closure" in f.skey:
            continue
        for p_ in P.call_points(f, r"^tuple_key::reverse_encoding$"):
            n += 1
            extra = []
            for bb, lab, srcs in K.guards(f, p_):
                if any(x["k"] == "call" and re.search(r"tuple_key::Direction as core::cmp::PartialEq>::(eq|ne)$", x["callee"]) for x in srcs) and \
                        not any(x["k"] == "bin" for x in srcs):
                    continue
                if any(x["k"] == "discr" for x in srcs) and not any(x["k"] in ("bin", "call") for x in srcs):
                    continue        # `match dir { Reverse => .. }`
                extra.append(bb)
            ctx.check(R, f, "inverted-whatever-its-length", not extra, "reverse_encoding is applied whenever the direction is Reverse",
                      "%s inverts a descending element only under a further condition: an element for which the condition fails keeps its ascending "
                      "bytes and sorts on the wrong side of every other value of the column" % f.skey, pt=p_)
            t = P.term_at(f, p_)
            whole = any(x["k"] == "agg" and (x.get("adt") or "").endswith("RangeFrom") for x in P.origins(f, t["args"][0])) or \
                any(x["k"] == "call" and re.search(r"index_mut$", x["callee"]) and any(y["k"] == "agg" and (y.get("adt") or "").endswith("RangeFrom") for y in P.origins(f, x["t"]["args"][1]))
                    for x in P.origins(f, t["args"][0]))
            ctx.check(R, f, "inverted-to-the-end", whole, "the inverted slice runs from the element's first byte to the end of the buffer",
                      "%s does not invert buf[start..]" % f.skey, pt=p_)
    ctx.floor(R, "writer-side reverse_encoding sites", n, 1)


ENC = re.compile(r"::(append_to|extend|extend_with_key|extend_field_number|field_number|append|builder|build|finish|tuple_key|unit|bytes|string|"
                 r"u8|u16|u32|u64|i8|i16|i32|i64|push_\w+|encode_\w+|fmt|from_bytes|with_capacity|new)$")

EXC = {
    ("tuple_key2::decode_big_endian_payload", "panic"):
        "debug_assert!(payload.len() <= 8): the payload length is `tag - BASE` for a tag matched against a 9-wide range by "
        "unsigned_len / signed_*_len (widths checked by C16.3), then taken with take_payload(len)",
    ("tuple_key::TupleKey::field_number", "panic"):
        "assert!(discriminant < 16): to_discriminant's table only returns 1..=14 (checked by C16.2); encode side, reached from parse_next_tag with schema-provided arguments",
}


OVERFLOW_EXC = {
}

BOUNDS_EXC = {
    ("<tuple_key::TupleKeyIterator as core::iter::traits::iterator::Iterator>::next", "range"): (1,
        "`&self.buf[start..limit]`: start and limit are snapshots of self.offset before and after a loop that only increments it, each "
        "increment guarded by offset < buf.len() (the invariant offset <= buf.len() of every write is proved by the index-write rule)"),
    ("tuple_key2::decode_big_endian_payload", "range"): (1,
        "`bytes[8 - payload.len()..]` on a [u8; 8]: callers pass take_payload(len) with len = tag - BASE for a tag matched against a 9-wide "
        "range (unsigned_len / signed_*_len, widths checked by C16.3), so payload.len() <= 8"),
    ("tuple_key::TupleKey::field_number", "range"): (2,
        "`buf[0..sz]` on a [u8; 10] with sz = v64::pack_sz(), which is at most 10 for every u64 (encode side, reached from parse_next_tag "
        "with schema-provided arguments)"),
    ("tuple_key::TupleKeyParser::parse_next_tag", "range"): (1,
        "`&buf[0..sz]` with (buf, sz) returned by TupleKey::field_number: a [u8; 10] and a v64::pack_sz() <= 10"),
}


def c161(ctx):
    R = "C16.1"
    ctx.declare(R, "decoding arbitrary bytes returns an error, never an explicit panic")
    entries = []
    for f in ctx.prog.fns.values():
        if f.crate == "tuple_key":
            if f.skey.startswith("tuple_key::TupleKeyParser::") or f.skey in ("tuple_key::TupleKey::unfield_number", "tuple_key::reverse_encoding") or \
               (f.name == "parse_from" and (f.impl_trait or "").endswith("tuple_key::Element")) or \
               f.skey == "<tuple_key::TupleKeyIterator as core::iter::traits::iterator::Iterator>::next" or f.skey == "tuple_key::from_discriminant":
                entries.append(f)
        elif f.crate == "tuple_key2":
            if f.impl_self and strip_generics(f.impl_self) == "tuple_key2::TupleKeyParser" and not f.impl_trait:
                entries.append(f)
            elif f.skey in ("tuple_key2::boundary_candidates", "tuple_key2::TupleKey::boundary_candidates", "tuple_key2::is_tag", "tuple_key2::is_integer_tag", "tuple_key2::is_unit_tag"):
                entries.append(f)
    ctx.floor(R, "decoder entry points", len(entries), 20)
    seen = ctx.prog.reach([f.key for f in entries], crates={"tuple_key", "tuple_key2"})
    fns = [ctx.prog.fns[k] for k in seen if k in ctx.prog.fns and ctx.prog.fns[k].crate in ("tuple_key", "tuple_key2")]
    n = K.panic_audit(ctx, R, fns, EXC)
    ctx.ok(R, "tuple_key", "audited %d functions reachable from %d decoder entry points; %d explicit panic constructs examined" % (len(fns), len(entries), n))
    # implicit panics: every index / range-slice expression of the decoders is in range
    ctx.declare(R + "b", "the decoders never index a buffer beyond the length a dominating comparison established for that same buffer")
    inv = K.le_len_invariant(ctx, R + "b", r"^tuple_key2::TupleKeyParser$", "offset", "bytes", ("tuple_key2",), floor=3)
    inv += K.le_len_invariant(ctx, R + "b", r"^tuple_key::TupleKeyIterator$", "offset", "buf", ("tuple_key",), floor=2)
    nb, pb = K.bounds_audit(ctx, R + "b", fns, BOUNDS_EXC, invariants=inv)
    ctx.floor(R + "b", "index / slice sites in the decoders", nb, 4)
    K.overflow_audit(ctx, R + "b", fns, OVERFLOW_EXC)


def c162(ctx):
    R = "C16.2"
    ctx.declare(R, "the type/direction code tables of the field-numbered format are inverse")
    to = ctx.fn(R, "tuple_key::to_discriminant")
    fr = ctx.fn(R, "tuple_key::from_discriminant")
    if to and fr:
        tt, tf = P.switch_table(to), P.switch_table(fr)
        ok = tt is not None and tf is not None
        ctx.check(R, to, "tables-readable", ok, "to_discriminant / from_discriminant are pure switch tables", "the discriminant functions are no longer plain match tables")
        if ok:
            kdt = ctx.prog.adts["tuple_key::KeyDataType"]["variants"]
            dirs = ctx.prog.adts["tuple_key::Direction"]["variants"]
            kname = {v["discr"]: v["name"] for v in kdt}
            dname = {v["discr"]: v["name"] for v in dirs}
            enc = {}
            for labels, res in tt:
                if len(labels) == 2 and res[0] == "const" and all(l.startswith("sw:") for l in labels):
                    enc[(kname[int(labels[0][3:])], dname[int(labels[1][3:])])] = res[1]
            dec, none_default = {}, False
            for labels, res in tf:
                if labels and labels[0].startswith("sw:") and res[0] == "Some" and res[1][0] == "tuple":
                    dec[int(labels[0][3:])] = (res[1][1][1], res[1][2][1])
                elif labels and labels[0] == "otherwise":
                    none_default = res == ("None",)
            ctx.check(R, to, "complete", len(enc) == len(kdt) * len(dirs), "to_discriminant covers all %d (type, direction) pairs" % (len(kdt) * len(dirs)),
                      "to_discriminant covers %d of %d pairs" % (len(enc), len(kdt) * len(dirs)))
            ctx.check(R, to, "injective", len(set(enc.values())) == len(enc), "codes are distinct", "two (type, direction) pairs share a code: %s" % enc)
            ctx.check(R, to, "four-bits", all(0 < v < 16 for v in enc.values()), "every code is in 1..=15 (packed into four bits)", "a code does not fit four bits: %s" % sorted(enc.values()))
            ctx.check(R, fr, "inverse", {v: k for k, v in enc.items()} == dec, "from_discriminant is the inverse table (%d entries)" % len(dec),
                      "from_discriminant %s is not the inverse of to_discriminant %s" % (dec, enc))
            ctx.check(R, fr, "others-none", none_default, "every other code decodes to None", "unknown codes are not rejected")
    wt = ctx.fn(R, "tuple_key::KeyDataType::wire_type")
    if wt:
        t = P.switch_table(wt)
        n = len(ctx.prog.adts["tuple_key::KeyDataType"]["variants"])
        ctx.check(R, wt, "wire-type-total", t is not None and len([1 for labels, res in t if labels and labels[0].startswith("sw:")]) == n,
                  "KeyDataType::wire_type has an arm for each of the %d variants" % n, "KeyDataType::wire_type does not cover every variant")
    f = ctx.fn(R, "tuple_key::TupleKey::field_number")
    if f:
        shl = any(rv.get("r") == "bin" and rv["op"].startswith("Shl") and any(c.get("v") == 4 for c in P.origin_consts(f, rv["b"]))
                  for b in f.blocks for st in b.st for rv in [st.get("rv", {})])
        orr = any(rv.get("r") == "bin" and rv["op"] == "BitOr" for b in f.blocks for st in b.st for rv in [st.get("rv", {})])
        ctx.check(R, f, "tag-pack", shl and orr and bool(P.call_points(f, r"tuple_key::to_discriminant$")), "tag = (field number << 4) | to_discriminant(..)",
                  "field_number no longer packs (number << 4) | code")
    f = ctx.fn(R, "tuple_key::TupleKey::unfield_number")
    if f:
        shr = any(rv.get("r") == "bin" and rv["op"].startswith("Shr") and any(c.get("v") == 4 for c in P.origin_consts(f, rv["b"]))
                  for b in f.blocks for st in b.st for rv in [st.get("rv", {})])
        msk = any(rv.get("r") == "bin" and rv["op"] == "BitAnd" and any(c.get("v") == 15 for c in P.origin_consts(f, rv["b"]))
                  for b in f.blocks for st in b.st for rv in [st.get("rv", {})])
        ctx.check(R, f, "tag-unpack", shr and msk and bool(P.call_points(f, r"tuple_key::from_discriminant$")) and bool(P.call_points(f, r"prototk::FieldNumber::new$")),
                  "code = x & 15 through from_discriminant, number = x >> 4 through FieldNumber::new", "unfield_number no longer splits with & 15 / >> 4 through the validating constructors")
        rl = bool(P.call_points(f, r"rotate_right$"))
        g = ctx.fn(R, "tuple_key::TupleKey::field_number")
        rr = bool(g and (P.call_points(g, r"rotate_left$") or any(P.call_points(c, r"rotate_left$") for c in ctx.prog.closures_of(g))))
        rl = rl or any(P.call_points(c, r"rotate_right$") for c in ctx.prog.closures_of(f))
        ctx.check(R, f, "rotation-pair", rl and rr, "the encoder rotates left and the decoder rotates right", "the varint rotation of encoder and decoder no longer pair up")


def c163(ctx):
    R = "C16.3"
    ctx.declare(R, "compact format: negative integers sort below non-negative ones only if their tag ranges do")
    c = ctx.prog.consts
    names = ["SIGNED_NEG_BASE", "SIGNED_NEG_LAST", "SIGNED_NONNEG_BASE", "SIGNED_NONNEG_LAST", "UNSIGNED_BASE", "UNSIGNED_LAST", "UNIT_TAG",
             "INTEGER_TAG_MIN", "INTEGER_TAG_MAX"]
    v = {n: c.get("tuple_key2::" + n, {}).get("v") for n in names}
    ok = all(x is not None for x in v.values())
    ctx.check(R, "tuple_key2", "evaluated", ok, "tag constants evaluated from the compiled program: %s" % v, "tuple_key2 tag constants missing: %s" % v)
    if not ok:
        return
    ctx.check(R, "tuple_key2", "neg-below-nonneg", v["SIGNED_NEG_BASE"] <= v["SIGNED_NEG_LAST"] < v["SIGNED_NONNEG_BASE"] <= v["SIGNED_NONNEG_LAST"],
              "negative range %#x..=%#x lies strictly below non-negative range %#x..=%#x" % (v["SIGNED_NEG_BASE"], v["SIGNED_NEG_LAST"], v["SIGNED_NONNEG_BASE"], v["SIGNED_NONNEG_LAST"]),
              "the negative tag range does not lie strictly below the non-negative one: %s" % v)
    for a, b in (("SIGNED_NEG_BASE", "SIGNED_NEG_LAST"), ("SIGNED_NONNEG_BASE", "SIGNED_NONNEG_LAST"), ("UNSIGNED_BASE", "UNSIGNED_LAST")):
        ctx.check(R, "tuple_key2", "width:" + a, v[b] - v[a] + 1 == 9, "%s..=%s has 9 tags (payload lengths 0..=8)" % (a, b), "%s..=%s has %d tags, expected 9" % (a, b, v[b] - v[a] + 1))
    rng = [set(range(v["SIGNED_NEG_BASE"], v["SIGNED_NEG_LAST"] + 1)), set(range(v["SIGNED_NONNEG_BASE"], v["SIGNED_NONNEG_LAST"] + 1)),
           set(range(v["UNSIGNED_BASE"], v["UNSIGNED_LAST"] + 1)), {v["UNIT_TAG"]}]
    disjoint = sum(len(r) for r in rng) == len(set().union(*rng))
    ctx.check(R, "tuple_key2", "disjoint", disjoint, "signed-, signed+, unsigned ranges and the unit tag are pairwise disjoint", "tag ranges overlap: %s" % v)
    union = set().union(*rng)
    ctx.check(R, "tuple_key2", "span", min(union) == v["INTEGER_TAG_MIN"] and max(union) == v["INTEGER_TAG_MAX"] and union == set(range(min(union), max(union) + 1)),
              "INTEGER_TAG_MIN..=INTEGER_TAG_MAX spans exactly the union (contiguous)", "INTEGER_TAG_MIN/MAX do not span exactly the tag ranges: %s" % v)
    ctx.check(R, "tuple_key2", "below-escape", max(union) < 0x80 and min(union) > 0x01, "all tags are below 0x80 and above the 0x00/0x01 escape bytes",
              "a tag collides with the escape bytes or the high bit: %s" % v)
    # the decoders' tag -> payload-width functions admit exactly such a nine-tag family: the two ends of the range a tag is tested against
    # (in the function, or handed to a helper that tests `(first..=last).contains(&tag)`) are at most 8 apart.  decode_big_endian_payload
    # copies the payload into an 8-byte array on the strength of that (its debug_assert is the only other guard).
    nlen = 0
    for name in ("unsigned_len", "signed_negative_len", "signed_nonnegative_len"):
        f = ctx.fn(R, "tuple_key2::" + name)
        if not f:
            continue
        pairs = []

        def cval(fn, o):
            vs = [x.get("v") for x in P.origins(fn, o) if x["k"] == "const"]
            return vs[0] if len(vs) == 1 and len(P.origins(fn, o)) == 1 else None
        for pt in P.call_points(f, r"RangeInclusive.*::new$"):
            t = P.term_at(f, pt)
            pairs.append((cval(f, t["args"][0]), cval(f, t["args"][1])))
        # `(A..=B).contains(&tag)` with constant ends: the range is a promoted constant whose two ends the extractor evaluated
        for pt in P.call_points(f, r"RangeInclusive.*::contains$"):
            for x in P.origins(f, P.term_at(f, pt)["args"][0]):
                if x["k"] == "const" and x.get("promoted") and len(x.get("pvals") or []) == 2:
                    pairs.append(tuple(x["pvals"]))
        for b, t in f.calls():
            for k_ in ctx.prog.targets(t):
                g = ctx.prog.fns.get(k_)
                if g is None or g.crate != "tuple_key2" or g is f:
                    continue
                for pt in P.call_points(g, r"RangeInclusive.*::new$"):
                    gt = P.term_at(g, pt)
                    ends = []
                    for a in gt["args"][:2]:
                        ps = [x["i"] for x in P.origins(g, a) if x["k"] == "param"]
                        ends.append(cval(f, t["args"][ps[0] - 1]) if len(ps) == 1 and ps[0] - 1 < len(t["args"]) else cval(g, a))
                    pairs.append(tuple(ends))
        nlen += len(pairs)
        for lo, hi in pairs:
            ctx.check(R, f, "decoder-family-width", lo is not None and hi is not None and 0 <= hi - lo <= 8,
                      "%s accepts tags %s..=%s: payload widths 0..=%s" % (name, lo, hi, None if lo is None or hi is None else hi - lo),
                      "%s accepts a tag range that is not a constant family of at most nine tags (%s..=%s): a tag beyond the family decodes to a payload "
                      "of more than 8 bytes, which decode_big_endian_payload copies into an 8-byte array -- a slice-index panic on foreign or damaged "
                      "keys" % (name, lo, hi))
    ctx.floor(R, "tag ranges tested by the integer width decoders", nlen, 3)
    for name in ("is_integer_tag", "is_unit_tag", "is_tag"):
        f = ctx.fn(R, "tuple_key2::" + name)
        if f:
            named = set()
            for b in f.blocks:
                for st in b.st:
                    rv = st.get("rv", {})
                    for kk in ("a", "b"):
                        o = rv.get(kk)
                        if isinstance(o, dict) and o.get("k") == "const" and o["c"].get("named"):
                            named.add(o["c"]["named"].rsplit("::", 1)[-1])
                for a in (b.term.get("args") or []):
                    if a.get("k") == "const" and a["c"].get("named"):
                        named.add(a["c"]["named"].rsplit("::", 1)[-1])
            ctx.ok(R, f, "%s uses %s" % (name, sorted(named)))


# ------------------------------------------------------------------------------------------------
# C16.4 the byte map applied to descending elements, evaluated over all 256 bytes

def byte_map(f):
    """The pure u8 -> u8 function a `for b in bytes.iter_mut() { *b = E(*b) }` loop applies, read from MIR and
    evaluated on every byte: returns (table[256], point of the store) or (None, reason)."""
    defs = P.defs(f)
    store = None
    for b in f.blocks:
        for i, st in enumerate(b.st):
            if st["s"] == "=" and st["lhs"]["p"] == ["*"] and re.match(r"^&('\w+ )?mut u8$", f.locals[st["lhs"]["l"]]):
                if store is not None:
                    return None, "more than one store through a &mut u8"
                store = ((b.idx, i), st)
    if store is None:
        return None, "no `*b = ..` store through a &mut u8 item"
    item = store[1]["lhs"]["l"]

    class Unknown(Exception):
        pass

    def ev_op(o, x, depth=0):
        if o.get("k") == "const":
            v = o["c"].get("v")
            if isinstance(v, int):
                return v & 0xff
            raise Unknown("constant %r" % (v,))
        pl = o["pl"]
        if pl["l"] == item and pl["p"] == ["*"]:
            return x
        if pl["p"]:
            raise Unknown("projection")
        ds = [(pt, k, p_) for (pt, k, p_) in defs.of(pl["l"]) if k in ("assign", "call")]
        if len(ds) != 1 or ds[0][1] != "assign" or depth > 30:
            raise Unknown("local _%d is not a single assignment" % pl["l"])
        return ev_rv(ds[0][2]["rv"], x, depth + 1)

    def ev_rv(rv, x, depth=0):
        r = rv["r"]
        if r == "use":
            return ev_op(rv["a"], x, depth)
        if r == "un":
            a = ev_op(rv["a"], x, depth)
            if rv["op"] == "Not":
                return (~a) & 0xff
            if rv["op"] == "Neg":
                return (-a) & 0xff
            raise Unknown(rv["op"])
        if r == "bin":
            a, b_ = ev_op(rv["a"], x, depth), ev_op(rv["b"], x, depth)
            op = rv["op"].replace("Unchecked", "")
            if op == "BitAnd":
                return a & b_
            if op == "BitOr":
                return a | b_
            if op == "BitXor":
                return a ^ b_
            if op == "Add":
                return (a + b_) & 0xff
            if op == "Sub":
                return (a - b_) & 0xff
            if op == "Shl":
                return (a << b_) & 0xff
            if op == "Shr":
                return a >> b_
            raise Unknown(op)
        raise Unknown(r)

    try:
        return [ev_rv(store[1]["rv"], x) for x in range(256)], store[0]
    except Unknown as e:
        return None, "cannot evaluate the byte map (%s)" % e


def c164(ctx):
    R = "C16.4"
    ctx.declare(R, "the byte map applied to descending elements reverses the order of encodings, including encodings one of which ends "
                   "where the other continues")
    f = ctx.fn(R, "tuple_key::reverse_encoding")
    if not f:
        return
    tab, where = byte_map(f)
    if tab is None:
        ctx.violate(R, f, "byte-map", "reverse_encoding is not a readable per-byte map: %s" % where)
        return
    # who applies it: only extend_with_key on the element's own bytes under Direction::Reverse (and the parser's inverse)
    ctx.ok(R, f, "byte map read from MIR and evaluated on all 256 bytes (f(0x00)=%#04x, f(0x61)=%#04x, f(0x80)=%#04x)" % (tab[0], tab[0x61], tab[0x80]), [where])
    inv = all(tab[tab[x]] == x for x in range(256))
    ctx.check(R, f, "involution", inv, "the map is its own inverse (parse_from applies it again to decode)", "the descending byte map is not an involution: decoding does not restore the element", pt=where)
    keep = all((tab[x] & 1) == (x & 1) for x in range(256))
    ctx.check(R, f, "keeps-continuation-bit", keep, "bit 0 (continuation / terminator marker) is preserved, so TupleKeyIterator finds the same element boundaries",
              "the descending byte map changes the continuation bit: element boundaries are lost", pt=where)
    bad = [(a, b) for a in range(0, 256, 2) for b in range(0, 256, 2) if a < b and not (tab[a] >> 1) > (tab[b] >> 1)]
    ctx.check(R, f, "data-bits-reversed", not bad, "for bytes with different data bits the order is reversed (a < b => f(a) > f(b), 8128 pairs)",
              "data bits are not order-reversed, e.g. f(%#04x) vs f(%#04x)" % (bad[0] if bad else (0, 0)), pt=where)
    # variable-length elements: x is a proper prefix of y and y continues with zero data bits up to the end of the shared byte:
    # enc(x) has d|0 (terminator) where enc(y) has d|1.  Descending order needs f(d|0) > f(d|1).
    worse = [d for d in range(0, 256, 2) if not tab[d] > tab[d | 1]]
    ctx.check(R, f, "prefix-order", not worse,
              "a terminator byte sorts after the continuation byte with the same data bits once reversed (prefixes sort last when descending)",
              "descending variable-length elements that are prefixes of one another sort ASCENDING: the byte where the shorter value ends "
              "(d|0) and the longer one continues (d|1) keeps its order under the map for all %d values of d (f(0x80)=%#04x < f(0x81)=%#04x); "
              "e.g. \"a\" vs \"a\\0\" and \"abcdefg\" vs \"abcdefgh\" under Direction::Reverse" % (len(worse), tab[0x80], tab[0x81]), pt=where)
    # the map is applied to exactly the element's bytes under Direction::Reverse
    cs = K.callers_of(ctx, r"^tuple_key::reverse_encoding$", crates=("tuple_key",))
    ctx.check(R, "tuple_key", "appliers", len(cs) >= 2, "reverse_encoding is applied by the encoder and the parser (%s)" % sorted(cs),
              "reverse_encoding has %d callers" % len(cs))


# ------------------------------------------------------------------------------------------------
# C16.5 the width function of the compact format, tabulated exactly

def c165(ctx):
    R = "C16.5"
    ctx.declare(R, "tuple_key2 integers are written with exactly their number of significant bytes: the width function is tabulated "
                   "over the whole u64 domain (it is piecewise constant) and compared with ceil(bits / 8)")
    from blue import pwc
    f = ctx.fn(R, "tuple_key2::minimal_u64_len")
    if not f:
        return
    try:
        tab = pwc.tabulate(f)
    except pwc.NotInClass as e:
        ctx.violate(R, f, "width-table", "minimal_u64_len cannot be tabulated (%s); the order of integer encodings across width boundaries is not decided" % e)
        return
    want = [(0, 0, 0)] + [(1 << (8 * (k - 1)), (1 << (8 * k)) - 1, k) for k in range(1, 9)]
    bad = None
    if tab != want:
        for (lo, hi, v) in tab:
            for (wl, wh, wv) in want:
                if lo <= wh and wl <= hi and v != wv:
                    bad = (max(lo, wl), min(hi, wh), v, wv)
                    break
            if bad:
                break
    ctx.check(R, f, "width-table", tab == want,
              "minimal_u64_len(v) = number of significant bytes of v for every u64 (9 intervals, boundaries at powers of 256)",
              "minimal_u64_len is %s on [%#x, %#x] where values have %s significant bytes: the tag encodes the width, so integers on the two "
              "sides of this band compare by the wrong width and sort out of order (a width that is too small would also truncate the "
              "payload)" % ((bad[2], bad[0], bad[1], bad[3]) if bad else ("?", 0, 0, "?")))
    # both directions use the same function: encoder and canonical-form check of the decoder
    users = K.callers_of(ctx, r"^tuple_key2::minimal_u64_len$", crates=("tuple_key2",))
    enc = [k for k in users if re.search(r"push_|encode|append", k)]
    dec = [k for k in users if re.search(r"decode|parse", k)]
    ctx.check(R, "tuple_key2", "width-users", bool(enc) and bool(dec), "the encoder (%d fns) and the decoder's canonical-width check (%d fns) share it" % (len(enc), len(dec)),
              "minimal_u64_len is no longer shared by encoder and decoder: %s" % sorted(users))


def c166(ctx):
    """The sign-offset mapping (tuple_key::ordered) is tabulated exactly as a piecewise translation x -> x + c (blue.pwc): encode must be
    strictly increasing from the signed order of its argument to the unsigned order of its result (byte-wise comparison of the packed
    big-endian digits is unsigned order), and decode must be its inverse on every value."""
    from blue import pwc
    R = "C16.6"
    ctx.declare(R, "the sign-offset mapping of signed integers is an order isomorphism onto the unsigned integers and decode inverts it")
    for w in ("32", "64"):
        enc = ctx.fn(R, "tuple_key::ordered::encode_i" + w)
        dec = ctx.fn(R, "tuple_key::ordered::decode_i" + w)
        if not enc or not dec:
            continue
        try:
            et = pwc.tabulate_translation(enc)
            dt = pwc.tabulate_translation(dec)
        except pwc.NotInClass as e:
            ctx.check(R, enc, "tabulate", False, "", "encode_i%s / decode_i%s are no longer piecewise translations of their argument (%s): cannot tabulate them" % (w, w, e))
            continue
        uty, ity = "u" + w, "i" + w
        bad = None
        prev_hi = None
        for lo, hi, c in et:
            if not isinstance(c, int):
                bad = "encode_i%s is %s on [%d, %d]" % (w, c, lo, hi)
                break
            a, b = pwc.wrap(lo + c, uty), pwc.wrap(hi + c, uty)
            if b - a != hi - lo:
                bad = "encode_i%s wraps inside [%d, %d]: the images of two values there are out of order" % (w, lo, hi)
                break
            if prev_hi is not None and not prev_hi < a:
                bad = "encode_i%s maps %d to %d, not above the image %d of the value before it" % (w, lo, a, prev_hi)
                break
            prev_hi = b
        ctx.check(R, enc, "order-isomorphism", bad is None, "encode_i%s is strictly increasing from signed to unsigned order on every value (%d piece(s) tabulated)" % (w, len(et)),
                  bad or "")
        if bad:
            continue
        inv = None
        for lo, hi, c in et:
            a, b = pwc.wrap(lo + c, uty), pwc.wrap(hi + c, uty)
            for dlo, dhi, dc in dt:
                x, y = max(a, dlo), min(b, dhi)
                if x > y:
                    continue
                if not isinstance(dc, int) or pwc.wrap(x + dc, ity) != lo + (x - a):
                    inv = "decode_i%s(encode_i%s(v)) != v for v = %d" % (w, w, lo + (x - a))
        ctx.check(R, dec, "decode-inverts-encode", inv is None, "decode_i%s inverts encode_i%s on every value" % (w, w), inv or "")
    # the Element impls go through the mapping
    n = 0
    for f in ctx.prog.fns.values():
        if f.crate == "tuple_key" and f.impl_trait and f.impl_trait.endswith("tuple_key::Element") and f.impl_self in ("i32", "i64"):
            want = {"append_to": "encode_i", "parse_from": "decode_i"}.get(f.name)
            if not want:
                continue
            n += 1
            calls = {callee_skey(t) or "" for _b, t in f.calls()}
            ctx.check(R, f, "uses-mapping", ("tuple_key::ordered::" + want + f.impl_self[1:]) in calls, "%s::%s goes through ordered::%s%s" % (f.impl_self, f.name, want, f.impl_self[1:]),
                      "%s::%s does not use ordered::%s%s" % (f.impl_self, f.name, want, f.impl_self[1:]))
    ctx.floor(R, "signed Element append_to / parse_from", n, 4)


# ------------------------------------------------------------------------------------------------
# C16.7 tuple_key2 byte-string framing (0x00 -> 0x00 0xff, terminator 0x00 0x00): writer and reader agree

def _u8_const(o):
    if o.get("k") == "const" and "v" in o["c"] and str(o["c"].get("ty", "u8")) == "u8":
        return o["c"]["v"]
    return None


def _vec_u8_pushes(f):
    out = []
    for b, t in f.calls():
        ck = callee_skey(t) or ""
        if re.search(r"alloc::vec::Vec::push$", ck) and len(t["args"]) == 2 and "Vec<u8" in (f.locals[K.ref_base(f, t["args"][0])] if K.ref_base(f, t["args"][0]) is not None else "Vec<u8"):
            out.append((P.term_pt(f, b.idx), t))
    return out


def byte_facts(f, pt):
    """Facts (base locals of the byte, constant, holds) established by the switch edges dominating pt: comparisons of a u8 with
    a constant and switches on a u8 value."""
    out = []
    for g in K.compare_guards(f, pt, user_only=False):
        if g["op"] not in ("Eq", "Ne"):
            continue
        a, b = g["a"], g["b"]
        if _u8_const(a) is not None:
            a, b = b, a
        c = _u8_const(b)
        if c is None:
            continue
        out.append((frozenset(K.base_locals(f, a)), c, (g["op"] == "Eq") == g["holds"]))
    for bb, lab in P.guards_of(f, pt):
        d = f.blocks[bb].term["discr"]
        if d.get("k") in ("copy", "move") and ((not d["pl"]["p"] and f.locals[d["pl"]["l"]] == "u8") or
                                               (d["pl"]["p"] == ["*"] and f.locals[d["pl"]["l"]] in ("&u8", "&mut u8"))):
            arms = [v for v, _ in f.blocks[bb].term["arms"]]
            m = re.match(r"sw:(\d+)$", lab)
            if m and int(m.group(1)) in arms:
                out.append((frozenset(K.base_locals(f, d) | {d["pl"]["l"]}), int(m.group(1)), True))
            else:
                for v in arms:
                    out.append((frozenset(K.base_locals(f, d) | {d["pl"]["l"]}), v, False))
    return out


def c167(ctx):
    R = "C16.7"
    ctx.declare(R, "tuple_key2 byte strings: a NUL is written as 00 ff and only a NUL is, the element ends with 00 00, and the reader undoes exactly that")
    ESC, NUL = 255, 0
    writers = []
    for f in sorted(ctx.prog.fns.values(), key=lambda f: f.skey):
        if f.crate != "tuple_key2" or f.kind == "Closure":
            continue
        if any(_u8_const(t["args"][1]) == ESC for _pt, t in _vec_u8_pushes(f)):
            writers.append(f)
    ctx.floor(R, "functions writing the escape byte", len(writers), 1)
    entry = ctx.fn(R, "tuple_key2::encode_bytes")
    for f in writers:
        pushes = _vec_u8_pushes(f)
        elem = [(pt, t) for pt, t in pushes if _u8_const(t["args"][1]) is None]
        for pt, t in pushes:
            if _u8_const(t["args"][1]) != ESC:
                continue
            facts = byte_facts(f, pt)
            ok = False
            why = "no comparison of a payload byte with 0x00 dominates it"
            for locs, c, holds in facts:
                if c == NUL and holds:
                    # the byte compared is a byte this iteration has just written
                    prior = [q for q, tq in pushes if q != pt and not P.order(f, [q], [pt]) and
                             ((_u8_const(tq["args"][1]) is None and locs & K.base_locals(f, tq["args"][1])) or
                              (_u8_const(tq["args"][1]) == NUL and any(c2 == NUL and h2 for _l2, c2, h2 in byte_facts(f, q))))]
                    if prior:
                        ok = True
                    else:
                        why = "the byte compared with 0x00 is not the byte written just before the escape"
            ctx.check(R, f, "escape-after-compared-nul", ok, "0xff is written only behind a payload byte that compared equal to 0x00",
                      "%s writes the escape 0xff where %s: every byte after 0x00 other than ff/00 is an invalid pair to the reader, and an escape after a "
                      "non-NUL byte changes the order of the encoding (not shown; accepted form: `out.push(b); if b == 0 { out.push(0xff) }`)" % (f.skey, why), pt=pt)
        # every payload byte is written once per iteration of a loop over the whole payload
        heads = [P.term_pt(f, b.idx) for b, t in f.calls() if re.search(r"Iterator>::next$|::next$", callee_skey(t) or "") and
                 P.reach(f, P.after(f, P.term_pt(f, b.idx)), [P.term_pt(f, b.idx)]) is not None]
        ctx.floor(R, "%s payload loop" % f.skey, len(heads), 1)
        for h in heads:
            ity = K.loop_iterator_type(f, h)
            sub = K.loop_source_subslice(f, h)
            whole = ("slice::iter::Iter<" in ity and not K.DROPPING_ADAPTERS.search(ity) and sub is None)
            ctx.check(R, f, "whole-payload", whole, "the loop visits every byte of the payload in order (%s)" % ity,
                      "%s does not walk the payload byte by byte (%s%s): bytes handled by another path must be shown to be framed identically" %
                      (f.skey, ity, ", narrowed by %s" % sub if sub else ""), pt=h)
            q = P.reach(f, P.after(f, h), [h], avoid={pt for pt, _t in pushes} | set(P.return_points(f)))
            ctx.check(R, f, "every-byte-written", q is None, "every iteration writes the payload byte", "an iteration can skip writing its payload byte", pt=h, path=q)
        # the element ends with 00 00 and nothing after
        tail = [pt for pt, t in pushes if _u8_const(t["args"][1]) == NUL and P.reach(f, P.after(f, pt), [pt]) is None]
        if f is not entry and not tail:
            continue
        ok = len(tail) == 2 and all(P.must_pass(f, [pt]) is None for pt in tail)
        later = [pt for pt, _t in pushes if pt not in tail and any(P.reach(f, P.after(f, tp), [pt]) is not None for tp in tail)]
        ctx.check(R, f, "terminator", ok and not later, "the element ends with 0x00 0x00 on every path and nothing is written after it",
                  "%s does not end every element with exactly 0x00 0x00" % f.skey)
    if entry is not None:
        ctx.check(R, entry, "one-writer", [w.skey for w in writers] == ["tuple_key2::encode_bytes"], "encode_bytes is the only function that writes escapes",
                  "escapes are written by %s" % [w.skey for w in writers])
    # the reader
    f = ctx.fn(R, "tuple_key2::TupleKeyParser::bytes")
    if f:
        pushes = _vec_u8_pushes(f)
        ctx.floor(R, "pushes into the decoded payload", len(pushes), 2)
        for pt, t in pushes:
            facts = byte_facts(f, pt)
            c = _u8_const(t["args"][1])
            if c is not None:
                nul = any(cc == NUL and h for _l, cc, h in facts)
                esc = any(cc == ESC and h for _l, cc, h in facts)
                ctx.check(R, f, "unescape", c == NUL and nul and esc, "0x00 0xff decodes to 0x00",
                          "the reader writes the constant %#x where it has not seen 0x00 followed by 0xff" % c, pt=pt)
            else:
                locs = K.base_locals(f, t["args"][1])
                notnul = any(cc == NUL and not h and (l & locs) for l, cc, h in facts)
                ctx.check(R, f, "literal", notnul, "a byte other than 0x00 is copied as it is", "the reader copies a byte that was not compared unequal to 0x00", pt=pt)
        for pt in P.ok_points(f):
            facts = byte_facts(f, pt)
            nuls = [l for l, cc, h in facts if cc == NUL and h]
            ctx.check(R, f, "terminator-read", len(nuls) >= 2 and len(set(nuls)) >= 2, "the element ends at 0x00 0x00 and nowhere else",
                      "the reader ends a byte string without having seen 0x00 0x00", pt=pt)
        ctx.floor(R, "Ok exits of the reader", len(P.ok_points(f)), 1)


# ------------------------------------------------------------------------------------------------
# C16.8 one element, one seven-bit run: the terminator (low bit clear) appears once, at the element's end

def c168(ctx):
    R = "C16.8"
    ctx.declare(R, "a variable-length element of the field-numbered format is packed by ONE Iterate7BitChunks over the whole value: the last chunk of a "
                   "run has its continuation bit clear, so a value packed in several runs carries a terminator in its middle and sorts against the "
                   "next field's tag there")
    n = 0
    for f in sorted(ctx.prog.fns.values(), key=lambda f: f.key):
        if f.crate != "tuple_key" or f.name != "append_to" or not (f.impl_trait or "").startswith("tuple_key::Element"):
            continue
        reach = [f] + [g for k_ in ctx.prog.reach([f.key], crates={"tuple_key"}, depth=2) for g in [ctx.prog.fns.get(k_)] if g is not None and g is not f]
        news = [(g, p_) for g in reach for p_ in P.call_points(g, r"tuple_key::iter7::Iterate7BitChunks::new$")]
        if not news:
            continue
        n += 1
        ok = len(news) == 1
        why = "%d runs are started" % len(news)
        if ok:
            g, p_ = news[0]
            in_loop = P.reach(g, P.after(g, p_), [p_]) is not None
            t = P.term_at(g, p_)
            narrowed = any(x["k"] == "call" and re.search(r"index::index$|Index.*::index$|::(chunks|chunks_exact|split_at|get)$", x["callee"]) for x in P.origins(g, t["args"][0]))
            whole = any(x["k"] == "param" and x["i"] == 1 for x in P.origins(g, t["args"][0]))
            ok = not in_loop and not narrowed and (whole or g is not f)
            why = "the run is started inside a loop" if in_loop else ("the run covers a part of the value" if narrowed else "the run does not start from the value itself")
        ctx.check(R, f, "one-run-per-element", ok, "%s packs the whole value in one seven-bit run" % strip_generics(f.impl_self or ""),
                  "%s::append_to does not pack the value in one seven-bit run (%s): each run ends with a chunk whose continuation bit is clear, which "
                  "readers and byte-wise comparison take for the end of the element" % (strip_generics(f.impl_self or ""), why), pt=news[0][1] if news[0][0] is f else None)
    ctx.floor(R, "variable-length Element impls", n, 1)
