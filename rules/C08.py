"""C08 — no needed file is removed: deletion capability (who may delete/move what), reference-count
guards, the verifier's two-phase unlink, the orphan scan, snapshot pinning."""
import re

from blue import prim as P
from blue.facts import callee_skey, strip_generics
from . import common as K

EXPLANATION = (
    "C08 structural clauses: (C08.1) every remove/rename/hard_link call site in lsmtk, sst, mani and their binaries is "
    "enumerated from the resolved program and its path argument classified by the path helper it originates from: nothing "
    "under sst/, mani/ or the log files is ever unlinked, an sst/ file is only ever renamed to trash/ by the two "
    "reference-guarded functions, a log only to trash/; parameter-carried paths are resolved at their callers; (C08.2) the "
    "move to trash is guarded by ReferenceCounter::dec()==true and strong_count==1, new versions are referenced before the "
    "swap and old ones unreferenced after it, VersionRef::drop unrefs, the tree references its files before the orphan "
    "scan; (C08.3) the verifier logs its intent (files+'O'+'M') after verify_one and before unlinking, unlinks a fragment "
    "only when the intent names it, and only trash/ entries listed in its manifest; (C08.4) the orphan scan skips each "
    "fragment's first edit, applies rm before add and moves to trash/ rather than unlinking; (C08.5) a reader snapshot "
    "must own the VersionRef that pins its files (known finding F3).  who-may-call/ORIGIN/GUARDED/ORDER/ESCAPE over MIR.")
NOT_DECIDED = ("that reference counts are numerically right for every history (re-created setsums, concurrent drops) and crash "
               "points inside a verifier pass")
ASSUMPTIONS = ["path helpers (SST_FILE, TRASH_SST, ...) build the directories their names say"]

TREE = "lsmtk::tree::LsmTree::"
KVS = "lsmtk::kvs::KeyValueStore::"
VER = "lsmtk::verifier::LsmVerifier::"

HELPER = re.compile(r"^(lsmtk|mani)::([A-Z][A-Z_]+)$")
PROTECTED = {"SST_FILE", "SST_ROOT", "MANI_ROOT", "LOG_FILE", "MANIFEST", "BACKUP", "VERIFY_ROOT", "INGEST_ROOT"}
SCRATCH = {"TEMP_FILE", "TEMP_ROOT", "COMPACTION_DIR", "COMPACTION_ROOT", "TRASH_ROOT", "TRASH_SST", "TRASH_LOG", "TEMPORARY"}

# which function may unlink which kind of scratch path
DELETE_OWNERS = {
    "TRASH_ROOT": {"lsmtk::verifier::LsmVerifier::possibly_complete_processing"},
    "TRASH_SST": {"lsmtk::verifier::LsmVerifier::possibly_complete_processing"},
    "TRASH_LOG": {"lsmtk::verifier::LsmVerifier::possibly_complete_processing"},
}
# tmp/, compaction/ staging and MANIFEST.tmp hold nothing that is needed once their owner is done: any function may
# clean them (no owner table, so adding e.g. a stale-temp sweep on open raises no alarm)

DEL = r"^std::fs::(remove_file|remove_dir|remove_dir_all)$"
REN = r"^std::fs::rename$"
LNK = r"^std::fs::hard_link$"
CRATES = ("lsmtk", "sst", "mani", "utilz")


def in_scope(f):
    return f.crate in CRATES or f.crate.startswith(("lsmtk_", "mani_", "sst_", "log_", "jester_"))


def path_class(fn, op):
    """Path helpers in the origin of a path operand, plus 'param:<i>' when it is carried by a parameter."""
    cls = set()
    for s in P.origins(fn, op):
        if s["k"] == "call":
            m = HELPER.match(s["callee"])
            if m:
                cls.add(m.group(2))
            elif s["callee"].endswith("DirEntry::path"):
                cls.add("DIRENT")
        elif s["k"] == "param":
            cls.add("param:%d" % s["i"])
        elif s["k"] == "field" and s["f"] in ("sst_dir", "log_dir"):
            cls.add("OPT:" + s["f"])
    # a helper result dominates: `TRASH_ROOT(&self.root).join(..)` has class TRASH_ROOT (self is a param too)
    named = {c for c in cls if not c.startswith("param:")}
    return named if named else cls


# parameter-carried paths, resolved one level up (frozen flows, each with its reason)
PARAM_FLOWS = {
    ("lsmtk::tree::LsmTree::compaction_finish", "remove_file"):
        "paths = SstMultiBuilder::seal() of a builder created under compaction_setup's COMPACTION_DIR (checked at both callers)",
    ("lsmtk::tree::LsmTree::compaction_finish", "remove_dir"):
        "compaction_dir is compaction_setup's COMPACTION_DIR (checked at both callers)",
    ("lsmtk::verifier::LsmVerifier::possibly_complete_processing", "remove_file"):
        "entry is a manifest fragment from list_mani_fragments (checked at process_one/verify), unlinked only under the C08.3 guard",
    ("sst::ingest::Jester::convert_builder", "remove_file"):
        "input is the Jester's own just-sealed log under IngestOptions.log_dir (rollover_builder passes self.recent)",
}


def rules(ctx):
    c081(ctx)
    c082(ctx)
    c083(ctx)
    c084(ctx)
    c085(ctx)
    c086(ctx)
    c087(ctx)
    # files are released when the version naming them is superseded; that is sound only if a version is superseded after the
    # manifest edit removing its files is durable (C02.4: Manifest::apply precedes install_version on every path)
    from . import C02
    C02.c024(ctx)


def c087(ctx):
    """Siblings: cleanup_orphans and LsmVerifier::verify_one both turn an edit's removed names into `files to get rid of`.  The orphan scan
    takes the edit's added names back out (insert from rmed, remove from added: C08.4).  The verifier must do the same: an edit that
    removes a file and adds it back -- a compaction whose output is identical to one of its inputs -- leaves the file live; it never reaches
    trash/, so a fragment that waits for it backs off for ever, and when a later fragment really retires it the earlier one unlinks it ahead
    of the fragment that removed it."""
    R = "C08.7"
    ctx.declare(R, "the verifier schedules a removed file for unlinking only if the same edit does not add it back (sibling of the orphan scan's rmed - added)")
    f = ctx.fn(R, VER + "verify_one")
    if not f:
        return
    rmed = P.call_points(f, r"mani::Edit::rmed$")
    added = P.call_points(f, r"mani::Edit::added$")
    ctx.floor(R, "verify_one: reads of the removed names", len(rmed), 1)
    ctx.floor(R, "verify_one: reads of the added names", len(added), 1)
    # the list handed back as `files to remove`: the Vec<Setsum> in the Ok tuple
    lists = set()
    for p_ in P.ok_points(f):
        st = f.blocks[p_[0]].st[p_[1]]
        for s_ in P.origins(f, st["rv"]["ops"][0]):
            if s_["k"] == "agg" and s_["st"]["rv"].get("tuple"):
                for o in s_["st"]["rv"]["ops"]:
                    if o.get("k") in ("copy", "move") and f.locals[o["pl"]["l"]].startswith("alloc::vec::Vec<setsum::Setsum"):
                        lists |= {o["pl"]["l"]} | {l_ for l_ in K.user_locals(f, o) if f.locals[l_].startswith("alloc::vec::Vec<setsum::Setsum")}
    ctx.floor(R, "verify_one: removal list returned", len(lists), 1)
    pushes = [p_ for p_ in P.call_points(f, r"alloc::vec::Vec.*::(push|insert)$|HashSet.*::insert$") if lists & K.base_locals(f, P.term_at(f, p_)["args"][0])]
    ctx.floor(R, "verify_one: pushes to the removal list", len(pushes), 1)
    for p_ in pushes:
        ok = False
        # (a) the push lies behind a membership test against something filled from edit.added() ...
        for bb, lab, srcs in K.guards(f, p_):
            for s_ in srcs:
                if s_["k"] == "call" and re.search(r"::(contains|contains_key|any|binary_search)$", s_["callee"]):
                    coll = K.base_locals(f, s_["t"]["args"][0])
                    fills = [q_ for q_ in P.call_points(f, r"alloc::vec::Vec.*::(push|extend)$|HashSet.*::(insert|extend)$|::collect$") if coll & (K.base_locals(f, P.term_at(f, q_)["args"][0]) | {P.term_at(f, q_)["dest"]["l"]})]
                    from_added = any(P.reach(f, P.after(f, a_), [q_]) is not None for a_ in added for q_ in fills)
                    neg = sum(1 for x in srcs if x["k"] == "un" and x["op"] == "Not")
                    absent_edge = "sw:0" if neg % 2 == 0 else "sw:1"
                    if from_added and lab == absent_edge:
                        ok = True
        # (b) ... or the added names are taken back out of the list afterwards (retain / remove), as the orphan scan does
        for q_ in P.call_points(f, r"alloc::vec::Vec.*::(retain|remove|swap_remove)$|HashSet.*::remove$"):
            if lists & K.base_locals(f, P.term_at(f, q_)["args"][0]) and any(P.reach(f, P.after(f, a_), [q_]) is not None for a_ in added):
                ok = True
        ctx.check(R, f, "removed-minus-added", ok, "a removed name is scheduled for unlinking only if the same edit does not add it back",
                  "LsmVerifier::verify_one schedules every removed name of an edit for unlinking, also one the same edit adds back (a compaction whose "
                  "output is identical to an input): the file stays live and never reaches trash/, so the fragment backs off for ever; once a later "
                  "fragment really retires the file, this one unlinks it before that fragment has been verified, whose verification then fails with "
                  "NotFound on every pass", pt=p_)


def c081(ctx):
    R = "C08.1"
    ctx.declare(R, "who may delete or move which files")
    n_del = n_ren = n_lnk = 0
    for f in sorted(ctx.prog.fns.values(), key=lambda f: f.key):
        if not in_scope(f):
            continue
        for pt in P.call_points(f, DEL):
            n_del += 1
            t = P.term_at(f, pt)
            op = (callee_skey(t) or "").rsplit("::", 1)[-1]
            cls = path_class(f, t["args"][0])
            bad = cls & PROTECTED
            if bad:
                ctx.violate(R, f, "%s(%s)" % (op, "|".join(sorted(bad))), "%s unlinks a path built by %s: files under sst/, mani/ and "
                            "the logs are never unlinked by the store" % (f.skey, sorted(bad)), pt=pt)
            elif cls and cls <= SCRATCH:
                owners = set()
                for c in cls:
                    owners |= DELETE_OWNERS.get(c, set())
                ctx.check(R, f, "%s(%s)" % (op, "|".join(sorted(cls))), (f.skey in owners) or not (cls & set(DELETE_OWNERS)),
                          "%s of a %s path by its owner %s" % (op, sorted(cls), f.skey),
                          "%s deletes a %s path; only %s may (trash/ is emptied only by the verifier's intent-logged pass, "
                          "staging areas only by the thread that owns them)" % (f.skey, sorted(cls), sorted(owners)), pt=pt)
            elif cls == {"DIRENT"} and f.skey == "lsmtk_watch_for_ingest::main":
                ctx.exception(R, f.skey, "remove_file(DIRENT)", "removes entries of the ingest/ drop directory listing after ingesting them")
                ctx.ok(R, f, "remove_file of an ingest/ directory entry (excepted)", [pt])
            else:
                why = PARAM_FLOWS.get((f.skey, op))
                if why and (not cls or all(c.startswith("param:") for c in cls)):
                    ctx.exception(R, f.skey, op + "(param)", why)
                    ctx.ok(R, f, "%s of a parameter-carried path (resolved at callers)" % op, [pt])
                else:
                    ctx.violate(R, f, "%s(%s)" % (op, "|".join(sorted(cls)) or "unknown"),
                                "%s deletes a path of unknown origin %s (not a scratch/trash helper, not a frozen parameter flow)" % (f.skey, sorted(cls)), pt=pt)
        for pt in P.call_points(f, REN):
            n_ren += 1
            t = P.term_at(f, pt)
            src, dst = path_class(f, t["args"][0]), path_class(f, t["args"][1])
            if "SST_FILE" in src:
                ok = dst == {"TRASH_SST"} and f.skey in (TREE + "explicit_unref", TREE + "cleanup_orphans")
                ctx.check(R, f, "rename(SST_FILE)", ok, "an sst/ file is renamed to TRASH_SST by a reference-guarded function",
                          "an sst/ file is moved to %s by %s" % (sorted(dst), f.skey), pt=pt)
            elif "LOG_FILE" in src:
                ok = dst == {"TRASH_ROOT"} and f.skey in (KVS + "_memtable_thread", KVS + "recover_one")
                ctx.check(R, f, "rename(LOG_FILE)", ok, "a log is renamed into trash/ by the flush thread or recovery",
                          "a log file is moved to %s by %s" % (sorted(dst), f.skey), pt=pt)
            elif src & PROTECTED:
                ctx.violate(R, f, "rename(%s)" % "|".join(sorted(src)), "%s renames a protected path %s" % (f.skey, sorted(src)), pt=pt)
            elif src == {"TEMPORARY"} and dst == {"MANIFEST"} and f.skey == "mani::Manifest::rollover":
                ctx.ok(R, f, "rollover renames TEMPORARY over MANIFEST (C02.3)", [pt])
            elif f.skey == "sst::ingest::Jester::convert_builder":
                ctx.exception(R, f.skey, "rename(OPT)", "Jester renames its own <setsum>.tmp to <setsum>.sst inside IngestOptions.sst_dir")
                ctx.ok(R, f, "Jester renames its own temporary output (excepted)", [pt])
            else:
                ctx.violate(R, f, "rename(%s->%s)" % ("|".join(sorted(src)) or "unknown", "|".join(sorted(dst)) or "unknown"),
                            "%s renames a path of unknown origin" % f.skey, pt=pt)
        for pt in P.call_points(f, LNK):
            n_lnk += 1
            t = P.term_at(f, pt)
            dst = path_class(f, t["args"][1])
            ok = dst in ({"SST_FILE"}, {"BACKUP"})
            ctx.check(R, f, "hard_link", ok, "hard_link creates %s" % sorted(dst), "hard_link destination has unexpected origin %s" % sorted(dst), pt=pt)
    ctx.floor(R, "delete sites", n_del, 11)
    ctx.floor(R, "rename sites", n_ren, 7)
    ctx.floor(R, "hard_link sites", n_lnk, 4)
    # parameter flows, one level up
    for caller in ("perform_compaction", "perform_garbage_collection"):
        f = ctx.fn(R, TREE + caller)
        if not f:
            continue
        cf = ctx.calls(R, f, TREE + r"compaction_finish$")
        for pt in cf:
            t = P.term_at(f, pt)
            ok_dir = any(c.endswith("LsmTree::compaction_setup") for c in P.origin_calls(f, t["args"][2]))
            ok_paths = any(re.search(r"SstMultiBuilder as sst::Builder>::seal$", c) for c in P.origin_calls(f, t["args"][3]))
            nb = P.call_points(f, r"sst::SstMultiBuilder::new$")
            ok_new = bool(nb) and all(any(c.endswith("LsmTree::compaction_setup") for c in P.origin_calls(f, P.term_at(f, p)["args"][0])) for p in nb)
            ctx.check(R, f, "flow:compaction_finish", ok_dir and ok_paths and ok_new,
                      "compaction_finish receives compaction_setup's directory and the outputs of a builder created in it",
                      "compaction_finish is handed paths that do not come from the compaction staging directory", pt=pt)
    f = ctx.fn(R, TREE + "compaction_setup")
    if f:
        oks = P.ok_points(f)
        for pt in oks:
            st = f.blocks[pt[0]].st[pt[1]]
            cls = set()
            for s in P.origins(f, st["rv"]["ops"][0]):
                if s["k"] == "call" and HELPER.match(s["callee"]):
                    cls.add(HELPER.match(s["callee"]).group(2))
            ctx.check(R, f, "flow:compaction_dir", "COMPACTION_DIR" in cls and not (cls & PROTECTED),
                      "compaction_setup returns a COMPACTION_DIR path", "compaction_setup's directory is not a COMPACTION_DIR", pt=pt)
    f = ctx.fn(R, VER + "process_one")
    if f:
        for pt in ctx.calls(R, f, VER + r"possibly_complete_processing$", floor=2):
            ctx.check(R, f, "flow:entry", any(s["k"] == "param" and s["i"] == 2 for s in P.origins(f, P.term_at(f, pt)["args"][1])),
                      "possibly_complete_processing receives process_one's own entry", "possibly_complete_processing is given a different path", pt=pt)
    f = ctx.fn(R, VER + "verify")
    if f:
        for pt in ctx.calls(R, f, VER + r"process_one$"):
            ctx.check(R, f, "flow:fragments", any(c.endswith("verifier::list_mani_fragments") for c in P.origin_calls(f, P.term_at(f, pt)["args"][1])),
                      "process_one is given entries of list_mani_fragments", "process_one is given a path that is not a manifest fragment", pt=pt)
    callers = K.callers_of(ctx, VER + r"(process_one|possibly_complete_processing)$")
    ctx.check(R, "lsmtk::verifier", "flow:callers", set(callers) <= {VER + "verify", VER + "process_one"},
              "process_one / possibly_complete_processing are called only from verify / process_one", "unexpected caller: %s" % sorted(callers))


def c082(ctx):
    R = "C08.2"
    ctx.declare(R, "an sst leaves sst/ only when its last reference is dropped; versions are referenced before they are published")
    f = ctx.fn(R, TREE + "explicit_unref")
    if f:
        for pt in ctx.calls(R, f, REN):
            g1 = K.guarded_by_call(f, pt, r"reference_counter::ReferenceCounter::dec$", label="sw:1", recv_field="references")
            ctx.check(R, f, "dec-guard", g1 is not None, "the rename is taken only on the true edge of references.dec(setsum)",
                      "an sst is moved to trash without its reference count having reached zero", pt=pt)
            g2 = [g for g in K.compare_guards(f, pt) if "strong_count()" in (K.src_names(f, g["a"]) | K.src_names(f, g["b"]))
                  and "#1" in (K.src_names(f, g["a"]) | K.src_names(f, g["b"]))
                  and ((g["op"] == "Ne" and not g["holds"]) or (g["op"] == "Eq" and g["holds"]))]
            ctx.check(R, f, "strong-count-guard", bool(g2), "unref acts only when Arc::strong_count(version) == 1",
                      "files are unreferenced while other holders of the version exist", pt=pt)
            # the renamed file is the one whose count dropped
            t = P.term_at(f, pt)
            ctx.check(R, f, "same-setsum", path_class(f, t["args"][0]) == {"SST_FILE"} and path_class(f, t["args"][1]) == {"TRASH_SST"},
                      "rename is SST_FILE(setsum) -> TRASH_SST(setsum)", "rename arguments are not SST_FILE -> TRASH_SST", pt=pt)
    f = ctx.fn(R, TREE + "install_version")
    if f:
        er = ctx.calls(R, f, TREE + "explicit_ref$")
        lk = ctx.calls(R, f, r"Mutex.*::lock$", arg_pred=K.recv_is_field("version"), what="version.lock")
        sw = ctx.calls(R, f, r"core::mem::swap$")
        eu = ctx.calls(R, f, TREE + "explicit_unref$")
        ctx.order_chain(R, f, [("explicit_ref(new)", er), ("version.lock", lk), ("mem::swap", sw), ("explicit_unref(old)", eu)])
        ctx.must_pass(R, f, "explicit_unref(old)", eu, goals=P.return_points(f))
    # every function that changes the current version (writes through the guard of LsmTree.version) follows that protocol: a trivial move
    # keeps the file set, but the outgoing version still gives its references up when its last holder (a scan, a stalled ingest) lets go,
    # so the incoming version needs references of its own
    pubs = []
    for g in sorted(ctx.prog.fns.values(), key=lambda g: g.key):
        if g.crate != "lsmtk":
            continue
        dm = [p_ for p_ in P.call_points(g, r"MutexGuard.*DerefMut>::deref_mut$") if "Arc<lsmtk::tree::Version" in str(P.term_at(g, p_).get("ga"))]
        if dm:
            pubs.append((g, dm))
    ctx.floor(R, "functions that replace the current version", len(pubs), 1)
    for g, dm in pubs:
        er = P.call_points(g, TREE + "explicit_ref$")
        eu = P.call_points(g, TREE + "explicit_unref$")
        ctx.check(R, g, "publish-refs-first", bool(er) and not P.order(g, er, dm), "the new version's files are referenced before the current version is replaced",
                  "%s replaces the current version without first taking references for the new version's files: when the last holder of the "
                  "outgoing version lets go, its unref brings files the current version uses to zero and they are moved to trash" % g.skey, pt=dm[0])
        ctx.check(R, g, "publish-unrefs-old", bool(eu) and P.must_pass(g, eu, goals=P.return_points(g), starts=[a for d_ in dm for a in P.after(g, d_)]) is None,
                  "the outgoing version is unreferenced after it was replaced", "%s replaces the current version and does not unreference the outgoing one on every path" % g.skey, pt=dm[0])
    f = ctx.fn(R, TREE + "explicit_unref")
    if f:
        decs = P.call_points(f, r"reference_counter::ReferenceCounter.*::dec$")
        ctx.floor(R, "explicit_unref: count decrements", len(decs), 1)
        for pt in decs:
            extra = []
            for bb, lab, srcs in K.guards(f, pt):
                names = {x.get("callee", "").rsplit("::", 1)[-1] for x in srcs if x["k"] == "call"}
                if any(x["k"] == "call" and re.search(r"Iterator>?::next$", x["callee"]) for x in srcs):
                    continue
                if any(x["k"] == "call" and x["callee"].endswith("Arc::strong_count") for y in srcs if y["k"] == "bin" for o in (y["st"]["rv"]["a"], y["st"]["rv"]["b"]) for x in P.origins(f, o)):
                    continue
                extra.append("bb%d %s" % (bb, "/".join(sorted(names)) or "condition"))
            ctx.check(R, f, "last-holder-always-unrefs", not extra, "the last holder's unref depends on nothing but strong_count == 1",
                      "explicit_unref skips the decrements under a further condition (%s): a version that keeps files alive for its holders must give "
                      "exactly those references up, no more and no fewer" % ", ".join(extra), pt=pt)
    f = ctx.fn(R, "<lsmtk::tree::VersionRef as core::ops::drop::Drop>::drop")
    if f:
        ctx.must_pass(R, f, "explicit_unref", ctx.calls(R, f, TREE + "explicit_unref$"), goals=P.return_points(f))
    f = ctx.fn(R, TREE + "from_manifest")
    if f:
        er = ctx.calls(R, f, TREE + "explicit_ref$")
        co = ctx.calls(R, f, TREE + "cleanup_orphans$")
        ctx.order_chain(R, f, [("explicit_ref(initial version)", er), ("cleanup_orphans", co)])
    f = ctx.fn(R, TREE + "take_snapshot")
    if f:
        # a snapshot clones the Arc under the version lock (so strong_count > 1 while it lives)
        cl = ctx.calls(R, f, r"alloc::sync::Arc.*Clone>::clone$|Arc::clone$")
        h = P.held(ctx.prog, f)
        for pt in cl:
            ctx.check(R, f, "clone-under-lock", "LsmTree.version" in h.locks_at(pt), "the version Arc is cloned while LsmTree.version is held",
                      "take_snapshot clones the version without holding the version lock", pt=pt)
    g = ctx.fn(R, "lsmtk::reference_counter::ReferenceCounter::dec")
    if g:
        # returns true only where the entry is removed
        for b in g.blocks:
            for i, st in enumerate(b.st):
                if st["s"] == "=" and st["lhs"]["l"] == 0 and st["rv"].get("r") == "use" and st["rv"]["a"].get("k") == "const" and st["rv"]["a"]["c"].get("v") == 1:
                    rm = P.call_points(g, r"OccupiedEntry.*::remove$")
                    ctx.check(R, g, "dec-true", bool(rm) and not P.order(g, rm, [(b.idx, i)]), "dec returns true only after removing the entry",
                              "dec returns true without removing the count entry", pt=(b.idx, i))


    if g:
        # the entry is removed exactly when the count is at its last reference: the remove is on the edge `count <= 1` (or `== 1`, `< 2`),
        # and on the other edge the count goes down by exactly one
        def last_ref_edge(pt):
            for x in K.compare_guards(g, pt, user_only=False):
                c = x["b"]["c"].get("v") if x["b"].get("k") == "const" else None
                fromget = any(s_["k"] == "call" and re.search(r"OccupiedEntry.*::get(_mut)?$", s_["callee"]) for s_ in P.origins(g, x["a"]))
                if not fromget or c is None:
                    continue
                if (x["op"], c, x["holds"]) in (("Le", 1, True), ("Eq", 1, True), ("Lt", 2, True), ("Gt", 1, False), ("Ge", 2, False), ("Ne", 1, False)):
                    return "last"
                if (x["op"], c, x["holds"]) in (("Le", 1, False), ("Lt", 2, False), ("Gt", 1, True), ("Ge", 2, True)):
                    return "more"
            return None
        for pt in P.call_points(g, r"OccupiedEntry.*::remove$"):
            ctx.check(R, g, "dec-removes-last", last_ref_edge(pt) == "last", "the count entry is removed only when the count is at most 1",
                      "dec removes the count entry (and reports `unreferenced`) while other versions may still reference the file", pt=pt)
        subs = [(b.idx, i) for b in g.blocks for i, st in enumerate(b.st) if st["s"] == "=" and st["rv"]["r"] == "bin" and st["rv"]["op"].startswith("Sub")]
        ctx.floor(R, "dec decrements", len(subs), 1)
        for pt in subs:
            rv = g.blocks[pt[0]].st[pt[1]]["rv"]
            one = rv["b"].get("k") == "const" and rv["b"]["c"].get("v") == 1
            ctx.check(R, g, "dec-by-one", one and last_ref_edge(pt) == "more", "with more than one reference left the count goes down by exactly one",
                      "dec does not lower a count above 1 by exactly one", pt=pt)
    h2 = ctx.fn(R, "lsmtk::reference_counter::ReferenceCounter::inc")
    if h2:
        adds = [(b.idx, i) for b in h2.blocks for i, st in enumerate(b.st) if st["s"] == "=" and st["rv"]["r"] == "bin" and st["rv"]["op"].startswith("Add")]
        ok = len(adds) == 1 and h2.blocks[adds[0][0]].st[adds[0][1]]["rv"]["b"].get("k") == "const" and h2.blocks[adds[0][0]].st[adds[0][1]]["rv"]["b"]["c"].get("v") == 1
        ctx.check(R, h2, "inc-by-one", ok and P.must_pass(h2, adds) is None, "inc raises the count by exactly one on every path", "inc does not raise the count by exactly one on every path")


def c083(ctx):
    R = "C08.3"
    ctx.declare(R, "the verifier unlinks only what a durable intent record names, after verifying the fragment")
    f = ctx.fn(R, VER + "process_one")
    if f:
        pc = ctx.calls(R, f, VER + r"possibly_complete_processing$", floor=2)
        vo = ctx.calls(R, f, VER + r"verify_one$")
        ap = ctx.calls(R, f, r"mani::Manifest::apply$")
        pc2 = [p for p in pc if not P.order(f, ap, [p])]
        ctx.check(R, f, "second-pass", len(pc2) == 1, "exactly one possibly_complete_processing follows the intent record",
                  "the completing pass does not follow the intent record (found %d)" % len(pc2))
        ctx.order_chain(R, f, [("verify_one", vo), ("Manifest::apply(intent)", ap), ("possibly_complete_processing (2nd)", pc2)])
        # the intent carries 'O' and 'M'
        for a in ap:
            infos = P.call_points(f, r"mani::Edit::info$")
            chars = set()
            for ip in infos:
                if not P.order(f, [ip], [a]):
                    chars |= {chr(c["v"]) for c in K.arg_consts(f, ip, 1) if "v" in c}
            ctx.check(R, f, "intent-fields", {"O", "M"} <= chars, "the intent edit sets 'O' and 'M' before it is applied",
                      "the intent edit lacks 'O' or 'M' (has %s)" % sorted(chars), pt=a)
        # a file is added to the intent only when it is present in trash/
        adds = ctx.calls(R, f, r"mani::Edit::add$", floor=2)
        for pt in adds:
            g = [1 for bb, lab, srcs in K.guards(f, pt) for s in srcs if s["k"] == "call" and s["callee"].endswith("Path::exists") and
                 path_class(f, s["t"]["args"][0]) & {"TRASH_SST", "TRASH_LOG"}]
            ctx.check(R, f, "exists-guard", bool(g), "Edit::add is guarded by exists() of the TRASH_SST/TRASH_LOG path",
                      "a file is recorded for unlinking without having been seen in trash/", pt=pt)
    f = ctx.fn(R, VER + "possibly_complete_processing")
    if f:
        rms = ctx.calls(R, f, r"^std::fs::remove_file$", floor=2)
        ap = ctx.calls(R, f, r"mani::Manifest::apply$")
        for pt in rms:
            t = P.term_at(f, pt)
            cls = path_class(f, t["args"][0])
            if cls == {"TRASH_ROOT"}:
                # the joined name comes from the verifier manifest's strs
                ok = False
                for s in P.origins(f, t["args"][0]):
                    if s["k"] == "call" and s["callee"].endswith("::join") and len(s["t"]["args"]) > 1:
                        ok = ok or any(c.endswith("Manifest::strs") for c in P.origin_calls(f, s["t"]["args"][1]))
                ctx.check(R, f, "trash-unlink", ok, "unlinks TRASH_ROOT.join(<name listed in the verifier manifest>)",
                          "unlinks a trash path that is not taken from the verifier manifest", pt=pt)
            else:
                g = None
                for bb, lab, srcs in K.guards(f, pt):
                    for s in srcs:
                        if s["k"] == "call" and re.search(r"PartialEq.*>::eq$|::eq$", s["callee"]) and lab != "sw:0":
                            names = set()
                            for a in s["t"]["args"]:
                                names |= {c.rsplit("::", 1)[-1] for c in P.origin_calls(f, a)}
                            if "extract_backup" in names:
                                g = (bb, lab)
                ctx.check(R, f, "fragment-unlink", g is not None, "the fragment is unlinked only when the intent's 'M' names it (log_num_old == log_num_new)",
                          "a manifest fragment is unlinked without the intent record naming it", pt=pt)
        # the clearing edit is applied after the unlink loop
        for a in ap:
            bad = [r for r in rms if P.reach(f, P.after(f, a), [r]) is not None]
            ctx.check(R, f, "clear-after-unlink", not bad, "the clearing Manifest::apply comes after all unlinks",
                      "an unlink can follow the clearing edit", pt=a)
        # everything happens only when 'M' is set
        for pt in rms:
            g = K.guarded_by_call(f, pt, r"mani::Manifest::info$")
            ctx.check(R, f, "needs-intent", g is not None, "unlinks happen only when the verifier manifest has an 'M' intent",
                      "an unlink is reachable without an intent record", pt=pt)


def c084(ctx):
    R = "C08.4"
    ctx.declare(R, "the orphan scan never selects a file the manifest still lists and never unlinks")
    f = ctx.fn(R, TREE + "cleanup_orphans")
    if not f:
        return
    ins = ctx.calls(R, f, r"HashSet.*::insert$")
    rem = ctx.calls(R, f, r"HashSet.*::remove$")
    rmed = ctx.calls(R, f, r"mani::Edit::rmed$")
    added = ctx.calls(R, f, r"mani::Edit::added$")
    ctx.order_chain(R, f, [("Edit::rmed", rmed), ("Edit::added", added)], cycles=True)
    for pt in ins:
        ctx.check(R, f, "insert-from-rmed", not P.order(f, rmed, [pt]) and bool(P.order(f, added, [pt])),
                  "the removal set grows only from rmed entries", "the removal set grows from something other than rmed entries", pt=pt)
    for pt in rem:
        ctx.check(R, f, "remove-from-added", not P.order(f, added, [pt]), "added entries are taken back out of the removal set",
                  "added entries are not removed from the removal set", pt=pt)
    # the first edit of each fragment (the roll-up) is skipped: rmed/added are dominated by the false edge of `first`
    for pt in rmed:
        g = [lab for bb, lab, srcs in K.guards(f, pt)
             if srcs and all(s["k"] == "const" and s.get("v") in (0, 1) for s in srcs) and {s.get("v") for s in srcs} == {0, 1} and lab == "sw:0"]
        if not g:
            # the same skip written with enumerate(): rmed/added lie behind the not-equal edge of `idx == 0` on the running index of an
            # un-reversed enumerate over the edits of the fragment
            for tst in K.value_tests(f, lambda fn_, o_: any(s_["k"] == "index" and s_.get("from") == 0 and s_.get("plain") for s_ in P.origins(fn_, o_))):
                if tst["value"] != 0:
                    continue
                for (b_, lab_) in tst["eq_edges"]:
                    other_ = [l2 for l2, _s in f.blocks[b_].succs if l2 != lab_]
                    if len(other_) == 1 and P.edge_dominates(f, b_, other_[0], pt):
                        g = ["enumerate"]
        ctx.check(R, f, "skip-first", bool(g), "the first edit of every fragment is skipped (rmed/added are reached only on the false edge of a boolean flag that is set then cleared)",
                  "the roll-up edit of a fragment is no longer skipped", pt=pt)
    rn = ctx.calls(R, f, REN)
    for pt in rn:
        t = P.term_at(f, pt)
        ctx.check(R, f, "to-trash", path_class(f, t["args"][0]) == {"SST_FILE"} and path_class(f, t["args"][1]) == {"TRASH_SST"},
                  "orphans are renamed SST_FILE -> TRASH_SST", "orphans are not moved to TRASH_SST", pt=pt)
    ctx.check(R, f, "no-unlink", not P.call_points(f, DEL), "the orphan scan unlinks nothing", "the orphan scan unlinks files")
    # the scan decides from the manifest alone and ignores reference counts: it may run only while nobody can hold a version,
    # i.e. from the functions that open the tree (it takes the tree by exclusive reference for the same reason)
    callers = K.callers_of(ctx, r"lsmtk::tree::LsmTree::cleanup_orphans$", crates=("lsmtk",))
    opening = {k for k in callers if re.search(r"tree::LsmTree::(open|from_manifest|new)$", k)}
    ctx.check(R, f, "only-at-open", bool(callers) and set(callers) == opening,
              "cleanup_orphans is called only while the tree is being opened (%s)" % sorted(P.short(k) for k in callers),
              "cleanup_orphans is called from %s: at run time a retired file can still be pinned by a cursor or an in-flight read, and the scan moves "
              "it to trash regardless of its reference count" % sorted(k for k in callers if k not in opening))
    ctx.check(R, f, "exclusive-receiver", f.locals[1].startswith("&mut "), "cleanup_orphans takes the tree by exclusive reference",
              "cleanup_orphans no longer requires exclusive access to the tree (receiver type %s)" % f.locals[1])
    # the scan folds fragments in the order list_mani_fragments returns them: rm X in an older fragment is cancelled by add X in a
    # newer one only if older fragments come first, i.e. the fragments are ordered by their backup *number* (MANIFEST.10 after
    # MANIFEST.9), with the live MANIFEST last
    lf = ctx.fn(R, "lsmtk::verifier::list_mani_fragments")
    if lf:
        lists = ctx.calls(R, f, r"lsmtk::verifier::list_mani_fragments$")
        sorts = [p_ for p_ in P.call_points(lf, r"(alloc|core)::slice::(<impl \[T\]>::)?sort(_unstable)?(_by_key|_by|_by_cached_key)?$")]
        ctx.check(R, lf, "fragments-sorted", bool(sorts), "list_mani_fragments sorts the fragments", "list_mani_fragments no longer sorts the fragments it returns")
        for p_ in sorts:
            t = P.term_at(lf, p_)
            ga = (t.get("ga") or "")
            numeric = bool(re.match(r"^\[(u64|u32|usize|u128|\(u64,.*)", ga))
            by_number = False
            for a in t["args"][1:]:
                for s_ in P.origins(lf, a):
                    if s_["k"] == "agg" and s_.get("closure"):
                        g = ctx.prog.fns.get(s_["closure"]) or next((x for x in ctx.prog.fns.values() if x.skey == strip_generics(s_["closure"])), None)
                        if g is not None and any((callee_skey(t2) or "").endswith("mani::extract_backup") for _b2, t2 in g.calls()):
                            by_number = True
                if a.get("k") == "const" and "extract_backup" in str(a["c"].get("fn", "")):
                    by_number = True
            ctx.check(R, lf, "fragments-numeric-order", numeric or by_number,
                      "the fragments are ordered by their backup number (%s)" % ("numbers from extract_backup are sorted" if numeric else "sort key is extract_backup"),
                      "the fragments are sorted as %s, not by backup number: MANIFEST.10 sorts before MANIFEST.2, so with ten or more fragments an older "
                      "`rm X` is folded after the newer `add X` and a listed file is moved to trash" % ga, pt=p_)
        mf = P.call_points(lf, r"mani::MANIFEST$")
        pushes = [p_ for p_ in P.call_points(lf, r"Vec.*::push$") if any(c.endswith("mani::MANIFEST") for c in P.origin_calls(lf, P.term_at(lf, p_)["args"][1]))]
        ctx.check(R, lf, "live-manifest-last", bool(pushes) and all(not P.order(lf, sorts, [p_]) for p_ in pushes) and
                  all(P.reach(lf, P.after(lf, p_), sorts) is None for p_ in pushes),
                  "the live MANIFEST is appended after the sort", "the live MANIFEST is not appended last")


def escape_check(ctx, R, f, ty_rx, what):
    """ESCAPE: a local whose type matches ty_rx must be *moved* (into an aggregate or a call other than
    mem::drop) on every success path, i.e. handed on to the result instead of being dropped at scope end."""
    locs = [i for i, t in enumerate(f.locals) if re.search(ty_rx, t) and not t.startswith("&") and i > 0]
    if not locs:
        ctx.violate(R, f, "no-local", "no local of type %s in %s" % (ty_rx, f.skey), kind="below-floor")
        return
    moves = []
    for b in f.blocks:
        for i, st in enumerate(b.st):
            if st["s"] != "=":
                continue
            rv = st["rv"]
            ops = list(rv.get("ops", ())) + [rv[k] for k in ("a", "b") if isinstance(rv.get(k), dict)]
            if any(o.get("k") == "move" and not o["pl"]["p"] and o["pl"]["l"] in locs for o in ops):
                if not (st["lhs"]["l"] in locs and not st["lhs"]["p"]):   # moving between two such locals is not an escape
                    moves.append((b.idx, i))
        t = b.term
        if t["t"] == "call" and not (callee_skey(t) or "").endswith("mem::drop"):
            if any(o.get("k") == "move" and not o["pl"]["p"] and o["pl"]["l"] in locs for o in t["args"]):
                if not (t["dest"]["l"] in locs):
                    moves.append(P.term_pt(f, b.idx))
    # where the snapshot is created
    born = [P.term_pt(f, b.idx) for b, t in f.calls() if t["dest"]["l"] in locs and not t["dest"]["p"]]
    p = P.must_pass(f, moves) if moves else P.reach(f, P.ENTRY, P.return_points(f), avoid=P.error_points(f))
    if p is not None:
        ctx.violate(R, f, "drop %s" % strip_generics(f.locals[locs[0]]), what, pt=born[0] if born else None, path=p)
    else:
        ctx.ok(R, f, "the %s local is moved into the result on every success path" % ty_rx, moves[:3])


def c085(ctx, R="C08.5"):
    ctx.declare(R, "a cursor returned to the caller owns the VersionRef that pins the files it will open lazily")
    for key in (KVS + "range_scan", TREE + "range_scan"):
        f = ctx.fn(R, key)
        if f:
            escape_check(ctx, R, f, r"lsmtk::tree::VersionRef<", "the scan's VersionRef is dropped before the cursor is returned: "
                         "compaction can move the snapshot's not-yet-opened SSTs to trash/ (and the verifier unlink them) under a live cursor")
    # ... and keeps it for as long as it lives: the pin is a plain VersionRef field that is set when the cursor is built and never written
    # again (an exhausted cursor can still be rewound, and a lazily opened table is re-opened by path)
    a = ctx.prog.adts.get("lsmtk::tree::PinnedCursor")
    pins = [fl for v in (a["variants"] if a else []) for fl in v["fields"] if "VersionRef" in fl[1]]
    ctx.check(R, "lsmtk::tree::PinnedCursor", "pin-field", len(pins) == 1 and strip_generics(pins[0][1]).startswith("lsmtk::tree::VersionRef"),
              "PinnedCursor holds its VersionRef by value (%s)" % (pins[0][1] if pins else None),
              "PinnedCursor does not hold a VersionRef by value (%s): a pin that can be absent can be given up while the cursor is still usable" % [p_[1] for p_ in pins])
    for fl in pins:
        for g in sorted(ctx.prog.fns.values(), key=lambda g: g.key):
            if g.crate != "lsmtk":
                continue
            for pt in P.field_writes(g, r"tree::PinnedCursor$", fl[0]):
                ctx.check(R, g, "pin-never-rewritten", False, "",
                          "%s writes the cursor's version pin after the cursor was built: once the pin is gone the tables the cursor re-opens lazily can be "
                          "moved to trash under it" % g.skey, pt=pt)


# ------------------------------------------------------------------------------------------------
# C08.6 a new version is derived from the version that is current when it is installed

def c086(ctx, R="C08.6"):
    ctx.declare(R, "a version is installed on top of the version read in the same critical section: after every wait that releases the "
                   "tree lock the base version is read again before it is used (a stale base drops the outputs of compactions committed "
                   "meanwhile, and releasing it retires files the manifest lists)")
    n = 0
    for name, derive in (("apply_manifest_ingest", r"lsmtk::tree::Version::ingest$"),
                         ("apply_manifest_compaction", r"lsmtk::tree::Version::(compact|apply_compaction|install_compaction)\w*$"),
                         ("apply_moving_compaction", r"lsmtk::tree::Version::\w+$")):
        f = ctx.fn(R, TREE + name)
        if not f:
            continue
        ins = ctx.calls(R, f, r"lsmtk::tree::LsmTree::install_version$")
        waits = P.call_points(f, r"Condvar::wait(_while|_timeout)?$")
        snaps = P.call_points(f, r"lsmtk::tree::LsmTree::take_snapshot$")
        # the call that derives the new version: the one whose result (through Arc::new etc.) is installed
        der = []
        for i_ in ins:
            for s_ in P.origins(f, P.term_at(f, i_)["args"][1]):
                if s_["k"] == "call" and s_["callee"].startswith("lsmtk::tree::Version::") and not P.TRANSPARENT.search(s_["callee"]):
                    der.append(s_["pt"])
        der = sorted(set(der))
        if not ctx.floor(R, name + ": derivation of the installed version", len(der), 1):
            continue
        for dpt in der:
            n += 1
            t = P.term_at(f, dpt)
            base = [s_["pt"] for s_ in P.origins(f, t["args"][0]) if s_["k"] == "call" and s_["callee"].endswith("LsmTree::take_snapshot")]
            ctx.check(R, f, "base-is-snapshot", bool(base), "%s derives the new version from a take_snapshot() of the tree" % P.short(callee_skey(t)),
                      "the base of the installed version is not a snapshot of the current version", pt=dpt)
            h = P.held(ctx.prog, f)
            ctx.check(R, f, "held:derive", "LsmTree.compaction" in h.locks_at(dpt, must=True), "derived with LsmTree.compaction held",
                      "the new version is derived without holding LsmTree.compaction", pt=dpt)
            for w in waits:
                q = P.reach(f, P.after(f, w), [dpt], avoid=set(base))
                ctx.check(R, f, "reread-after-wait", q is None,
                          "after the stall wait the base version is read again before the new version is derived from it",
                          "the new version can be derived from a snapshot taken before the stall wait (which releases the tree lock): compactions "
                          "committed meanwhile are missing from the installed version, and releasing the superseded version retires their outputs "
                          "although the manifest lists them", pt=w, path=q)
    ctx.floor(R, "installed-version derivations", n, 2)
