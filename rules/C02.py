"""C02 — acknowledged writes survive a crash: durability/ordering protocol + error discipline."""
import re

from blue import prim as P
from blue.facts import callee_skey, strip_generics
from . import common as K

EXPLANATION = (
    "C02 structural clauses: (C02.1) KeyValueStore::write returns Ok only after ConcurrentLogBuilder::append, which "
    "returns Ok only on the true edge of the fsync queue's result, whose core returns true only from the synced "
    "watermark or the return value of fdatasync; (C02.2) SstBuilder::seal: flush < sync_all < Sst::new; (C02.3) "
    "Manifest::_apply: write_all < flush < sync_data < rollover, Manifest::rollover: hard_link < _apply(tmp) < rename; "
    "(C02.4) hard_link < manifest apply < install_version in ingest and compaction; (C02.5) the log is retired only "
    "after its SST is durable and named by the manifest (flush thread and recovery); (C02.6) no storage error is "
    "dropped, discarded or turned into a panic on the write/flush/compaction/recovery paths; (C02.7) files that may "
    "hold unreplayed data are opened create_new / append, never truncate.  Primitives: MUSTPASS, ORDER, GUARDED, "
    "ORIGIN, R-ERR over the resolved MIR CFGs.")
NOT_DECIDED = ("the crash-state enumeration itself (reachable directory images, all-or-nothing recovery of each), "
               "torn-write tolerance of recover, lost-suffix persistence models")
ASSUMPTIONS = ["File::sync_all/sync_data/fdatasync make preceding writes to that descriptor durable",
               "rename and hard_link are atomic directory operations"]

KVS = "lsmtk::kvs::KeyValueStore::"
TREE = "lsmtk::tree::LsmTree::"

RERR_EXCEPTIONS = {
    ("lsmtk::verifier::LsmVerifier::get_cursor", "err-arm-ignored(file_manager::open_without_manager)"):
        "location fallback: trash/<setsum> is tried, then sst/<setsum>, then trash/ again with `?`, so the final failure is the one reported",
    ("lsmtk::tree::LsmTree::explicit_unref", "discard fs::rename"):
        "a failed move leaves an orphan in sst/, the safe side of C08; not on any acknowledgement path",
    ("lsmtk::tree::LsmTree::cleanup_orphans", "discard fs::rename"):
        "a failed move leaves an orphan in sst/, the safe side of C08; not on any acknowledgement path",
    ("lsmtk::tree::LsmTree::compaction_thread", "discard Version::release_compaction"):
        "already on the error path: the original compaction error is returned instead",
    ("mani::Manifest::to_edit", "expect(Edit::add)"): "strings re-added from the in-memory state were admitted once already",
    ("mani::Manifest::to_edit", "expect(Edit::info)"): "strings re-added from the in-memory state were admitted once already",
    ("<sst::log::WriteCoalescingCore as sync42::work_coalescing_queue::WorkCoalescingCore>::batch", "expect(WriteBatch::merge)"):
        "can_batch performs the same size check first (WorkCoalescingQueue calls batch only after can_batch)",
}


def rules(ctx):
    c021(ctx)
    c022(ctx)
    c023(ctx)
    c024(ctx)
    c025(ctx)
    c026(ctx)
    c027(ctx)
    c028(ctx)
    c029(ctx)
    from . import C13
    C13.c131(ctx)   # the manifest reader delivers an edit only at its separator (a torn tail is dropped whole)
    C13.c135(ctx)   # an edit is replayed remove-then-add
    C13.c136(ctx)   # a file that may end in a torn edit is rewritten before anything is appended to it
    C13.c138(ctx)   # a handle whose write failed appends nothing more behind the torn edit
    from . import C12
    C12.c127(ctx)   # a log builder whose write failed acknowledges nothing more behind the torn frame


# ---------------------------------------------------------------------------------------------------
def c021(ctx):
    R = "C02.1"
    ctx.declare(R, "an Ok from write() implies the covering fdatasync returned success")
    c021_fsync_inputs(ctx, R)
    f = ctx.fn(R, KVS + "write")
    if f:
        app = ctx.calls(R, f, r"sst::log::ConcurrentLogBuilder::append$", arg_pred=K.recv_is_field("mem_log"),
                        what="ConcurrentLogBuilder::append(mem_log)")
        ctx.must_pass(R, f, "ConcurrentLogBuilder::append on state.mem_log", app)
    f = ctx.fn(R, "sst::log::ConcurrentLogBuilder::append")
    if f:
        wq = ctx.calls(R, f, r"WorkCoalescingQueue::do_work$", arg_pred=K.recv_is_field("write_cq"), what="write_cq.do_work")
        fq = ctx.calls(R, f, r"WorkCoalescingQueue::do_work$", arg_pred=K.recv_is_field("fsync_cq"), what="fsync_cq.do_work")
        ctx.order_chain(R, f, [("write_cq.do_work", wq), ("fsync_cq.do_work", fq)])
        oks = P.ok_points(f)
        ctx.floor(R, f.skey + " Ok exits", len(oks), 1)
        for pt in oks:
            g = K.guarded_by_call(f, pt, r"WorkCoalescingQueue::do_work$", label="sw:1", recv_field="fsync_cq")
            ctx.check(R, f, "Ok-unguarded", g is not None,
                      "Ok(()) is reachable only through the true edge of fsync_cq.do_work",
                      "Ok(()) at %s is not dominated by the success edge of fsync_cq.do_work" % P.pt_loc(f, pt), pt=pt)
        # the offset handed to the fsync queue is what the write queue returned
        for pt in fq:
            srcs = K.arg_calls(f, pt, 1)
            ctx.check(R, f, "fsync-arg", any(re.search(r"do_work$", s) for s in srcs),
                      "fsync_cq.do_work argument originates in write_cq.do_work's result",
                      "the offset passed to fsync_cq.do_work does not come from write_cq.do_work", pt=pt)
    f = ctx.fn(R, "<sst::log::WriteCoalescingCore as sync42::work_coalescing_queue::WorkCoalescingCore>::work")
    if f:
        ap = ctx.calls(R, f, r"sst::log::LogBuilder::append$")
        fl = ctx.calls(R, f, r"sst::log::LogBuilder::flush$")
        ctx.order_chain(R, f, [("LogBuilder::append", ap), ("LogBuilder::flush", fl)])
        # every Ok(..) aggregate (the output handed to waiters) is dominated by both calls succeeding
        oks = [(b.idx, i) for b in f.blocks for i, st in enumerate(b.st)
               if st["s"] == "=" and P._is_ok_agg(st["rv"])]
        ctx.floor(R, f.skey + " Ok outputs", len(oks), 1)
        for pt in oks:
            bad = P.order(f, ap, [pt]) or P.order(f, fl, [pt])
            ga = guard_on_result(f, pt, ap)
            gf = guard_on_result(f, pt, fl)
            ctx.check(R, f, "Ok-output", not bad and ga and gf,
                      "Ok(written) is produced only after LogBuilder::append and LogBuilder::flush both returned Ok",
                      "an Ok output is produced without append+flush having succeeded", pt=pt)
        # the offset handed to waiters covers their own batch: it is `written` read *after* the batch length was added to it
        # (the fsync queue skips the sync when synced >= offset, so an offset from before the batch acknowledges it unsynced)
        wr = P.field_writes(f, r"log::WriteCoalescingCore$", "written")
        if not wr:
            # no counter of its own: the token is then something asked of the builder (its offset).  Whatever it is, it must be read *after*
            # the batch went in -- a value from before the append names the start of the batch, and `synced >= start` is already true
            for pt in oks:
                st = f.blocks[pt[0]].st[pt[1]]
                srcs_, _l = P.value_slice(f, st["rv"]["ops"][0])
                reads_ = [x_["pt"] for x_ in srcs_ if x_["k"] == "call" and not P.TRANSPARENT.search(x_["callee"])]
                early = [r_ for r_ in reads_ if P.order(f, ap, [r_])]
                ctx.check(R, f, "token-covers-batch", bool(reads_) and not early,
                          "the Ok(offset) handed to the batch's writers is read from the builder after the batch was appended",
                          "the offset handed to waiters is read before the batch is appended (or is not read from the builder at all): it names the start "
                          "of the batch, and the fsync queue's `synced >= offset` short-cut then acknowledges the batch without a covering fdatasync "
                          "(the first append to a fresh log has offset 0)", pt=pt)
            oks = []
        else:
            ctx.floor(R, f.skey + " written += len", len(wr), 1)
        for w in wr:
            st = f.blocks[w[0]].st[w[1]]
            srcs, _l = P.value_slice(f, st["rv"].get("a")) if st["rv"]["r"] == "use" else ([], None)
            adds_len = any(s_["k"] == "call" and re.search(r"Vec.*::len$|slice.*::len$", s_["callee"]) and
                           any(x["k"] == "field" and x["f"] == "buffer" for x in P.origins(f, s_["t"]["args"][0])) for s_ in srcs)
            ctx.check(R, f, "written-advance", adds_len, "written advances by the length of the batch buffer", "written does not advance by acc.buffer.len()", pt=w)
        for pt in oks:
            st = f.blocks[pt[0]].st[pt[1]]
            # the statement(s) that read self.written into the Ok payload
            _srcs, slice_locals = P.value_slice(f, st["rv"]["ops"][0])
            reads = [rp for rp in P.field_reads(f, r"log::WriteCoalescingCore$", "written")
                     if rp == pt or (rp[1] < len(f.blocks[rp[0]].st) and f.blocks[rp[0]].st[rp[1]]["lhs"]["l"] in slice_locals and
                                     f.blocks[rp[0]].st[rp[1]]["rv"]["r"] in ("use", "cast", "ref"))]      # a shared borrow (a closure capturing
            # `&self.written`) pins the value from the borrow on: it counts as the read
            token_from_written = any(s_["k"] == "field" and s_["f"] == "written" for s_ in P.origins(f, st["rv"]["ops"][0]))
            stale = [rp for rp in reads if rp not in wr and P.order(f, wr, [rp])]
            ctx.check(R, f, "token-covers-batch", token_from_written and bool(reads) and not stale,
                      "the Ok(offset) handed to the batch's writers is self.written after the batch was added",
                      "the offset handed to waiters is read before `written` includes their batch: the fsync queue's `synced >= offset` short-cut then "
                      "acknowledges the batch without a covering fdatasync (the first append to a fresh log has offset 0)", pt=pt)
    f = ctx.fn(R, "<sst::log::FsyncCoalescingCore as sync42::work_coalescing_queue::WorkCoalescingCore>::work")
    if f:
        c021_fsync_core(ctx, R, f)
    # the token a coalesced fdatasync is asked to cover is the largest offset of the waiters it answers
    f = ctx.fn(R, "<sst::log::FsyncCoalescingCore as sync42::work_coalescing_queue::WorkCoalescingCore>::batch")
    if f:
        from blue import pwc
        try:
            pwc.comparison_only(f, (2, 3))
            tab = {}
            for name, (x, y) in (("acc < seen", (5, 9)), ("acc == seen", (7, 7)), ("acc > seen", (9, 5))):
                tab[name] = (pwc.evaluate(f, 0, env0={1: pwc.OPAQUE, 2: x, 3: y}), max(x, y))
            bad = [n for n, (got, want) in tab.items() if got != want]
            ctx.check(R, f, "batch-is-max", not bad, "the accumulated token is max(acc, seen) under every ordering of the two offsets (comparison-only function, three orderings evaluated)",
                      "the fsync queue's accumulated offset is not the maximum when %s: a waiter with a larger offset is answered by a batch whose token "
                      "the `synced >= acc` short-cut already covers, without a covering fdatasync" % " / ".join(bad))
        except pwc.NotInClass as e:
            ctx.check(R, f, "batch-is-max", False, "", "FsyncCoalescingCore::batch is no longer a comparison-only function of its two offsets (%s): cannot show it returns the maximum" % e)
    # LogBuilder::flush really flushes the BufWriter
    f = ctx.fn(R, "sst::log::LogBuilder::flush")
    if f:
        ctx.must_pass(R, f, "BufWriter::flush", P.call_points(f, r"BufWriter.* as std::io::Write>::flush$|std::io::Write::flush$"),
                      goals=P.return_points(f))


def c021_fsync_inputs(ctx, R):
    """Everything handed to the fsync queue is in one unit: the offset token the write queue returned for a batch, or the constant 0
    (`nothing of mine to cover`).  The core keeps `synced` in that unit and acknowledges `synced >= input` without a sync."""
    n = 0
    for f in sorted(ctx.prog.fns.values(), key=lambda f: f.key):
        if f.crate != "sst" or "::log::" not in f.skey:
            continue
        for p_ in P.call_points(f, r"WorkCoalescingQueue.*::do_work$"):
            t = P.term_at(f, p_)
            if "fsync_cq" not in K.arg_field_names(f, p_, 0):
                continue
            n += 1
            srcs, _ = P.value_slice(f, t["args"][1])
            ok = True
            why = []
            for s_ in srcs:
                if s_["k"] == "const":
                    if s_.get("v") not in (0, None):
                        ok = False
                        why.append("constant %s" % s_.get("v"))
                elif s_["k"] == "call":
                    if s_["callee"].endswith("::do_work") and "write_cq" in K.arg_field_names(f, s_["pt"], 0):
                        continue
                    if P.TRANSPARENT.search(s_["callee"]) or re.search(r"::(unwrap|expect|map_err|branch|from_residual)$", s_["callee"]):
                        continue
                    ok = False
                    why.append(P.short(s_["callee"]))
                elif s_["k"] in ("param", "bin"):
                    ok = False
                    why.append(s_["k"])
            ctx.check(R, f, "fsync-input-is-a-write-token", ok, "the fsync queue is asked to cover the write queue's token (or 0)",
                      "%s hands the fsync queue a value that is not a write-queue token (%s): the core compares it with `synced`, which counts in the "
                      "write queue's unit, and a larger foreign value pushes the mark past bytes that were never synced -- later appends are "
                      "acknowledged without an fdatasync" % (f.skey, ", ".join(sorted(set(why)))), pt=p_)
    ctx.floor(R, "inputs handed to the fsync queue", n, 2)


def guard_on_result(fn, pt, call_pts):
    """pt is dominated by a switch edge whose discriminant derives from the result of one of call_pts,
    and that edge is not the Err arm (value 1 of a Result discriminant / `if let Err`)."""
    dests = {P.term_at(fn, c)["dest"]["l"] for c in call_pts}
    for bb, lab, srcs in K.guards(fn, pt):
        for s in srcs:
            if s["k"] == "call" and s["pt"] in set(call_pts) and lab != "sw:1":
                return True
    return False


def c021_fsync_core(ctx, R, f):
    # the function that issues the sync: found by what it does (a function of the crate that calls libc::fdatasync / fsync), wherever it
    # is nested and whatever it is called (work::fsync today)
    fs = []
    for b_, t_ in f.calls():
        g_ = ctx.prog.fns.get(t_.get("callee") or "")
        if g_ is not None and g_.crate == "sst" and P.call_points(g_, r"^libc::(\w+::)*(fdatasync|fsync)$"):
            fs.append(P.term_pt(f, b_.idx))
    direct = False
    if not fs:
        fs = P.call_points(f, r"^libc::(\w+::)*(fdatasync|fsync)$")      # the sync function was a new helper that was looked through
        direct = bool(fs)
    if not ctx.floor(R, f.skey + " fsync call", len(fs), 1):
        return
    SYNC_FNS = {P.term_at(f, p_).get("callee") for p_ in fs}
    SYNC_SK = {strip_generics(k_) for k_ in SYNC_FNS if k_}

    def from_sync(srcs_):
        """some source is the verdict of the sync: its return value, or a comparison of it (`fdatasync(fd) == 0`)"""
        for s_ in srcs_:
            if s_["k"] == "call" and s_["callee"] in SYNC_SK:
                return True
            if s_["k"] == "bin":
                rv_ = s_["st"]["rv"]
                if any(x_["k"] == "call" and x_["callee"] in SYNC_SK for o_ in (rv_["a"], rv_["b"]) for x_ in P.origins(f, o_)):
                    return True
        return False
    # the local fsync fn must reach fdatasync/fsync
    for pt in ([] if direct else fs):
        callee = P.term_at(f, pt).get("callee")
        g = ctx.prog.fns.get(callee)
        ok = False
        if g:
            sy = P.call_points(g, r"^libc::(\w+::)*(fdatasync|fsync)$")
            ok = bool(sy) and P.must_pass(g, sy, goals=P.return_points(g)) is None
            # and its return value derives from that call
            if ok:
                ok = any(re.search(r"libc::.*(fdatasync|fsync)$", c) for c in
                         P.origin_calls(g, {"k": "copy", "pl": {"l": 0, "p": []}}) | _bin_operand_calls(g))
        ctx.check(R, f, "fsync-fn", ok, "the local fsync() calls libc::fdatasync/fsync on every path and returns its verdict",
                  "the local fsync() does not (always) call fdatasync/fsync", pt=pt)
    # every `true` that can flow into the output comes from (a) the synced>=acc edge or (b) fsync's result
    rep = P.call_points(f, r"core::iter::repeat$|core::iter::sources::repeat::repeat$")
    ctx.floor(R, f.skey + " outputs", len(rep), 1)

    def synced_guard(p_):
        for bb, lab, ss in K.guards(f, p_):
            for s in ss:
                if s["k"] == "bin" and s["op"] in ("Ge", "Le", "Gt", "Lt"):
                    st = s["st"]["rv"]
                    fa = P.origin_fields(f, st["a"]) | P.origin_fields(f, st["b"])
                    if any(n == "synced" for (_o, n) in fa):
                        return True
        return False

    def const_points(op, p_, seen):
        """points at which a constant that can flow into `op` is produced: the use site itself for a constant operand, else the assignments"""
        if op.get("k") == "const":
            return [(p_, op["c"].get("v"))]
        out = []
        l = op["pl"]["l"]
        if l in seen or op["pl"]["p"]:
            return out
        seen.add(l)
        for q, kind, st in P.defs(f).of(l):
            if kind == "assign" and st["rv"]["r"] == "use":
                out += const_points(st["rv"]["a"], q, seen)
        return out
    n_true = 0
    from_fsync = False
    for pt in rep:
        t = P.term_at(f, pt)
        srcs = P.origins(f, t["args"][0])
        from_fsync = from_fsync or from_sync(srcs)
        for q, v in const_points(t["args"][0], pt, set()):
            ok = v in (0, 1)
            if v == 1:
                n_true += 1
                ok = synced_guard(q)
            ctx.check(R, f, "const-true", ok, "a constant `true` output is produced only under the synced-watermark comparison",
                      "a constant true is returned to waiters without the synced watermark covering them", pt=q)
        others = [s for s in srcs if s["k"] not in ("const", "call", "bin", "un") and not (s["k"] == "param")]
        ctx.check(R, f, "output-origin", any(s["k"] in ("const", "call") for s in srcs) and
                  all(s["callee"] in SYNC_SK or re.search(r"(^|::)(branch|clone|from|into)$", s["callee"]) for s in srcs if s["k"] == "call"),
                  "the output is a constant or the return value of the local fsync()",
                  "the fsync queue's output does not originate in fsync()'s return value", pt=pt)
    ctx.check(R, f, "output-from-fsync", from_fsync, "some output is the verdict of the local fsync()", "no output of the fsync queue derives from fsync()'s return value")
    # self.synced = acc only on the success edge of fsync
    for pt in P.field_writes(f, r"FsyncCoalescingCore$", "synced"):
        ok = False
        for bb, lab, ss in K.guards(f, pt):
            if lab == "sw:1" and from_sync(ss):
                ok = True
        ctx.check(R, f, "synced-write", ok, "self.synced advances only when fsync() returned true",
                  "self.synced is advanced without a successful fsync", pt=pt)


def _bin_operand_calls(g):
    out = set()
    for s in P.origins(g, {"k": "copy", "pl": {"l": 0, "p": []}}):
        if s["k"] == "bin":
            rv = s["st"]["rv"]
            out |= P.origin_calls(g, rv["a"]) | P.origin_calls(g, rv["b"])
    return out


# ---------------------------------------------------------------------------------------------------
def c022(ctx):
    R = "C02.2"
    ctx.declare(R, "an SST is handed out (and later linked into sst/) only after its bytes are durable")
    f = ctx.fn(R, "<sst::SstBuilder as sst::Builder>::seal")
    if f:
        fl = ctx.calls(R, f, r"BufWriter.* as std::io::Write>::flush$")
        sy = ctx.calls(R, f, r"std::fs::File::sync_all$")
        nw = ctx.calls(R, f, r"sst::Sst::new$")
        ctx.order_chain(R, f, [("BufWriter::flush", fl), ("File::sync_all", sy), ("Sst::new", nw)])
        ctx.must_pass(R, f, "File::sync_all", sy)
        ctx.must_pass(R, f, "BufWriter::flush", fl)
        # the sync is the last thing that touches the file: everything written -- the final block too -- is written before it
        WR = r"StackPacker.*::stream$|buffertk::Packable::stream$|std::io::Write::(write|write_all)$|as std::io::Write>::(write|write_all|flush)$"
        wr = P.call_points(f, WR)
        # ... and the calls to functions of the crate that write (SstBuilder::flush_block, the block writer nested in seal), whatever they are named
        for b_, t_ in f.calls():
            g_ = ctx.prog.fns.get(t_.get("callee") or "")
            if g_ is not None and g_.crate == "sst" and g_ is not f and P.call_points(g_, WR):
                wr.append(P.term_pt(f, b_.idx))
        ctx.floor(R, "seal: writes to the output", len(wr), 3)
        for pt in sy:
            q = P.reach(f, P.after(f, pt), wr)
            ctx.check(R, f, "nothing-written-after-sync", q is None, "no write to the table follows sync_all",
                      "seal writes to the table after sync_all: those bytes (the final block) are still dirty pages when the table is linked into sst/, "
                      "recorded in the manifest and its log retired -- a power loss then leaves a listed table that cannot be parsed", pt=pt, path=q)
        # the sync must be applied to the builder's own file
        for pt in sy:
            for g_, q in ctx.direct_sites(f, pt):
                ctx.check(R, g_, "sync-recv", "output" in K.arg_field_names(g_, q, 0),
                          "sync_all receiver is the builder's output file",
                          "sync_all is not applied to self.output", pt=q)
    for name in ("seal", "get_builder", "split_hint"):
        g = ctx.fn(R, "sst::SstMultiBuilder::%s" % name) if name != "seal" else ctx.fn(R, "<sst::SstMultiBuilder as sst::Builder>::seal")
        if g:
            n = K.r_err(ctx, R + ".multi", [g])


# ---------------------------------------------------------------------------------------------------
def c023(ctx):
    R = "C02.3"
    ctx.declare(R, "a manifest edit is on disk before apply returns; rollover never loses the current manifest")
    f = ctx.fn(R, "mani::Manifest::_apply")
    if f:
        wr = ctx.calls(R, f, r"std::io::Write::write_all$|as std::io::Write>::write_all$")
        fl = ctx.calls(R, f, r"std::io::Write::flush$|as std::io::Write>::flush$")
        sy = ctx.calls(R, f, r"std::fs::File::sync_data$|std::fs::File::sync_all$")
        ro = ctx.calls(R, f, r"mani::Manifest::rollover$")
        ctx.order_chain(R, f, [("write_all", wr), ("flush", fl), ("sync_data", sy), ("rollover", ro)])
        ctx.must_pass(R, f, "write_all", wr)
        ctx.must_pass(R, f, "sync_data", sy)
        # the bytes written are the edit string, and every sync result is checked (R-ERR below)
    f = ctx.fn(R, "mani::Manifest::apply")
    if f:
        ap = ctx.calls(R, f, r"mani::Manifest::_apply$")
        ctx.must_pass(R, f, "_apply", ap, goals=P.return_points(f))
        for pt in ap:
            ctx.check(R, f, "apply-path", any(c.endswith("mani::MANIFEST") for c in K.arg_calls(f, pt, 1)),
                      "apply writes to MANIFEST(root)", "apply does not write to the MANIFEST path", pt=pt)
    f = ctx.fn(R, "mani::Manifest::rollover")
    if f:
        hl = ctx.calls(R, f, r"std::fs::hard_link$")
        ap = ctx.calls(R, f, r"mani::Manifest::_apply$")
        rn = ctx.calls(R, f, r"std::fs::rename$")
        # the log has a backup before its roll-up is written: the link is bypassed only on the edge on which the log was found to *be* the newest
        # backup already (a rollover that died after linking is resumed, C13.9)
        same = set()
        for b in P.switch_blocks(f):
            srcs = K.cond_sources(f, b.idx)
            ident = False
            for x in srcs:
                if x["k"] == "call":
                    if re.search(r"::ino$", x["callee"]):
                        ident = True
                    for k_ in ctx.prog.targets(x["t"]):
                        g = ctx.prog.fns.get(k_)
                        if g is not None and g.crate in ("mani", "utilz") and g.locals[0] == "bool" and \
                                any(re.search(r"::ino$", c.get("callee") or "") for _b, c in g.calls()):
                            ident = True
            if ident:
                negs = sum(1 for x in srcs if x["k"] == "un" and x["op"] == "Not")
                ne = any(x["k"] == "bin" and x["op"] == "Ne" for x in srcs)
                same.add((b.idx, "sw:1" if (negs + ne) % 2 == 0 else "sw:0"))
        q = P.reach(f, P.ENTRY, ap, avoid=set(hl), avoid_edges=same) if hl and ap else ()
        ctx.check(R, f, "backup-before-rollup", q is None, "hard_link(MANIFEST->BACKUP) precedes _apply(tmp) on every path on which the log is not already the newest backup",
                  "_apply(tmp) is reachable without first passing hard_link(MANIFEST->BACKUP)", pt=ap[0] if ap else None, path=q or None)
        ctx.order_chain(R, f, [("_apply(tmp)", ap), ("rename(tmp->MANIFEST)", rn)])
        ctx.must_pass(R, f, "rename(tmp->MANIFEST)", rn)
        for pt in hl:
            ctx.check(R, f, "backup-src", any(c.endswith("mani::MANIFEST") for c in K.arg_calls(f, pt, 0)) and
                      any(c.endswith("mani::BACKUP") for c in K.arg_calls(f, pt, 1)),
                      "the backup link is MANIFEST -> BACKUP(n)", "rollover's hard_link is not MANIFEST -> BACKUP", pt=pt)
        for pt in ap:
            ctx.check(R, f, "tmp-dst", any(c.endswith("mani::TEMPORARY") for c in K.arg_calls(f, pt, 1)),
                      "the rolled-up edit is written to TEMPORARY", "rollover does not write the roll-up to TEMPORARY", pt=pt)
        for pt in rn:
            ctx.check(R, f, "rename-args", any(c.endswith("mani::TEMPORARY") for c in K.arg_calls(f, pt, 0)) and
                      any(c.endswith("mani::MANIFEST") for c in K.arg_calls(f, pt, 1)),
                      "rename is TEMPORARY -> MANIFEST", "rollover's rename is not TEMPORARY -> MANIFEST", pt=pt)


# ---------------------------------------------------------------------------------------------------
def c024(ctx):
    R = "C02.4"
    ctx.declare(R, "a version naming a new SST is installed only after the file is linked and the manifest edit returned")
    f = ctx.fn(R, TREE + "_ingest")
    if f:
        hl = ctx.calls(R, f, r"std::fs::hard_link$")
        am = ctx.calls(R, f, TREE + "apply_manifest_ingest$")
        ctx.order_chain(R, f, [("hard_link", hl), ("apply_manifest_ingest", am)])
        ctx.must_pass(R, f, "apply_manifest_ingest", am)
        for pt in hl:
            ctx.check(R, f, "link-dst", any(c.endswith("lsmtk::SST_FILE") for c in K.arg_calls(f, pt, 1)),
                      "ingest links the file to SST_FILE(setsum)", "ingest's hard_link destination is not SST_FILE", pt=pt)
    for name in ("apply_manifest_ingest", "apply_manifest_compaction"):
        f = ctx.fn(R, TREE + name)
        if f:
            ap = ctx.calls(R, f, r"mani::Manifest::apply$")
            iv = ctx.calls(R, f, TREE + "install_version$")
            ctx.order_chain(R, f, [("Manifest::apply", ap), ("install_version", iv)])
            ctx.must_pass(R, f, "Manifest::apply", ap)
            ctx.must_pass(R, f, "install_version", iv)
            for pt in ap:
                ctx.check(R, f, "apply-recv", "mani" in K.arg_field_names(f, pt, 0),
                          "the edit is applied to the tree's manifest (self.mani)", "apply receiver is not self.mani", pt=pt)
    f = ctx.fn(R, TREE + "compaction_finish")
    if f:
        hl = ctx.calls(R, f, r"std::fs::hard_link$")
        am = ctx.calls(R, f, TREE + "apply_manifest_compaction$")
        rf = ctx.calls(R, f, r"std::fs::remove_file$")
        rd = ctx.calls(R, f, r"std::fs::remove_dir$")
        ctx.order_chain(R, f, [("apply_manifest_compaction", am), ("remove_file(staging)", rf)])
        ctx.order_chain(R, f, [("apply_manifest_compaction", am), ("remove_dir(staging)", rd)])
        # every path to the manifest apply went through the link loop: the loop exit dominates apply,
        # and inside the loop body each iteration passes hard_link before the back edge.
        loop_body_must_pass(ctx, R, f, r"core::slice::iter::Iter.* as core::iter::traits::iterator::Iterator>::next$",
                            hl, "hard_link", before=am)
    f = ctx.fn(R, TREE + "install_version")
    if f:
        er = ctx.calls(R, f, TREE + "explicit_ref$")
        lk = ctx.calls(R, f, r"Mutex.*::lock$", arg_pred=K.recv_is_field("version"), what="version.lock")
        eu = ctx.calls(R, f, TREE + "explicit_unref$")
        ctx.order_chain(R, f, [("explicit_ref(new)", er), ("version.lock", lk), ("explicit_unref(old)", eu)])


def loop_body_must_pass(ctx, R, f, next_pat, through, label, before=None):
    """For the `for` loop whose iterator `next` call matches next_pat: every path from the Some edge
    of next() back to next() passes a `through` point (the loop body cannot skip it), and if
    `before` is given the loop's next() dominates `before`."""
    nx = P.call_points(f, next_pat)
    nx = [p for p in nx if any(P.reach(f, P.after(f, p), [t]) for t in through)] if through else nx
    if not nx:
        ctx.violate(R, f, "loop:" + label, "no loop found whose body contains %s" % label, kind="below-floor")
        return
    for n in nx:
        # successors of the switch on next()'s discriminant: find the Some edge = the one from which `through` is reachable
        p = P.reach(f, P.after(f, n), [n], avoid=set(through) | set(P.error_points(f)))
        # p is a cycle n -> ... -> n that avoids `through`: the body was skipped (the None edge leaves the loop, so a cycle
        # is necessarily through the Some edge)
        ctx.check(R, f, "loop-skip:" + label, p is None, "every loop iteration passes %s before the next iteration" % label,
                  "a loop iteration can reach the next one without passing %s" % label, pt=n, path=p)
    if before:
        bad = P.order(f, nx, before)
        ctx.check(R, f, "loop-before:" + label, not bad, "the %s loop is completed before %s" % (label, "the manifest apply"),
                  "the manifest apply is reachable without running the %s loop" % label, pt=before[0])


# ---------------------------------------------------------------------------------------------------
def path_arg_from(i, helper):
    def pred(fn, t):
        return i < len(t["args"]) and any(c.endswith(helper) for c in P.origin_calls(fn, t["args"][i]))
    return pred


def c025(ctx):
    R = "C02.5"
    ctx.declare(R, "a log leaves the root only after its SST is sealed, ingested and named by a durable manifest edit")
    # who may retire a log at all: the flush thread (after the ingest) and recover_one (after the replay).  The manifest's 'L' -- or
    # anything else -- is no licence to move a log away unread: log numbers restart low after an idle incarnation.
    allowed = {KVS + "_memtable_thread", KVS + "recover_one"}
    n = 0
    for g in sorted(ctx.prog.fns.values(), key=lambda g: g.key):
        if g.crate != "lsmtk" or not g.skey.startswith("lsmtk::kvs::") or "{closure" in g.skey and False:
            continue
        for pt in P.call_points(g, r"^std::fs::(rename|remove_file)$"):
            t = P.term_at(g, pt)
            src_calls = P.origin_calls(g, t["args"][0])
            if any(c.endswith(("lsmtk::TEMP_FILE", "lsmtk::TEMP_ROOT")) for c in src_calls) or any(x["k"] == "call" and x["callee"].endswith("PathBuf::join") and
                    any(c.endswith("lsmtk::TEMP_ROOT") for c in P.origin_calls(g, x["t"]["args"][0])) for x in P.origins(g, t["args"][0])):
                continue        # scratch files under tmp/
            n += 1
            ctx.check(R, g, "who-may-retire-a-log", strip_generics(g.skey.split("::{closure")[0]) in allowed,
                      "%s is one of the two places that move a log out of the root" % g.skey,
                      "%s moves or removes a file of the store root (%s): only the flush thread, after the ingest, and recover_one, after the replay, retire "
                      "a log -- a log moved away unread takes acknowledged writes with it" % (g.skey, P.short(callee_skey(t))), pt=pt)
    ctx.floor(R, "places in lsmtk::kvs that move or remove root files", n, 3)
    f = ctx.fn(R, KVS + "_memtable_thread")
    if f:
        sl = ctx.calls(R, f, r"sst::log::ConcurrentLogBuilder::seal$")
        bs = ctx.calls(R, f, r"<sst::SstBuilder as sst::Builder>::seal$")
        ig = ctx.calls(R, f, TREE + "_ingest$")
        rm = ctx.calls(R, f, r"std::fs::remove_file$", arg_pred=path_arg_from(0, "lsmtk::TEMP_FILE"), what="remove_file(TEMP_FILE)")
        rn = ctx.calls(R, f, r"std::fs::rename$", arg_pred=path_arg_from(1, "lsmtk::TRASH_ROOT"), what="rename(log -> TRASH_ROOT)")
        ctx.order_chain(R, f, [("ConcurrentLogBuilder::seal", sl), ("SstBuilder::seal", bs), ("LsmTree::_ingest", ig),
                               ("remove_file(tmp sst)", rm), ("rename(log->trash)", rn)], cycles=True)
        # every rename/remove in this function is one of the two above (no other retire path)
        allrm = P.call_points(f, r"std::fs::(remove_file|rename|remove_dir|remove_dir_all)$")
        ctx.check(R, f, "retire-sites", set(allrm) == set(rm) | set(rn), "the only file removals/moves are tmp-sst removal and log->trash",
                  "unexpected remove/rename site in the flush thread")
        # the tmp SST and the log are retired only when the ingest returned Ok: a failed ingest leaves no manifest edit naming
        # the batches, so the log must stay in the root for recovery to replay
        for what, pts in (("remove_file(tmp sst)", rm), ("rename(log->trash)", rn)):
            for pt in pts:
                g = K.guarded_by_call(f, pt, TREE + "_ingest$", label="sw:0")
                ctx.check(R, f, "retire-on-ingest-ok:" + what.split("(")[0], bool(g),
                          "%s is dominated by the Ok edge of LsmTree::_ingest" % what,
                          "%s is reachable when LsmTree::_ingest returned an error: the log leaves the root with nothing durable naming its data" % what,
                          pt=pt)
        # the ingested path is the sealed builder's path
        for pt in ig:
            ctx.check(R, f, "ingest-path", any(c.endswith("lsmtk::TEMP_FILE") for c in K.arg_calls(f, pt, 1)),
                      "the ingested file is the TEMP_FILE the builder sealed", "ingest is not given the sealed TEMP_FILE", pt=pt)
    f = ctx.fn(R, KVS + "recover_one")
    if f:
        lb = ctx.calls(R, f, r"sst::log::log_to_builder$")
        hl = ctx.calls(R, f, r"std::fs::hard_link$")
        ap = ctx.calls(R, f, r"mani::Manifest::apply$")
        rm = ctx.calls(R, f, r"std::fs::remove_file$")
        rn = ctx.calls(R, f, r"std::fs::rename$", floor=2)
        # the rename on the success path (after remove_file(out)); the empty-log rename is the other one
        rn_main = [p for p in rn if not P.order(f, hl + [x for x in ()], [p]) or P.reach(f, P.ENTRY, [p], avoid=set(lb)) is None]
        late = [p for p in rn if P.reach(f, P.ENTRY, [p], avoid=set(rm_after(f, rm, lb))) is None]
        empty = [p for p in rn if p not in late]
        ctx.check(R, f, "rename-kinds", len(late) >= 1 and len(empty) <= 1,
                  "one rename retires a replayed log, at most one retires an empty log",
                  "unexpected rename structure in recover_one")
        # replayed log: log_to_builder < (hard_link | exists-skip) < (apply | listed-skip) < remove_file(out) < rename
        rm_out = rm_after(f, rm, lb)
        ctx.order_chain(R, f, [("log_to_builder", lb), ("remove_file(out)", rm_out), ("rename(log->trash)", late)])
        # hard_link may be skipped only via the `sst_path.exists()` edge
        for pt in rm_out:
            p = P.reach(f, P.ENTRY, [pt], avoid=set(hl))
            if p is not None:
                ex = P.call_points(f, r"std::path::Path::exists$|std::path::Path::try_exists$")
                ok = any(K.guarded_by_call(f, h, r"std::path::Path::exists$") for h in hl)
                ctx.check(R, f, "link-skip", ok, "hard_link is skipped only when SST_FILE already exists",
                          "remove_file(out) is reachable without hard_link and without the exists() guard", pt=pt, path=p)
            p = P.reach(f, P.ENTRY, [pt], avoid=set(ap))
            if p is not None:
                ok = any(K.guarded_by_call(f, a, r"Iterator>::any$|::any$") for a in ap)
                ctx.check(R, f, "apply-skip", ok, "Manifest::apply is skipped only when the manifest already lists the setsum",
                          "remove_file(out) is reachable without Manifest::apply and without the already-listed guard", pt=pt, path=p)
        # Manifest::apply comes after the link, except through the exists() skip edge
        skip = skip_edges(f, r"std::path::Path::exists$", hl)
        for a in ap:
            p = P.reach(f, P.ENTRY, [a], avoid=set(hl), avoid_edges=skip)
            ctx.check(R, f, "hard_link<Manifest::apply", p is None and bool(skip),
                      "Manifest::apply is reached only after hard_link or the SST_FILE-exists skip edge",
                      "Manifest::apply is reachable without the sst having been linked into sst/", pt=a, path=p)
        # the empty-log rename happens only on the None edge of log_to_builder (log had no entries)
        for pt in empty:
            ok = bool(K.guarded_by_call(f, pt, r"sst::log::log_to_builder$"))
            ctx.check(R, f, "empty-rename", ok, "the early rename is taken only when log_to_builder returned None (empty log)",
                      "a log is trashed early without log_to_builder reporting it empty", pt=pt)
        for pt in hl:
            ctx.check(R, f, "link-dst", any(c.endswith("lsmtk::SST_FILE") for c in K.arg_calls(f, pt, 1)),
                      "recovery links the rebuilt sst to SST_FILE(setsum)", "recovery's hard_link destination is not SST_FILE", pt=pt)
    f = ctx.fn(R, KVS + "open")
    if f:
        rc = ctx.calls(R, f, KVS + "recover$")
        fm = ctx.calls(R, f, TREE + "from_manifest$")
        nl = ctx.calls(R, f, KVS + "start_new_log$")
        ctx.order_chain(R, f, [("recover", rc), ("LsmTree::from_manifest", fm)])
        ctx.order_chain(R, f, [("recover", rc), ("start_new_log", nl)])
        ctx.must_pass(R, f, "recover", rc)
    f = ctx.fn(R, KVS + "recover")
    if f:
        ro = P.call_points(f, KVS + "recover_one$")
        if ro:
            ctx.ok(R, f, "recover calls recover_one", ro)
            loop_body_must_pass(ctx, R, f, r"IntoIter.* as core::iter::traits::iterator::Iterator>::next$", ro, "recover_one")
        else:
            # the same loop written as a fold: `numbers.into_iter().try_fold(0, |acc, n| recover_one(.., n, ..) ..)` -- a closure of recover
            # that replays its element on every path, driven over the whole vector by an adaptor that visits every element
            folds = [p_ for p_ in P.call_points(f, r"Iterator>?::(try_fold|try_for_each|fold|for_each)$")
                     if re.search(r"vec::into_iter::IntoIter<u64", P.term_at(f, p_).get("ga") or "") and not K.DROPPING_ADAPTERS.search(P.term_at(f, p_).get("ga") or "")]
            cl = [g for g in ctx.prog.closures_of(f) if P.call_points(g, KVS + "recover_one$")]
            ctx.check(R, f, "loop:recover_one", bool(folds) and len(cl) == 1, "the log numbers are folded over by a closure that calls recover_one",
                      "recover neither loops over the log numbers calling recover_one nor folds them through a closure that does")
            for g in cl:
                q = P.must_pass(g, P.call_points(g, KVS + "recover_one$"))
                ctx.check(R, g, "loop-skip:recover_one", q is None, "the closure replays its log on every path", "the fold's closure can return without replaying its log", path=q)


def skip_edges(f, cond_pat, targets):
    """Out-edges of switches on a call matching cond_pat that do not lead to any of `targets`
    (the edge that skips them)."""
    out = set()
    rx = re.compile(cond_pat)
    for b in P.switch_blocks(f):
        if not any(rx.search(c) for c in K.cond_calls(f, b.idx)):
            continue
        for lab, s in b.succs:
            if not any(P.reach(f, [(s, 0)], [t]) for t in targets):
                out.add((b.idx, lab))
    return out


def rm_after(f, rm, lb):
    """remove_file sites that come after log_to_builder (the one before it clears a stale temp)."""
    return [p for p in rm if P.reach(f, P.ENTRY, [p], avoid=set(lb)) is None]


# ---------------------------------------------------------------------------------------------------
RERR_ENTRIES = [
    KVS + "open", KVS + "write", KVS + "put", KVS + "del", KVS + "load", KVS + "range_scan", KVS + "_memtable_thread",
    KVS + "memtable_thread", KVS + "compaction_thread",
    TREE + "open", TREE + "ingest", TREE + "compaction_thread",
    "lsmtk::verifier::LsmVerifier::open", "lsmtk::verifier::LsmVerifier::verify",
    "mani::Manifest::open", "mani::Manifest::apply", "mani::Manifest::rollover",
]


def c026(ctx):
    R = "C02.6"
    ctx.declare(R, "no storage-layer error is dropped, discarded by ok()/unwrap_or(), or turned into a panic")
    fns = K.reach_fns(ctx, RERR_ENTRIES, K.STORE_CRATES, rule=R)
    n = K.r_err(ctx, R, fns, RERR_EXCEPTIONS)
    ctx.floor(R, "R-ERR call sites", n, 300)


# ---------------------------------------------------------------------------------------------------
def open_option_chain(fn, open_pt):
    """The OpenOptions builder calls feeding an `open` call: {method: constant bool argument}."""
    out = {}
    t = P.term_at(fn, open_pt)
    work = [t["args"][0]]
    seen = set()
    while work:
        op = work.pop()
        for s in P.origins(fn, op, through_calls=False):
            if s["k"] == "call" and "OpenOptions::" in s["callee"] and s["pt"] not in seen:
                seen.add(s["pt"])
                m = s["callee"].rsplit("::", 1)[-1]
                tt = s["t"]
                if len(tt["args"]) >= 2:
                    cs = P.origin_consts(fn, tt["args"][1])
                    out[m] = cs[0].get("v") if cs else None
                else:
                    out.setdefault(m, True)
                if tt["args"]:
                    work.append(tt["args"][0])
    return out


def c027(ctx):
    R = "C02.7"
    ctx.declare(R, "files that can hold unreplayed data are created exclusively or appended to, never truncated")
    wanted = {
        "sst::SstBuilder::new": {"create_new": 1},
        "sst::log::LogBuilder::<std::fs::File>::new": {"create_new": 1},
        "mani::Manifest::_apply": {"append": 1},
    }
    for key, need in wanted.items():
        f = ctx.fn(R, key)
        if not f:
            continue
        ops = ctx.calls(R, f, r"std::fs::OpenOptions::open$")
        for pt in ops:
            ch = open_option_chain(f, pt)
            ok = all(ch.get(k) == v for k, v in need.items()) and not ch.get("truncate")
            ctx.check(R, f, "open-options", ok, "opened with %s and without truncate (chain: %s)" % (need, ch),
                      "OpenOptions chain %s lacks %s or truncates" % (ch, need), pt=pt)
    # no other truncate(true) / File::create in the store crates except the lock file
    n = 0
    for f in ctx.prog.fns.values():
        if f.crate not in K.STORE_CRATES:
            continue
        for pt in P.call_points(f, r"std::fs::OpenOptions::truncate$"):
            n += 1
            cs = P.origin_consts(f, P.term_at(f, pt)["args"][1])
            is_true = any(c.get("v") == 1 for c in cs) or not cs
            allowed = f.skey.startswith("utilz::lockfile::")
            ctx.check(R, f, "truncate", (not is_true) or allowed, "truncate(true) only for the lock file",
                      "truncate(true) on a store file", pt=pt)
        for pt in P.call_points(f, r"std::fs::File::create$"):
            n += 1
            allowed = f.skey.startswith("utilz::") or f.crate == "utilz"
            ctx.check(R, f, "File::create", allowed, "File::create (truncating) only outside store data files",
                      "File::create truncates an existing file in a store crate", pt=pt)


# ---------------------------------------------------------------------------------------------------
# C02.8 what is made durable can be replayed: the entries of one batch have distinct keys before they share one timestamp

SET_INSERT = r"(hash::set::HashSet|btree::set::BTreeSet|hash::map::HashMap|btree::map::BTreeMap).*::insert$"


def _uniq_pass(ctx, g):
    """g filters the entries of a batch down to one entry per key: it inserts each entry's key into a set / map and keeps the entry
    only on the edge on which the key was new.  Returns (ok, why)."""
    ins = [pt for pt in P.call_points(g, SET_INSERT)
           if any(s_["k"] == "field" and s_["f"] == "key" for s_ in P.origins(g, P.term_at(g, pt)["args"][1]))]
    if not ins:
        return False, "no set insertion of the entries' keys"
    pushes = [pt for pt in P.call_points(g, r"alloc::vec::Vec::push$") if "KeyValuePair" in str(P.term_at(g, pt).get("ga"))]
    if not pushes:
        return False, "no entry is kept"
    for pt in pushes:
        ok = False
        for bb, lab, srcs in K.guards(g, pt):
            for s_ in srcs:
                if s_["k"] == "call" and re.search(SET_INSERT, s_["callee"]) and s_["pt"] in ins:
                    negs = sum(1 for x in srcs if x["k"] == "un" and x["op"] == "Not")
                    if (lab != "sw:0") != bool(negs % 2):
                        ok = True
        if not ok:
            return False, "an entry is kept without its key having been new to the set"
    fw = P.field_writes(g, r"kvs::WriteBatch$", "entries")
    if not fw:
        return False, "the filtered entries are not stored back into the batch"
    # the survivor is the *last* write of its key: the entries are visited back to front (an odd number of reversals on the loop's iterator)
    for pt in ins:
        heads = [h for h in P.call_points(g, r"Iterator>?::next$") if P.reach(g, P.after(g, h), [pt]) and P.reach(g, P.after(g, pt), [h])]
        if not heads:
            return False, "the keys are not inserted in a loop over the entries"
        if not any(len(re.findall(r"\bRev<", K.loop_iterator_type(g, h))) % 2 == 1 for h in heads):
            return False, "the entries are visited front to back, so the first write of a key survives, not the last"
    return True, "entries are visited back to front, kept only when their key is new to a set, and stored back"


def c028(ctx):
    R = "C02.8"
    ctx.declare(R, "every entry of a batch gets the same timestamp, so a batch is reduced to one entry per key before it is stamped, logged and inserted: "
                   "the memtable and log replay require distinct (key, timestamp) pairs")
    f = ctx.fn(R, KVS + "write")
    if not f:
        return
    ap = ctx.calls(R, f, r"sst::log::ConcurrentLogBuilder.*::append$")
    mw = ctx.calls(R, f, r"lsmtk::kvs::memtable::MemTable::write$")
    passes = []
    why_not = []
    for b, t in f.calls():
        for k_ in ctx.prog.targets(t):
            g = ctx.prog.fns.get(k_)
            if g is None or g.crate != "lsmtk" or g is f:
                continue
            ok, why = _uniq_pass(ctx, g)
            if ok:
                passes.append(P.term_pt(f, b.idx))
            elif P.call_points(g, SET_INSERT):
                why_not.append("%s: %s" % (g.skey, why))
    ok_inline, _w = _uniq_pass(ctx, f)
    good = bool(passes) and not P.order(f, passes, ap + mw)
    ctx.check(R, f, "one-entry-per-key", good or ok_inline,
              "the batch is reduced to the last write per key before it reaches the log and the memtable",
              "KeyValueStore::write stamps every entry of a batch with one timestamp and hands them to the log and the memtable without making the keys "
              "distinct: a batch that writes one key twice is made durable, then the memtable insert aborts on the duplicate (key, timestamp), and log "
              "replay rejects it with a sort-order error on every later open%s" % ("; " + "; ".join(why_not) if why_not else ""),
              pt=ap[0] if ap else None)


# ---------------------------------------------------------------------------------------------------
# C02.9 no explicit panic on the path of an acknowledged write depends on what the client wrote

WRITE_PATH = re.compile(r"^<?(lsmtk::kvs::|skipfree::|sync42::wait_list::|sync42::work_coalescing_queue::|sst::log::)")
WRITE_EXC = {
    ("skipfree::SkipList::insert", "panic"):
        "assert!(existing.is_null() || key != existing key): the keys handed to the memtable are (key, timestamp) pairs; timestamps are unique per batch "
        "(seq_no + 1 under the state lock, C01.2) and C02.8 shows the keys of one batch are made distinct before they are stamped",
    ("skipfree::SkipList::new_node", "panic"): "height in 1..=MAX_HEIGHT: produced by random_height, which asserts the same bounds on its own loop variable",
    ("skipfree::SkipList::random_height", "panic"): "the loop starts at 1 and stops at MAX_HEIGHT",
    ("skipfree::Node::set_next", "panic"): "level < pointers.len(): levels come from 0..height of the node just built, or from 0..MAX_HEIGHT on the head node",
    ("skipfree::Node::get_next", "panic"): "level < pointers.len(): searches start at the head (MAX_HEIGHT pointers) and only step onto nodes reached at that level",
    ("skipfree::Node::cas_next", "panic"): "level < pointers.len(): prev[idx] was found at level idx",
    ("<sst::log::WriteCoalescingCore as sync42::work_coalescing_queue::WorkCoalescingCore>::batch", "expect(WriteBatch::merge)"):
        "merge fails only on size; can_batch admitted the pair by the same size computation",
    ("sst::log::LogBuilder::append", "assert_failed"): "assert_ne!(setsum, default): an empty batch was refused two lines above; a non-empty batch hashing to zero is a 2^-256 event",
    ("sst::log::LogBuilder::_append", "panic"): "assert!(bytes_written <= nb) after a write that the branch condition new_offset <= nb sized",
    ("sst::log::LogBuilder::true_up", "panic"): "nb is next_boundary(bytes_written) recomputed by the callers; the distance was compared with HEADER_MAX_SIZE or is what a FIRST frame left",
    ("sst::log::LogBuilder::write_header", "panic"): "pack_sz of a Header is at most HEADER_MAX_SIZE (+1 length byte): C10.4 computes it from the field table",
    ("sync42::wait_list::WaitList::_unlink", "panic"): "assert!(linked): a guard is unlinked once (owned flag cleared); internal invariant, not client data",
    ("sync42::wait_list::WaitList::assert_invariants", "panic"): "head == tail or the head slot is linked: maintained by _unlink's advance loop (C18.2)",
    ("sync42::wait_list::WaitList::unlink", "panic_fmt"): "assert!(guard.owned): API misuse by the caller inside this workspace; write() unlinks by dropping its own guard",
    ("sync42::wait_list::Waiter::load", "unwrap(option)"): "the value is Some from initialize until deinitialize, which runs only after the slot left the list",
    ("sync42::work_coalescing_queue::WorkCoalescingQueue::do_work", "panic"): "assert!(!doing_work), assert!(is_head): leader election invariants (C18.1)",
    ("sync42::work_coalescing_queue::WorkCoalescingQueue::do_work", "panic_fmt"): "unreachable wait states of the head / leader (C18.1 shows every taken waiter gets an output and the head is never Stolen)",
}


def c029(ctx):
    R = "C02.9"
    ctx.declare(R, "no explicit panic reachable from an acknowledged write depends on the client's data: each site is an internal invariant, listed with its reason")
    fns = [f for f in K.reach_fns(ctx, [KVS + "write", KVS + "put", KVS + "del"], crates=("lsmtk", "sst", "skipfree", "sync42"))
           if WRITE_PATH.match(f.skey) and not re.search(r"LogIterator|log_to_|truncate_final|KeyValueStore::(open|recover|recover_one|_memtable_thread|memtable_thread|compaction_thread)", f.skey)]
    ctx.floor(R, "functions on the write path", len(fns), 25)
    K.panic_audit(ctx, R, fns, WRITE_EXC)
