"""C19 — compressed text index: the serialised form's writer and reader tables agree (the only clause decided)."""
import re

from blue import prim as P
from blue.facts import callee_skey, strip_generics
from . import common as K
from . import C15

EXPLANATION = (
    "C19 is a numerical property (search/count/rank/select results for every text); one clause of it has a shape: "
    "`serialising and re-parsing the index changes nothing` needs the hand-written index *writers* (scrunch's Builder: "
    "append_u32/u64/bytes/vec_*, sub-builders, raw packables) and the *readers* (derived `...Stub` messages, "
    "parse_one_field_bytes + Tag comparisons) to agree on every (field number, wire type).  (C19.1) for every scrunch type X "
    "whose decoder unpacks a derived stub S and whose `construct*` writers emit fields one by one, each writer emits exactly "
    "the (number, wire type) set that S::unpack dispatches on -- computed through helper functions that receive the same "
    "builder, with sub-builders opening a nested scope; inline nested scopes are compared with the nested message type's "
    "table; (C19.2) every stub written whole (append_raw_packable / append_packable) by X's writers is a type X's readers "
    "decode, and the derived pack/unpack tables of those stubs agree (C15.1 evaluated over scrunch); (C19.3) every "
"(number, wire type) a hand-written reader compares a parsed Tag against is emitted by a writer of the same type; (C19.4) a "
    "second structural clause, of `the bit vectors answer access, rank and select exactly as a plain bit array`: the sibling "
    "implementations (reference, rrr, cf_rrr, sparse) agree on the index domain -- access answers None exactly when index >= "
    "len(), rank exactly when index > len() (cross-check of siblings on the comparison operator of their entry test); (C19.5) a "
    "structural clause of `finds the same occurrences ... including absent patterns`: one step of backward search "
    "(Psi::constrain) keeps an empty range empty -- every early return taken on an emptiness test (lo > hi) yields a pair "
    "proved empty (the tested pair itself, (t, t - 1), or a constant pair); (C19.6) in the functions that write the index (a Builder or byte-vector "
    "parameter) a loop driven by zip() of two sequences ends with the shorter one: the two sides are equally long by construction -- the same "
    "sequence, its adjacent-pairs form `x[..n-1]` / `x[1..]`, or vectors whose pushes are paired under the same conditions -- otherwise the "
    "elements the longer side still holds are never written.  "
    "TABLE reading of derived unpack switch trees, ORIGIN of builder receivers and field-number constants over resolved MIR.")
NOT_DECIDED = ("everything else in C19: suffix-array construction, psi, backward search, rank/select, record mapping and extraction are "
               "numerical results over all inputs; the byte-level layout inside bytes fields (offsets in the prefix wavelet tree, bit "
               "packing) is not decided either")
ASSUMPTIONS = ["prototk's derived unpack skips unknown fields and defaults absent ones, so a missing or extra field number silently changes "
               "the re-parsed index rather than failing"]

APP = re.compile(r"^scrunch::builder::Builder::(append_u32|append_u64|append_bytes|append_packable|append_vec_u32|append_vec_usize|sub|"
                 r"append_raw_packable|append_raw)$")
WIRE = {"append_u32": 0, "append_u64": 0, "append_vec_u32": 0, "append_vec_usize": 0, "append_bytes": 2, "append_packable": 2, "sub": 2}


def rules(ctx):
    c191(ctx)
    c194(ctx)
    c195(ctx)
    c196(ctx)
    c197(ctx)
    c198(ctx)
    c199(ctx)
    c1910(ctx)
    c1911(ctx)
    c1912(ctx)


def c199(ctx):
    R = "C19.9"
    ctx.declare(R, "suffix-array construction names the sorted LMS substrings: a substring gets a new name only because it is the first one or because a "
                   "comparison between it and its predecessor (symbols, types, lengths) found a difference -- equal substrings that are named apart "
                   "keep the arbitrary order the first induced pass left them in, and the recursion never sorts them")
    f = ctx.fn(R, "scrunch::sais::sais_impl")
    if not f:
        return
    MAXV = (1 << 64) - 1

    def cmp_ok(rv):
        """a comparison that can justify `differs`: the sentinel test, or one with no constant operand"""
        if rv.get("r") != "bin" or rv["op"] not in ("Eq", "Ne", "Lt", "Le", "Gt", "Ge"):
            return None
        def const_of(o):
            """the constant an operand *is* (directly, or through an unnamed temporary assigned once) -- not a variable that merely started out as one"""
            seen = 0
            while o.get("k") in ("copy", "move") and not o["pl"]["p"] and not f.local_name(o["pl"]["l"]) and seen < 4:
                ds = [st for b in f.blocks for st in b.st if st["s"] == "=" and st["lhs"]["l"] == o["pl"]["l"] and not st["lhs"]["p"]]
                if len(ds) != 1 or ds[0]["rv"].get("r") not in ("use", "cast"):
                    return None
                o = ds[0]["rv"]["a"]
                seen += 1
            return o["c"] if o.get("k") == "const" else None
        consts = [c for c in (const_of(rv["a"]), const_of(rv["b"])) if c is not None]
        if not consts:
            return True
        return rv["op"] in ("Eq", "Ne") and all(x.get("v") == MAXV or "MAX" in str(x.get("named", "")) for x in consts)
    flags = []
    for l, ty in enumerate(f.locals):
        if ty != "bool" or not f.local_name(l):
            continue
        asg = [(b.idx, i) for b in f.blocks for i, st in enumerate(b.st) if st["s"] == "=" and st["lhs"]["l"] == l and not st["lhs"]["p"]]
        trues = [p_ for p_ in asg if f.blocks[p_[0]].st[p_[1]]["rv"].get("r") == "use" and f.blocks[p_[0]].st[p_[1]]["rv"]["a"].get("k") == "const"
                 and f.blocks[p_[0]].st[p_[1]]["rv"]["a"]["c"].get("v") == 1]
        in_loop = [p_ for p_ in trues if P.reach(f, P.after(f, p_), [p_]) is not None]
        # the flag decides whether the name counter advances
        adv = False
        for b in P.switch_blocks(f):
            d = b.term.get("discr") or {}
            if any(x["k"] == "local" and x.get("l") == l for x in P.origins(f, d)) or (d.get("pl") or {}).get("l") == l or \
                    any(st["s"] == "=" and st["lhs"]["l"] == (d.get("pl") or {}).get("l") and st["rv"].get("r") == "use" and (st["rv"]["a"].get("pl") or {}).get("l") == l for st in b.st):
                adv = True
        if in_loop and adv:
            flags.append((l, asg))
    ctx.floor(R, "sais_impl: `differs from its predecessor` flags", len(flags), 1)
    for l, asg in flags:
        # the flag may be copied from other bool locals (`diff = first || helper(..)`, a helper's return value looked through): their
        # assignments are judged in its place
        seen_l, work, leaves = {l}, list(asg), []
        while work:
            p_ = work.pop()
            rv = f.blocks[p_[0]].st[p_[1]]["rv"]
            m = rv["a"]["pl"]["l"] if rv.get("r") == "use" and rv["a"].get("k") in ("copy", "move") and not rv["a"]["pl"]["p"] else None
            if m is not None and f.locals[m] == "bool" and not any(kind == "call" for _q, kind, _x in P.defs(f).of(m)):
                if m not in seen_l:
                    seen_l.add(m)
                    work += [(b.idx, i) for b in f.blocks for i, st in enumerate(b.st) if st["s"] == "=" and st["lhs"]["l"] == m and not st["lhs"]["p"]]
                continue
            leaves.append(p_)
        for p_ in leaves:
            rv = f.blocks[p_[0]].st[p_[1]]["rv"]
            if rv.get("r") == "bin":
                ok = cmp_ok(rv) is True
                why = "assigned from a comparison with a constant that is not the first-element sentinel"
            elif rv.get("r") == "use" and rv["a"].get("k") == "const":
                if rv["a"]["c"].get("v") != 1:
                    continue
                gs = K.guards(f, p_)
                ok, why = False, "set without an enclosing comparison"
                # innermost guards first; stop at the first one that carries a comparison
                for bb, lab, srcs in reversed(gs):
                    bins = [x for x in srcs if x["k"] == "bin" and x["op"] in ("Eq", "Ne", "Lt", "Le", "Gt", "Ge")]
                    calls = [x for x in srcs if x["k"] == "call" and re.search(r"::(ne|eq)$", x["callee"])]
                    if not bins and not calls:
                        if any(x["k"] == "call" and re.search(r"Iterator>?::next$|range::next$", x["callee"]) for x in srcs):
                            break       # reached the enclosing loop head
                        continue
                    bad = [x for x in bins if cmp_ok(x["st"]["rv"]) is not True]
                    ok = not bad
                    why = "set under a comparison with a constant (line %d)" % bad[0]["st"]["sp"][1] if bad else ""
                    break
            else:
                srcs = P.origins(f, rv.get("a")) if rv.get("r") == "use" else []
                bins = [x for x in srcs if x["k"] == "bin"]
                ok = bool(bins) and all(cmp_ok(x["st"]["rv"]) is True for x in bins)
                why = "copied from a value that is not a comparison between the two substrings"
            ctx.check(R, f, "named-apart-only-if-different", ok, "the flag is raised by the first-element test or by a comparison between the two substrings",
                      "sais_impl gives an LMS substring a name of its own without having found a difference from its predecessor (%s): equal substrings "
                      "named apart are never ordered by the recursion, and the suffix array -- hence locate / search -- is wrong for texts that repeat "
                      "such a substring" % why, pt=p_)


def c1910(ctx):
    R = "C19.10"
    ctx.declare(R, "search and count agree: count answers the size of the backward-search range, and search locates one offset for every index of that "
                   "range -- every element of the vector it returns is pushed in a loop over range.0..=range.1 (inclusive), once per turn, from sa.lookup")
    fs = [f for k, f in ctx.prog.fns.items() if f.crate == "scrunch" and re.search(r"PsiDocument.* as scrunch::Document>::search$", k)]
    ctx.floor(R, "PsiDocument::search", len(fs), 1)
    for f in fs:
        pushes = [p_ for p_ in P.call_points(f, r"alloc::vec::Vec.*::push$") if "TextOffset" in str(P.term_at(f, p_).get("ga"))]
        ctx.floor(R, "search: offsets pushed", len(pushes), 1)
        fills = P.call_points(f, r"Vec.*::(extend|extend_from_slice|append|insert|resize)$|Iterator::collect$|FromIterator.*::from_iter$")
        fills = [p_ for p_ in fills if "TextOffset" in str(P.term_at(f, p_).get("ga"))]
        # helpers that hand back offsets found some other way
        others = [P.term_pt(f, b.idx) for b, t in f.calls() if "TextOffset" in f.locals[t["dest"]["l"]] and not t["dest"]["p"]
                  and "Vec<" in f.locals[t["dest"]["l"]] and not re.search(r"Vec.*::(with_capacity|new)$|IntoIterator.*::into_iter$|vec::from_elem$|into_vec$|box_new_uninit|slice::.*into_vec", callee_skey(t) or "")]
        ctx.check(R, f, "located-one-by-one", not fills and not others, "the result vector is filled by push only",
                  "search fills its result some other way than one sa.lookup per index of the range (%s): not shown to report exactly the range count() answers with" %
                  ", ".join(sorted({P.short(callee_skey(P.term_at(f, p_))) for p_ in fills + others})), pt=(fills + others)[0] if fills + others else None)
        for p_ in pushes:
            heads = [h for h in P.call_points(f, r"Iterator>?::next$|range::.*::next$") if P.reach(f, P.after(f, h), [p_]) and P.reach(f, P.after(f, p_), [h])]
            incl = [h for h in heads if "RangeInclusive" in K.loop_iterator_type(f, h)]
            ok = False
            for h in incl:
                for x in P.origins(f, P.term_at(f, h)["args"][0]):
                    if x["k"] == "call" and x["callee"].endswith("RangeInclusive::new"):
                        a, b = x["t"]["args"][0], x["t"]["args"][1]
                        def tup(o):
                            """(base local, tuple field) an operand is a plain copy of"""
                            for _ in range(4):
                                if o.get("k") not in ("copy", "move"):
                                    return None
                                pr = o["pl"]["p"]
                                if pr and isinstance(pr[-1], dict) and pr[-1].get("of") == "()":
                                    return (o["pl"]["l"], pr[-1]["f"])
                                ds = [st for bb in f.blocks for st in bb.st if st["s"] == "=" and st["lhs"]["l"] == o["pl"]["l"] and not st["lhs"]["p"]]
                                if pr or len(ds) != 1 or ds[0]["rv"].get("r") != "use":
                                    return None
                                o = ds[0]["rv"]["a"]
                            return None
                        ta, tb = tup(a), tup(b)
                        names = K.src_names(f, a) | K.src_names(f, b)
                        if ta and tb and ta[0] == tb[0] and (ta[1], tb[1]) == ("0", "1") and "backwards_search()" in names:
                            ok = P.reach(f, P.after(f, h), [h], avoid={p_} | set(P.error_points(f))) is None
            ctx.check(R, f, "one-offset-per-index", ok, "an offset is pushed on every turn of the loop over range.0..=range.1",
                      "search does not push one located offset for every index of the backward-search range (inclusive, unmodified bounds)", pt=p_)


def c1911(ctx):
    R = "C19.11"
    ctx.declare(R, "a character that does not occur in the text has no symbol: Sigma::char_to_sigma answers Some only from an exact lookup (a map or "
                   "dense-table get), or -- when it searches the sorted table -- behind an equality test between the element it found and the character; "
                   "a lower bound alone names the *next* character's symbol, and count / search then answer for another pattern")
    fs = [f for k, f in ctx.prog.fns.items() if f.crate == "scrunch" and re.search(r"sigma::Sigma::char_to_sigma$", f.skey)]
    ctx.floor(R, "Sigma::char_to_sigma", len(fs), 1)
    for f in fs:
        somes = [(b.idx, i) for b in f.blocks for i, st in enumerate(b.st) if st["s"] == "=" and st["rv"].get("r") == "agg" and st["rv"].get("variant") == "Some"
                 and (st["rv"].get("adt") or "").endswith("option::Option") and st["lhs"]["l"] == 0]
        searches = P.call_points(f, r"::partition_point$|::binary_search(_by|_by_key)?$|::position$")
        for p_ in somes:
            st = f.blocks[p_[0]].st[p_[1]]
            srcs, _ = P.value_slice(f, st["rv"]["ops"][0])
            from_search = [x for x in srcs if x["k"] == "call" and x["pt"] in searches]
            if not from_search:
                ctx.ok(R, f, "Some(..) at line %d comes from an exact lookup" % st["sp"][1])
                continue
            exact = False
            for x in from_search:
                if re.search(r"binary_search", x["callee"]):
                    # Ok(idx) of a binary search is an exact hit: accept the Ok edge
                    exact = any(lab == "sw:0" and any(y["k"] == "call" and y["pt"] == x["pt"] for y in ss) for _bb, lab, ss in K.guards(f, p_))
            for g in K.compare_guards(f, p_):
                if g["op"] == "Eq" and g["holds"] or g["op"] == "Ne" and not g["holds"]:
                    sides = [P.origins(f, g["a"]), P.origins(f, g["b"])]
                    has_t = any(any(y["k"] == "param" and y["i"] == 2 for y in sd) for sd in sides)
                    has_el = any(any(y["k"] == "call" and re.search(r"::index$|::get$|get_unchecked$", y["callee"]) for y in sd) or
                                 any(y["k"] == "field" and y["f"] == "sigma_to_char" for y in sd) for sd in sides)
                    if has_t and has_el:
                        exact = True
            ctx.check(R, f, "membership-by-equality", exact, "a searched position is answered only if the element there equals the character",
                      "Sigma::char_to_sigma answers Some(position) from a search of the sorted table without comparing the element found with the character: "
                      "an absent character smaller than the largest one gets the symbol of its successor", pt=p_)


def _next_none_edge(f, b, lab):
    """edge (b, lab) is the None arm of a switch on the result of an Iterator::next call"""
    if lab != "sw:0" or f.blocks[b].term["t"] != "switch":
        return False
    d = f.blocks[b].term["discr"]
    if d.get("k") not in ("copy", "move"):
        return False
    for (_p, kind, p_) in P.defs(f).of(d["pl"]["l"]):
        if kind == "assign" and p_["rv"]["r"] == "discr":
            if any(s_["k"] == "call" and re.search(r"Iterator>::next$|Iterator::next$", s_["callee"])
                   for s_ in P.origins(f, {"k": "copy", "pl": {"l": p_["rv"]["pl"]["l"], "p": []}})):
                return True
    return False


def c1912(ctx):
    R = "C19.12"
    ctx.declare(R, "locate walks psi from an index to the nearest sampled suffix-array entry.  If that walk is bounded (it gives up with an error "
                   "after some number of steps) the bound is only right when the sample set is complete: the scans that pick the samples in "
                   "SampledSuffixArray::construct / construct_u32 must then run to the end of the suffix array.  A scan that stops early under a "
                   "bounded walk turns `one more sample away` into InvalidSuffixArray for patterns the text contains")
    look = ctx.fn(R, "<scrunch::sa::SampledSuffixArray as scrunch::sa::SuffixArray>::lookup")
    if not look:
        return
    psi = [p_ for p_ in P.call_points(look, r"Psi>::lookup$|psi::Psi::lookup$|::lookup$") if "Psi" in (P.term_at(look, p_).get("trait") or P.term_at(look, p_).get("decl") or P.term_at(look, p_).get("callee") or "")]
    ctx.floor(R, "psi steps in SampledSuffixArray::lookup", len(psi), 1)
    bounded = []
    for p_ in psi:
        body = K.loop_body(look, p_[0])
        ctx.check(R, look, "walk-is-a-loop", bool(body), "the psi step sits in a loop", "the psi step of SampledSuffixArray::lookup is no longer in a loop: "
                  "an index more than one step from a sample is never located", pt=p_)
        for (b, lab, s_) in K.loop_exits(look, p_[0]):
            # the exits of today's walk: return Ok (sentinel / sample) and the `?` of the psi step.  An exit that ends in an error without
            # being the psi step's own error, or the exhaustion of a counting iterator, is a bound on the walk.
            if _next_none_edge(look, b, lab):
                bounded.append((b, lab))
                continue
            errs = set(P.error_points(look))
            to_err = P.reach(look, [(s_, 0)], errs) is not None
            to_ok = P.reach(look, [(s_, 0)], P.ok_points(look), avoid=errs) is not None
            if to_err and not to_ok:
                # is it the psi step's own `?` ?
                via_q = any(s2["k"] == "call" and s2.get("pt") in psi for s2 in K.cond_sources(look, b)) if look.blocks[b].term["t"] == "switch" else False
                if not via_q:
                    bounded.append((b, lab))
    scans = [f for f in ctx.prog.fns.values() if f.crate == "scrunch" and re.search(r"<scrunch::sa::SampledSuffixArray as scrunch::sa::SuffixArray>::construct(_u32)?$", f.skey)]
    ctx.floor(R, "SampledSuffixArray sample scans", len(scans), 2)
    for f in scans:
        heads = [p_ for p_ in P.call_points(f, r"Iterator>::next$|Iterator::next$") if K.loop_body(f, p_[0])]
        if not heads:
            # the same scan as an iterator chain (`sa.iter().enumerate().filter(..).map(..).collect()`): it runs to the end unless an adaptor
            # cuts it short
            cut = P.call_points(f, r"Iterator>?::(take|take_while|skip|skip_while|step_by|nth|map_while|scan)$")
            col = P.call_points(f, r"Iterator>?::(collect|for_each|fold|extend)$|::from_iter$|::extend$")
            ctx.check(R, f, "complete-samples-under-bounded-walk", bool(col) and not (cut and bounded),
                      "the samples are collected by an iterator chain with no adaptor that stops early", "the sample chain is cut short (%d adaptors) under a bounded walk" % len(cut))
            continue
        ctx.floor(R, "%s: sample loop" % f.name, len(heads), 1)
        for h_ in heads:
            early = []
            for (b, lab, s_) in K.loop_exits(f, h_[0]):
                if _next_none_edge(f, b, lab):
                    continue
                errs = set(P.error_points(f))
                if P.reach(f, [(s_, 0)], P.ok_points(f), avoid=errs) is not None:
                    early.append((b, lab))
            ctx.check(R, f, "complete-samples-under-bounded-walk", not (early and bounded),
                      "the sample scan runs to the end of the suffix array (%d early exits), the walk has %d bounding exits" % (len(early), len(bounded)),
                      "the sample scan can stop before the end of the suffix array (exit from bb%s) while SampledSuffixArray::lookup gives up after a "
                      "bounded number of psi steps: when the sentinel SA[0] = n is itself a multiple of the stride it takes the place of the last real "
                      "sample, and every occurrence in the block before it is answered with InvalidSuffixArray"
                      % ",".join(str(b) for b, _l in early), pt=h_)


def builder_params(f):
    return [i for i in range(1, f.argc + 1) if "scrunch::builder::Builder" in f.locals[i]]


def field_number(f, op):
    for s in P.origins(f, op):
        if s["k"] == "call" and s["callee"].endswith("FieldNumber::must"):
            cs = P.origin_consts(f, s["t"]["args"][0])
            for c in cs:
                if isinstance(c.get("v"), int):
                    return c["v"]
    return None


def scope_of(f, op):
    """('param', i) if the builder operand is the function's own builder parameter, ('sub', point) if it is a
    sub-builder opened in this function, None otherwise."""
    subs = [s["pt"] for s in P.origins(f, op) if s["k"] == "call" and s["callee"].endswith("scrunch::builder::Builder::sub")]
    if subs:
        # the innermost sub on the chain is the one whose own receiver is not this sub: take the latest in program order
        return ("sub", sorted(subs)[-1])
    ps = [s["i"] for s in P.origins(f, op) if s["k"] == "param" and s["i"] in builder_params(f)]
    if ps:
        return ("param", ps[0])
    return None


class Writers:
    def __init__(self, ctx):
        self.ctx = ctx
        self.memo = {}
        self.readers = set()     # types that have their own reader: what their writers emit is their own pair

    def table(self, f, scope, depth=0):
        """Fields and raw packables written into `scope` of f: ({(number, wire)}, {raw type}, unknown?)"""
        key = (f.key, scope)
        if key in self.memo:
            return self.memo[key]
        self.memo[key] = (set(), set(), False)
        fields, raws, unknown = set(), set(), False
        if depth > 6:
            return fields, raws, True
        for b, t in f.calls():
            ck = callee_skey(t) or ""
            m = APP.match(ck)
            if m and t["args"]:
                sc = scope_of(f, t["args"][0])
                kind = m.group(1)
                if kind == "sub":
                    # the sub call itself is a write into the scope of its receiver
                    recv = self._recv_scope_of_sub(f, t)
                    if recv == scope:
                        n = field_number(f, t["args"][1])
                        fields.add((n, 2))
                        unknown = unknown or n is None
                    continue
                if sc != scope:
                    continue
                if kind in ("append_raw_packable", "append_raw"):
                    raws.add(self._ga_type(t) if kind == "append_raw_packable" else "<raw bytes>")
                    continue
                n = field_number(f, t["args"][1])
                fields.add((n, WIRE[kind]))
                unknown = unknown or n is None
                if kind == "append_packable":
                    raws.add(self._ga_type(t))
                continue
            # helper / nested constructor receiving this scope's builder
            for j, a in enumerate(t["args"]):
                if a.get("k") not in ("copy", "move"):
                    continue
                ty = f.locals[a["pl"]["l"]]
                if "scrunch::builder::Builder" not in ty:
                    continue
                if scope_of(f, a) != scope:
                    continue
                for k in self.ctx.prog.targets(t):
                    g = self.ctx.prog.fns.get(k)
                    if g is None or g.crate != "scrunch":
                        if t.get("rk") != "item":
                            unknown = True
                        continue
                    bp = builder_params(g)
                    if (j + 1) not in bp:
                        continue
                    go = strip_generics(g.impl_self or "")
                    if go and go in self.readers and go != strip_generics(f.impl_self or ""):
                        continue      # a component with its own reader, written in place: checked as its own pair
                    f2, r2, u2 = self.table(g, ("param", j + 1), depth + 1)
                    fields |= f2
                    raws |= r2
                    unknown = unknown or u2
        self.memo[key] = (fields, raws, unknown)
        return self.memo[key]

    def _recv_scope_of_sub(self, f, t):
        # scope of the receiver of a `sub` call, ignoring the sub call itself
        op = t["args"][0]
        subs = [s["pt"] for s in P.origins(f, op) if s["k"] == "call" and s["callee"].endswith("scrunch::builder::Builder::sub")]
        if subs:
            return ("sub", sorted(subs)[-1])
        ps = [s["i"] for s in P.origins(f, op) if s["k"] == "param" and s["i"] in builder_params(f)]
        return ("param", ps[0]) if ps else None

    @staticmethod
    def _ga_type(t):
        ga = (t.get("ga") or "").strip("[]")
        # last generic argument is P
        parts = [x.strip() for x in re.split(r", (?![^<]*>)", ga)]
        return strip_generics(parts[-1]) if parts else "?"


def reader_tags(f):
    """(number, wire type discriminant) of `Tag { field_number: FieldNumber::must(N), wire_type: W }` values built in f."""
    out = set()
    for b in f.blocks:
        for st in b.st:
            rv = st.get("rv", {})
            if st["s"] == "=" and rv.get("r") == "agg" and strip_generics(rv.get("adt", "")) == "prototk::Tag" and "field_number" in rv.get("fields", []):
                n = field_number(f, rv["ops"][rv["fields"].index("field_number")])
                w = None
                for s in P.origins(f, rv["ops"][rv["fields"].index("wire_type")]):
                    if s["k"] == "agg" and s.get("adt", "").endswith("WireType"):
                        w = {"Varint": 0, "SixtyFour": 1, "LengthDelimited": 2, "ThirtyTwo": 5}.get(s.get("variant"))
                out.add((n, w))
    return out


def c191(ctx):
    R1, R2, R3 = "C19.1", "C19.2", "C19.3"
    ctx.declare(R1, "field-by-field index writers emit exactly the (number, wire type) set their reader's stub dispatches on")
    ctx.declare(R2, "stubs written whole are the stubs the same type's readers decode")
    ctx.declare(R3, "every tag a hand-written reader expects is emitted by a writer of the same type")
    prog = ctx.prog
    # reader side: derived stubs and who decodes them
    stubs = {}
    for f in prog.fns.values():
        if f.crate == "scrunch" and f.impl_trait and strip_generics(f.impl_trait) == "buffertk::Unpackable" and f.name == "unpack":
            ut = C15.unpack_table(f, raw=True)
            if ut:
                stubs[strip_generics(f.impl_self)] = (f, {(n, w) for n, w, _t, _fl in ut}, {n: t for n, w, t, _fl in ut})
    ctx.floor(R1, "derived index messages in scrunch", len(stubs), 18)
    decoded = {}
    manual = {}
    for g in prog.fns.values():
        if g.crate != "scrunch" or not g.impl_self:
            continue
        owner = strip_generics(g.impl_self)
        for b, t in g.calls():
            if t.get("rk") != "item":
                continue       # `T::unpack` on a type parameter names no particular stub
            h = prog.fns.get(t.get("callee") or "")
            if h is not None and h.crate == "scrunch" and h.name == "unpack" and strip_generics(h.impl_self or "") in stubs and owner not in stubs:
                decoded.setdefault(owner, set()).add(strip_generics(h.impl_self))
        if any((callee_skey(t) or "").endswith("parse_one_field_bytes") for _b, t in g.calls()):
            tg = reader_tags(g)
            if tg:
                manual.setdefault(owner, set()).update(tg)
    # writer side
    W = Writers(ctx)
    W.readers = set(decoded) | set(manual)
    writers = {}
    for f in prog.fns.values():
        if f.crate != "scrunch" or not f.impl_self or not (f.name or "").startswith("construct") or not builder_params(f):
            continue
        writers.setdefault(strip_generics(f.impl_self), []).append(f)
    n_pairs = n_whole = n_manual = 0
    for owner in sorted(set(decoded) | set(manual)):
        ws = sorted(writers.get(owner, []), key=lambda f: f.key)
        if not ws:
            ctx.notes.append("C19: %s decodes %s but has no construct* writer with a Builder parameter" % (owner, sorted(decoded.get(owner, ()))))
            continue
        for f in ws:
            fields, raws, unknown = W.table(f, ("param", builder_params(f)[0]))
            if unknown:
                ctx.violate(R1, f, "writer-table", "a field number or a builder hand-off in %s cannot be resolved; the writer table is incomplete" % f.skey)
                continue
            cand = sorted(decoded.get(owner, ()))
            whole = {r for r in raws if r in stubs}
            if fields and owner in manual and fields <= manual[owner]:
                ctx.ok(R3, f, "%s writes %s, all of them tags its hand-written reader expects" % (f.name, sorted(fields)))
            elif fields and cand:
                # field-by-field writer: exactly one decoded stub has this table
                match = [s for s in cand if stubs[s][1] == fields]
                n_pairs += 1
                if match:
                    ctx.ok(R1, f, "%s writes %s = the table of %s" % (f.name, sorted(fields), match[0].rsplit("::", 1)[-1]))
                else:
                    best = min(cand, key=lambda s: len(stubs[s][1] ^ fields))
                    ctx.violate(R1, f, "writer-vs-stub",
                                "%s writes fields %s but %s, which %s re-parses it with, dispatches on %s: %s is %s" % (
                                    f.skey, sorted(fields), best, owner, sorted(stubs[best][1]),
                                    sorted(stubs[best][1] ^ fields), "written but never read back / expected but never written"))
                # inline nested scopes against nested message types
                for b, t in f.calls():
                    pass
            if whole or (raws and not fields):
                n_whole += 1
                wr = {r for r in raws if not re.match(r"^[A-Z]\w{0,3}$", r) and r != "<raw bytes>"}
                missing = sorted(r for r in wr if r in stubs and r not in decoded.get(owner, set()))
                ctx.check(R2, f, "whole-stub", not missing, "%s writes %s whole and %s decodes them" % (f.name, sorted(x.rsplit("::", 1)[-1] for x in wr) or "-", owner.rsplit("::", 1)[-1]),
                          "%s writes %s whole but no reader of %s decodes it (readers decode %s)" % (f.skey, missing, owner, sorted(decoded.get(owner, ()))))
        if owner in manual:
            n_manual += 1
            allw = set()
            for f in ws:
                allw |= nested_fields(W, f)
            for (n, w) in sorted(manual[owner], key=lambda x: (str(x[0]), str(x[1]))):
                ctx.check(R3, owner, "manual-tag", (n, w) in allw, "the reader of %s expects tag (%s, wire %s) and a writer emits it" % (owner.rsplit("::", 1)[-1], n, w),
                          "the reader of %s compares a parsed tag with (%s, wire %s) but no writer of that type emits it (writers emit %s)" % (owner, n, w, sorted(allw, key=str)))
    # nested inline scopes: a sub-builder for a `message<M>` field, filled field by field by the writer or its helpers
    n_nested = 0
    for owner, ws in sorted(writers.items()):
        for f in ws:
            fields, _raws, unknown = W.table(f, ("param", builder_params(f)[0]))
            match = [s_ for s_ in sorted(decoded.get(owner, ())) if stubs[s_][1] == fields]
            if unknown or not match:
                continue
            n_nested += nested_check(ctx, R1, W, f, ("param", builder_params(f)[0]), stubs, match[0], set())
    ctx.floor(R1, "field-by-field writer/reader pairs", n_pairs, 8)
    ctx.floor(R2, "whole-stub writers", n_whole, 6)
    ctx.floor(R3, "hand-written readers", n_manual, 1)
    ctx.floor(R1, "inline nested scopes", n_nested, 1)
    # C15.1 over scrunch's derived messages is part of this claim
    C15.c151(ctx)


def nested_fields(W, f, depth=0, seen=None):
    """All (number, wire) pairs f or the helpers it hands a builder to emit, in any scope (for the manual-tag rule)."""
    seen = seen if seen is not None else set()
    if f.key in seen or depth > 6:
        return set()
    seen.add(f.key)
    out = set()
    for b, t in f.calls():
        ck = callee_skey(t) or ""
        m = APP.match(ck)
        if m and m.group(1) in WIRE and len(t["args"]) > 1:
            out.add((field_number(f, t["args"][1]), WIRE[m.group(1)]))
            continue
        if any(a.get("k") in ("copy", "move") and "scrunch::builder::Builder" in f.locals[a["pl"]["l"]] for a in t["args"]):
            for k in W.ctx.prog.targets(t):
                g = W.ctx.prog.fns.get(k)
                if g is not None and g.crate == "scrunch":
                    out |= nested_fields(W, g, depth + 1, seen)
    return out


def nested_check(ctx, R, W, f, scope, stubs, stub, seen, depth=0):
    """Sub-builders opened at `scope` in f (or in helpers handed the same builder) for a field that `stub` declares as
    message<M>: what is written into them must equal M's table."""
    if (f.key, scope) in seen or depth > 6:
        return 0
    seen.add((f.key, scope))
    n = 0
    types = stubs[stub][2]
    for b, t in f.calls():
        ck = callee_skey(t) or ""
        pt = P.term_pt(f, b.idx)
        if ck == "scrunch::builder::Builder::sub":
            if W._recv_scope_of_sub(f, t) != scope:
                continue
            num = field_number(f, t["args"][1])
            m = re.match(r"^prototk::field_types::message<(.*)>$", (types.get(num) or "").strip())
            if not m:
                continue
            inner = strip_generics(m.group(1))
            fields, _raws, unknown = W.table(f, ("sub", pt))
            n += 1
            ok = inner in stubs and not unknown and stubs[inner][1] == fields
            ctx.check(R, f, "nested-scope", ok,
                      "the sub-builder for field %s of %s is filled with %s = the table of %s" % (num, stub.rsplit("::", 1)[-1], sorted(fields), inner.rsplit("::", 1)[-1]),
                      "the sub-builder for field %s of %s is filled with %s, but the reader parses that field as %s, which dispatches on %s" % (
                          num, stub, sorted(fields), inner, sorted(stubs.get(inner, (None, set()))[1])), pt=pt)
            continue
        if APP.match(ck):
            continue
        for j, a in enumerate(t["args"]):
            if a.get("k") in ("copy", "move") and "scrunch::builder::Builder" in f.locals[a["pl"]["l"]] and scope_of(f, a) == scope:
                for k in ctx.prog.targets(t):
                    g = ctx.prog.fns.get(k)
                    if g is not None and g.crate == "scrunch" and (j + 1) in builder_params(g):
                        go = strip_generics(g.impl_self or "")
                        if go and go in W.readers and go != strip_generics(f.impl_self or ""):
                            continue
                        n += nested_check(ctx, R, W, g, ("param", j + 1), stubs, stub, seen, depth + 1)
    return n


# ------------------------------------------------------------------------------------------------
# C19.4 sibling bit vectors agree on the index domain of access / rank

def reject_relation(f):
    """The relation between the index parameter and self.len() under which the method answers None at once:
    '>=' / '>' / None (no such test in this function)."""
    rels = []
    for b in P.switch_blocks(f):
        for c_ in K.cond_sources(f, b.idx):
            if c_["k"] != "bin" or c_["op"] not in ("Lt", "Le", "Gt", "Ge"):
                continue
            a, d = c_["st"]["rv"]["a"], c_["st"]["rv"]["b"]

            def is_idx(o):
                return o.get("k") in ("copy", "move") and any(s_["k"] == "param" and s_["i"] == 2 and not s_["proj"] for s_ in P.origins(f, o))

            def is_len(o):
                return any(s_["k"] == "call" and re.search(r"::len$", s_["callee"]) and
                           any(x["k"] == "param" and x["i"] == 1 for x in P.origins(f, s_["t"]["args"][0])) for s_ in P.origins(f, o))
            if is_idx(a) and is_len(d):
                op = c_["op"]
            elif is_len(a) and is_idx(d):
                op = {"Lt": "Gt", "Le": "Ge", "Gt": "Lt", "Ge": "Le"}[c_["op"]]
            else:
                continue
            # op is now  idx OP len  on the true edge; find the edge that returns None without any further call
            for lab, tgt in b.succs:
                if lab not in ("sw:0", "sw:1"):
                    continue
                truth = lab == "sw:1"
                calls = [P.term_pt(f, bb.idx) for bb in f.blocks if bb.term["t"] == "call"]
                q = P.reach(f, [(tgt, 0)], P.return_points(f), avoid=set(calls))
                if q is None:
                    continue
                rel = op if truth else {"Lt": "Ge", "Le": "Gt", "Gt": "Le", "Ge": "Lt"}[op]
                if rel in ("Ge", "Gt"):
                    rels.append(">=" if rel == "Ge" else ">")
    return rels[0] if rels else None


def c194(ctx):
    R = "C19.4"
    ctx.declare(R, "every bit vector implementation rejects the same indices: access(i) is defined for i < len, rank(i) for i <= len (siblings cross-checked)")
    want = {"access": ">=", "rank": ">"}
    n = 0
    for f in sorted(ctx.prog.fns.values(), key=lambda f: f.key):
        if f.crate != "scrunch" or not f.impl_trait or not strip_generics(f.impl_trait).endswith("bit_vector::BitVector") or f.name not in want:
            continue
        rel = reject_relation(f)
        if rel is None:
            continue      # delegates (access_rank / a wrapped vector): nothing of its own to compare
        n += 1
        ctx.check(R, f, "index-domain", rel == want[f.name],
                  "%s::%s answers None exactly when index %s len()" % (strip_generics(f.impl_self or "").rsplit("::", 2)[-2:][0] if f.impl_self else "?", f.name, want[f.name]),
                  "%s answers None when index %s len(), its siblings when index %s len(): %s" % (
                      f.skey, rel, want[f.name], "the last valid position is refused" if (rel, want[f.name]) == (">=", ">") else "one position past the end is accepted"))
    ctx.floor(R, "bit vector access/rank implementations with their own index test", n, 4)


# ------------------------------------------------------------------------------------------------
# C19.5 a backward-search step keeps an empty range empty

def c195(ctx):
    R = "C19.5"
    ctx.declare(R, "one step of backward search maps an empty suffix-array range (lo > hi: the symbol or the match so far does not occur) "
                   "to an empty range: every early return taken on an emptiness test yields a pair (a, b) with a > b")
    from blue import bounds as B
    n = 0
    for f in sorted(ctx.prog.fns.values(), key=lambda f: f.key):
        if f.crate != "scrunch" or f.name != "constrain" or not (f.impl_trait or "").endswith("psi::Psi"):
            continue
        bf = B.BF(ctx.prog, f)
        for b in P.switch_blocks(f):
            facts = bf.edge_facts(b.idx, "sw:1")
            # emptiness test of a parameter:  p.1 < p.0
            emp = [(x, y) for (x, op, y) in facts if op == "<" and x[0] == "pl" and y[0] == "pl" and x[1] == y[1] and 1 <= x[1] <= f.argc and
                   x[2] == ("1",) and y[2] == ("0",)]
            if not emp:
                continue
            tgt = dict(b.succs).get("sw:1")
            # the early return on this edge: an Ok(..) reached without any call in between
            calls = [P.term_pt(f, bb.idx) for bb in f.blocks if bb.term["t"] == "call"]
            oks = [(bb.idx, i) for bb in f.blocks for i, st in enumerate(bb.st) if st["s"] == "=" and st["lhs"]["l"] == 0 and P._is_ok_agg(st["rv"])]
            here = [o for o in oks if P.reach(f, [(tgt, 0)], [o], avoid=set(calls)) is not None]
            for o in here:
                n += 1
                st = f.blocks[o[0]].st[o[1]]
                val = st["rv"]["ops"][0]
                lo = bf.term_of(val["pl"]["l"], ("0",)) if val.get("k") in ("copy", "move") else ("?",)
                hi = bf.term_of(val["pl"]["l"], ("1",)) if val.get("k") in ("copy", "move") else ("?",)
                why = None
                if lo[0] == "c" and hi[0] == "c" and lo[1] > hi[1]:
                    why = "the constant pair (%d, %d)" % (lo[1], hi[1])
                elif hi == ("sub", lo, ("c", 1)):
                    why = "(t, t - 1)"
                else:
                    why = bf.prove(hi, True, lo, o)
                who = f.local_name(emp[0][0][1]) or "_%d" % emp[0][0][1]
                ctx.check(R, f, "empty-stays-empty", bool(why),
                          "when `%s` is empty the step returns an empty range (%s)" % (who, why),
                          "when `%s` is empty (lo > hi) the step returns (%s, %s), which is not known to be empty: an absent symbol no longer empties the "
                          "match, so patterns that do not occur are reported with the hits of a shorter pattern" % (who, B.named(f, lo), B.named(f, hi)), pt=o)
    ctx.floor(R, "early returns on an emptiness test in Psi::constrain", n, 2)


# ------------------------------------------------------------------------------------------------
# C19.6 a zip() in an index writer ends with its shorter side: both sides are equally long by construction

def _zip_side(f, op):
    """(base id, shape, slice form) of one zip operand: which sequence it walks and how."""
    shape, sl, base = "elems", None, None
    seen_calls = []
    for s_ in P.origins(f, op):
        if s_["k"] == "call":
            ck = s_["callee"]
            seen_calls.append(ck)
            m = re.search(r"::(chunks|chunks_exact|windows|rchunks)$", ck)
            if m:
                shape = (m.group(1), tuple(sorted(K.sig(f, s_["t"]["args"][1]))))
                b2, _s2, l2 = _zip_side(f, s_["t"]["args"][0])
                base, sl = b2, l2
                return base, shape, sl
            if re.search(r"index::index$|Index<.*>>::index$|index::Index.*::index$", ck) and len(s_["t"]["args"]) == 2:
                for r_ in P.origins(f, s_["t"]["args"][1]):
                    if r_["k"] == "agg" and "range::Range" in (r_.get("adt") or ""):
                        kind = r_["adt"].rsplit("::", 1)[-1]
                        ops = r_["st"]["rv"]["ops"]
                        desc = []
                        for o_ in ops:
                            c_ = [x.get("v") for x in P.value_slice(f, o_)[0] if x["k"] == "const" and "v" in x]
                            subs = [x for x in P.value_slice(f, o_)[0] if x["k"] == "bin" and x["op"].startswith("Sub")]
                            lens = [x for x in P.value_slice(f, o_)[0] if x["k"] == "call" and x["callee"].endswith("::len")]
                            desc.append("len-1" if (subs and lens and 1 in c_) else ("%s" % c_[0] if len(c_) == 1 and not lens else "?"))
                        sl = (kind, tuple(desc))
        elif s_["k"] == "param" and not s_["proj"]:
            base = ("p", s_["i"])
    if base is None:
        cur = op
        for _ in range(8):
            if cur is None or cur.get("k") not in ("copy", "move"):
                break
            l = cur["pl"]["l"]
            if f.local_name(l) and re.search(r"Vec<", f.locals[l]):
                base = ("l", l)
                break
            ds = [(kind, p_) for (_pt, kind, p_) in P.defs(f).of(l) if kind in ("assign", "call")]
            if len(ds) != 1:
                break
            kind, p_ = ds[0]
            if kind == "call":
                cur = p_["args"][0] if p_["args"] and P.TRANSPARENT.search(callee_skey(p_) or "") else None
            elif p_["rv"]["r"] in ("ref", "rawptr"):
                cur = {"k": "copy", "pl": {"l": p_["rv"]["pl"]["l"], "p": []}} if not P._field_elems(p_["rv"]["pl"]) else None
            elif p_["rv"]["r"] in ("use", "cast"):
                cur = p_["rv"]["a"]
            else:
                cur = None
    return base, shape, sl


def _push_guards(f, local, depth=0):
    """Dominating-guard signatures of the pushes that fill a Vec local (following `a = b` moves of whole vectors)."""
    out = []
    for pt, kind, payload in P.defs(f).of(local):
        if kind == "store":
            out.append((frozenset(P.guards_of(f, pt)), P.reach(f, P.after(f, pt), [pt]) is not None))
        elif kind == "assign" and payload["rv"]["r"] == "use" and depth < 3:
            o = payload["rv"]["a"]
            if o.get("k") in ("copy", "move") and not o["pl"]["p"] and o["pl"]["l"] != local:
                out += _push_guards(f, o["pl"]["l"], depth + 1)
    return out


def c196(ctx):
    R = "C19.6"
    ctx.declare(R, "index writers never drive a loop by a zip() whose sides can differ in length")
    n = 0
    for f in sorted(ctx.prog.fns.values(), key=lambda f: f.skey):
        if f.crate != "scrunch" or f.kind == "Closure":
            continue
        writer = any(re.search(r"scrunch::builder::Builder|&mut alloc::vec::Vec<u8", f.locals[i]) for i in range(1, f.argc + 1)) or \
            re.search(r"::(construct\w*|from_indices|check_record_boundaries)$", f.skey)
        if not writer:
            continue
        for b, t in f.calls():
            ck = callee_skey(t) or ""
            if not re.search(r"core::iter::(adapters::zip::)?zip$|Iterator::zip$", ck) or len(t["args"]) != 2:
                continue
            n += 1
            pt = P.term_pt(f, b.idx)
            (ba, sa, la), (bb, sb, lb) = _zip_side(f, t["args"][0]), _zip_side(f, t["args"][1])
            why = None
            if ba is not None and ba == bb and sa == sb:
                forms = {la, lb}
                if la == lb:
                    why = "both sides walk the same sequence"
                elif forms in ({None, ("RangeFrom", ("1",))}, {("RangeTo", ("len-1",)), ("RangeFrom", ("1",))}):
                    why = "adjacent pairs of one sequence (x[..n-1] / x, x[1..])"
            elif ba is not None and bb is not None and ba[0] == "l" and bb[0] == "l" and sa == sb and la == lb and \
                    isinstance(ba[1], int) and isinstance(bb[1], int):
                ga, gb = _push_guards(f, ba[1]), _push_guards(f, bb[1])
                if ga and gb and sorted(map(repr, ga)) == sorted(map(repr, gb)):
                    why = "two vectors filled by pushes under the same conditions"
            ctx.check(R, f, "zip-sides-equal", why is not None, "zip() sides are equally long by construction: %s" % why,
                      "%s drives a loop by zip() of two sequences that are not equally long by construction (%s %s %s / %s %s %s): the loop ends with the "
                      "shorter side and what the longer side still holds is never written -- in the sparse bit vector a level whose divider list is one "
                      "shorter than its pointer list loses its last node" % (f.skey, ba, sa, la, bb, sb, lb), pt=pt)
    # no floor: a writer without any zip() satisfies the clause (the matcher itself is exercised by mutants/C19__sparse_levels_zipped.patch
    # and by the two adjacent-pairs zips on today's tree, which are recorded as discharged obligations)
    ctx.notes.append("C19.6 examined %d zip() calls in index writers" % n)


# ------------------------------------------------------------------------------------------------
# C19.7 select never answers a position beyond the vector (the last word is zero-padded: positions in the padding are not zeros of the vector)

def c197(ctx):
    R = "C19.7"
    ctx.declare(R, "the rrr bit vectors' select answers Some(position) only after comparing that position with len(): the final 63-bit word is "
                   "zero-padded, and a position inside the padding is not a zero of the vector (backward search takes None for `no further occurrence`)")
    n = 0
    for f in sorted(ctx.prog.fns.values(), key=lambda f: f.key):
        if not re.match(r"^scrunch::bit_vector::(rrr|cf_rrr)::BitVector::select_helper$", f.skey):
            continue
        for b in f.blocks:
            for i, st in enumerate(b.st):
                if st["s"] != "=" or st["lhs"]["l"] != 0 or st["lhs"]["p"]:
                    continue
                rv = st["rv"]
                if not (rv["r"] == "agg" and rv.get("variant") == "Some"):
                    continue
                o = rv["ops"][0]
                if o.get("k") == "const":
                    continue
                n += 1
                ans = K.base_locals(f, o)
                ok = False
                for g in K.compare_guards(f, (b.idx, i), user_only=False):
                    a_len = any(x["k"] == "call" and x["callee"].endswith("::len") for x in P.origins(f, g["a"]))
                    b_len = any(x["k"] == "call" and x["callee"].endswith("::len") for x in P.origins(f, g["b"]))
                    other = g["b"] if a_len else g["a"]
                    if (a_len or b_len) and (K.base_locals(f, other) & ans):
                        inrange = (g["op"], g["holds"], a_len) in (("Gt", False, False), ("Le", True, False), ("Ge", True, True), ("Lt", False, True),
                                                                  ("Lt", True, False), ("Ge", False, False), ("Gt", True, True), ("Le", False, True))
                        ok = ok or inrange
                ctx.check(R, f, "answer-within-len", ok, "a position is answered only after it compared within len()",
                          "%s answers Some(position) without comparing the position with len(): in the zero-padded last word select0 reports zeros "
                          "that the vector does not have, and the psi wavelet tree's upper bound comes out one too high (count of an absent pattern is 1)"
                          % f.skey, pt=(b.idx, i))
    ctx.floor(R, "non-constant answers of the rrr select helpers", n, 2)


# ------------------------------------------------------------------------------------------------
# C19.8 rank(len) is not looked up like a position inside the vector (siblings: rrr, cf_rrr)

def c198(ctx):
    R = "C19.8"
    ctx.declare(R, "rank(len) is answered from the last position: every block-structured rank compares its index with len() for equality before it "
                   "divides it by the block size (len / stride is one past the block table when len is a multiple of the block size)")
    n = 0
    for f in sorted(ctx.prog.fns.values(), key=lambda f: f.key):
        if not re.match(r"^<scrunch::bit_vector::(rrr|cf_rrr)::BitVector as scrunch::bit_vector::BitVector>::rank$", f.skey):
            continue
        n += 1
        eq = False
        for b in f.blocks:
            for st in b.st:
                if st["s"] == "=" and st["rv"]["r"] == "bin" and st["rv"]["op"] in ("Eq", "Ne"):
                    a_, b_ = st["rv"]["a"], st["rv"]["b"]
                    pa = any(x["k"] == "param" and x["i"] == 2 for x in P.origins(f, a_)) or any(x["k"] == "param" and x["i"] == 2 for x in P.origins(f, b_))
                    ln = any(x["k"] == "call" and x["callee"].endswith("::len") for x in P.origins(f, a_) + P.origins(f, b_))
                    eq = eq or (pa and ln)
        ctx.check(R, f, "rank-at-len-special-cased", eq, "%s treats index == len() separately" % f.skey.split(" as ")[0].lstrip("<"),
                  "%s hands index == len() to the block lookup: for a length that is a multiple of the block size the block table has no such "
                  "entry and rank(len) answers None where a plain bit array answers the number of ones" % f.skey.split(" as ")[0].lstrip("<"))
    ctx.floor(R, "block-structured rank implementations", n, 2)
