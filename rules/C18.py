"""C18 — coalescing queue, wait list, LRU: hand-off and accounting pairing."""
import re

from blue import prim as P
from blue.facts import callee_skey, strip_generics
from . import common as K
from .C06 import true_edge_guard, held_at

EXPLANATION = (
    "C18 structural clauses: (C18.1) every return of WorkCoalescingQueue::do_work leaves the wait list (unlink) and then "
    "notifies the next head; the value returned is the Output loaded from the caller's own waiter; on the leader path "
    "doing_work=true < core.work < store+notify of every taken waiter < own unlink < doing_work=false < notify_head; in the "
    "batching loop an input is marked Stolen only after core.batch took it, and the first waiter is always taken; (C18.2) "
    "WaitList: head/tail change only in link/_unlink with WaitList.state held, _unlink clears `linked` before advancing the "
    "head and announces free slots after releasing the lock when someone waits for one, link waits in a loop; notify_head "
    "signals under WaitList.state; (C18.3) LRU: every keys.insert is paired with size +=, every keys.remove with size -=, the "
    "overwrite arm with both; keys.remove precedes Node::drop; raw-pointer dereferences happen only in functions that hold or "
    "receive the state guard; insert evicts in a loop on size > capacity, insert_no_evict never reaches remove_lru; (C18.4) "
    "the lock-order graph of sync42 is acyclic apart from the doing_work-gated state/core pair (C20.1); (C18.5) wait "
    "discipline: condvar waits are classified as plain (return after any wake-up) or filtering (re-wait until a private "
    "predicate changes, e.g. wait_for_store on Waiter.seq_no); a filtering wait may be used only where every writer of its "
    "predicate in the function holds the mutex the waiter sleeps with, a plain wait only inside a loop that re-reads the "
    "shared state.  ORDER/MUSTPASS/HELD/WRITES/ORIGIN over resolved MIR.")
NOT_DECIDED = ("exactly-once / ordering / absence of every lost wake-up under all interleavings (C18.5 is a necessary condition); LRU "
               "equivalence to a sequential model over all operation sequences")
ASSUMPTIONS = ["std Mutex/Condvar semantics"]

Q = "sync42::work_coalescing_queue::WorkCoalescingQueue::"
WL = "sync42::wait_list::"
LRU = "sync42::lru::LeastRecentlyUsedCache::"


def rules(ctx):
    c181(ctx)
    c182(ctx)
    c183(ctx)
    c184(ctx)
    c185(ctx)


def c181(ctx):
    R = "C18.1"
    ctx.declare(R, "do_work: every exit unlinks then notifies; the leader publishes every output before leaving")
    f = ctx.fn(R, Q + "do_work")
    if not f:
        return
    ul = ctx.calls(R, f, WL + r"WaitList::unlink$", floor=3)
    nh = ctx.calls(R, f, WL + r"WaitList::notify_head$", floor=3)
    rets = P.return_points(f)
    # every return passes unlink and then notify_head (panics end paths)
    p = P.reach(f, P.ENTRY, rets, avoid=set(ul))
    ctx.check(R, f, "exit-unlinks", p is None, "every return of do_work passes WaitList::unlink", "do_work can return while still linked", path=p)
    p = P.reach(f, P.ENTRY, rets, avoid=set(nh))
    ctx.check(R, f, "exit-notifies", p is None, "every return of do_work passes WaitList::notify_head", "do_work can return without waking the next head", path=p)
    for n in nh:
        bad = P.order(f, ul, [n])
        ctx.check(R, f, "unlink<notify", not bad, "notify_head follows an unlink", "notify_head can run before the caller left the list", pt=n)
    for u in ul:
        p = P.reach(f, P.after(f, u), rets, avoid=set(nh))
        ctx.check(R, f, "notify-after-unlink", p is None, "after unlink every path to the return notifies the head",
                  "a return after unlink skips notify_head", pt=u, path=p)
        ctx.check(R, f, "unlink-own", any(s["k"] == "call" and s["callee"].endswith("WaitList::link") for s in P.origins(f, P.term_at(f, u)["args"][1])),
                  "the guard unlinked is the caller's own (from link)", "unlink is applied to a guard other than the caller's", pt=u)
    # returned value = Output loaded from own waiter
    ret_srcs = P.origins(f, {"k": "copy", "pl": {"l": 0, "p": []}})
    loads = [s for s in ret_srcs if s["k"] == "call" and s["callee"].endswith("WaitGuard::load")]
    fields = {s["f"] for s in ret_srcs if s["k"] == "field"}
    ctx.check(R, f, "returns-own-output", bool(loads) and all(any(x["k"] == "call" and x["callee"].endswith("WaitList::link") for x in P.origins(f, s["t"]["args"][0])) for s in loads),
              "the returned value is loaded from the caller's own waiter", "the returned value does not come from the caller's own waiter")
    # leader path ordering
    dw_true = [p for p in P.field_writes(f, r"ConcurrentState$", "doing_work") if _const_val(f, p) == 1]
    dw_false = [p for p in P.field_writes(f, r"ConcurrentState$", "doing_work") if _const_val(f, p) == 0]
    work = ctx.calls(R, f, r"WorkCoalescingCore::work$|::work$")
    work = [p for p in work if "WorkCoalescingCore" in (P.term_at(f, p).get("trait") or P.term_at(f, p).get("decl") or "")]
    stores = ctx.calls(R, f, WL + r"WaitGuard::store$", floor=2)
    notif = ctx.calls(R, f, WL + r"WaitGuard::notify$")
    st_out = [p for p in stores if not P.order(f, work, [p])]
    st_stolen = [p for p in stores if p not in st_out]
    ul_leader = [p for p in ul if not P.order(f, work, [p])]
    nh_leader = [p for p in nh if not P.order(f, work, [p])]
    zhead = [p for p in P.call_points(f, r"Zip.* as core::iter::traits::iterator::Iterator>::next$") if any(P.reach(f, P.after(f, p), [s]) for s in st_out)]
    ctx.floor(R, "output distribution loop", len(zhead), 1)
    ctx.order_chain(R, f, [("doing_work = true", dw_true), ("core.work", work), ("output distribution loop", zhead), ("own unlink", ul_leader),
                           ("doing_work = false", dw_false), ("notify_head", nh_leader)])
    for n in zhead:
        for label, pts in (("w.store(Output)", st_out), ("w.notify()", notif)):
            p = P.reach(f, P.after(f, n), [n], avoid=set(pts))
            ctx.check(R, f, "loop:" + label, p is None and bool(pts), "every (waiter, output) pair passes %s" % label,
                      "a taken waiter can be skipped by %s" % label, pt=n, path=p)
    ctx.order_chain(R, f, [("w.store(Output)", st_out), ("w.notify()", notif)], cycles=True)
    held_at(ctx, R, f, dw_true + dw_false, "doing_work update", lock="WorkCoalescingQueue.state")
    # the leader is head and nobody else is working
    lk_core = [p for p in P.call_points(f, r"Mutex.*::lock$", arg_pred=K.recv_is_field("core"))]
    for pt in lk_core:
        g = true_edge_guard(f, pt, r"WaitGuard::is_head$")
        cg = [x for x in K.compare_guards(f, pt)]
        ctx.check(R, f, "leader-is-head", g is not None, "the core is taken only by the head of the wait list", "a non-head waiter can take the core", pt=pt)
    # the count of batched waiters: the variable handed to core.work(taken, ..)
    taken_locals = set()
    for w in work:
        taken_locals |= K.user_locals(f, P.term_at(f, w)["args"][1])
    # batching loop: batch before Stolen; first always taken
    batch = ctx.calls(R, f, r"WorkCoalescingCore::batch$|::batch$")
    batch = [p for p in batch if "WorkCoalescingCore" in (P.term_at(f, p).get("trait") or P.term_at(f, p).get("decl") or "")]
    ctx.order_chain(R, f, [("core.batch", batch), ("w.store(Stolen)", st_stolen)], cycles=True)
    for b in batch:
        cg = [x for x in K.compare_guards(f, b) if x["op"] == "Eq" and "#0" in (K.src_names(f, x["a"]) | K.src_names(f, x["b"]))]
        cb = K.guarded_by_call(f, b, r"::can_batch$")
        # `taken == 0 || can_batch`: batch is reachable through the taken==0 true edge without can_batch
        via_zero = any(P.reach(f, [(dict(f.blocks[bb].succs)["sw:1"], 0)], [b], avoid=set(P.call_points(f, r"::can_batch$")))
                       for bb in [blk.idx for blk in P.switch_blocks(f) if any(s["k"] == "bin" and s["op"] == "Eq" and bool(K.user_locals(f, s["st"]["rv"]["a"]) & taken_locals) for s in K.cond_sources(f, blk.idx))])
        ctx.check(R, f, "first-always-taken", via_zero, "the first waiter is batched without consulting can_batch (taken == 0 ||)",
                  "the head's own input can be refused by can_batch (it would never get an output)", pt=b)
    # `taken` counts exactly the batched waiters: it goes up only after core.batch took the waiter's input, and every batched waiter
    # is counted -- core.work sizes its outputs by it and they are zipped with the first `taken` waiters, so a refused waiter that was
    # counted is answered by a batch that never carried its input
    incs = []
    for blk in f.blocks:
        for i_, st_ in enumerate(blk.st):
            if st_["s"] == "=" and not st_["lhs"]["p"] and st_["lhs"]["l"] in taken_locals and st_["rv"]["r"] == "use":
                a_ = st_["rv"]["a"]
                if a_.get("k") in ("copy", "move"):
                    ds_ = [p_ for (_pt, kind_, p_) in P.defs(f).of(a_["pl"]["l"]) if kind_ == "assign"]
                    if ds_ and all(p_["rv"]["r"] == "bin" and p_["rv"]["op"].startswith("Add") for p_ in ds_):
                        incs.append((blk.idx, i_))
    ctx.floor(R, "increments of the batched-waiter count", len(incs), 1)
    loop_heads = [p_ for p_ in P.call_points(f, r"WaitIterator.*Iterator>::next$|wait_list::WaitIterator.*::next$") if P.reach(f, P.after(f, p_), [p_]) is not None]
    for inc in incs:
        q = None
        for h_ in loop_heads:
            q = q or P.reach(f, P.after(f, h_), [inc], avoid=set(batch) | (set(loop_heads) - {h_}))
        ctx.check(R, f, "count-after-batch", q is None and bool(loop_heads), "the count goes up only in an iteration that passed core.batch",
                  "the count of batched waiters is raised in an iteration that has not (yet) batched its waiter: a waiter refused by can_batch is "
                  "counted, core.work produces an output for it and it returns the result of a batch that never carried its input", pt=inc, path=q)
    for b_ in batch:
        q = P.reach(f, P.after(f, b_), loop_heads + work, avoid=set(incs))
        ctx.check(R, f, "batch-is-counted", q is None, "every batched waiter is counted before the next waiter or the work",
                  "a waiter can be batched without being counted (it would never get its output)", pt=b_, path=q)
    # the outputs are handed to exactly the taken waiters
    tk = P.call_points(f, r"Iterator::take$|iterator::Iterator>::take$")
    ctx.check(R, f, "outputs-to-taken", any(K.user_locals(f, P.term_at(f, p)["args"][1]) & taken_locals for p in tk),
              "outputs are zipped with waiter.iter().take(taken)", "outputs are not distributed to exactly the taken waiters")

    # ... and to no other: the window of waiters that receive an output is [k, taken), where k outputs were taken off the iterator
    # by hand before the zip (none today).  `iter().skip(s).take(n)` must have s == k and n == taken - k: a window that reaches one
    # waiter past the batch hands that waiter a surplus output of a batch that never carried its input.
    outs_next = []
    for p_ in P.call_points(f, r"Iterator>::next$|Iterator::next$"):
        t_ = P.term_at(f, p_)
        if t_["args"] and any(s_["k"] == "call" and s_.get("pt") in work for s_ in P.origins(f, t_["args"][0])):
            outs_next.append(p_)
    k_ = len(outs_next)
    skips = P.call_points(f, r"Iterator::skip$|iterator::Iterator>::skip$")
    s_total, s_known = 0, True
    for p_ in skips:
        cs = [c_ for c_ in K.arg_consts(f, p_, 1)]
        cs = [c_.get("v") if isinstance(c_, dict) else c_ for c_ in cs]
        if len(cs) == 1 and isinstance(cs[0], int):
            s_total += cs[0]
        else:
            s_known = False
    for p_ in tk:
        off = _minus_const(f, P.term_at(f, p_)["args"][1], taken_locals)
        ctx.check(R, f, "outputs-window", s_known and off is not None and s_total == k_ and off == k_,
                  "outputs go to the waiters [%d, taken): skip %d, take taken - %s, %d taken off by hand" % (k_, s_total, off, k_),
                  "the waiters that receive an output are not exactly the batched ones: %d output(s) are taken off the iterator by hand, the rest "
                  "are zipped with iter().skip(%s).take(taken - %s) -- the window is not [%d, taken), so a waiter behind the batch can be handed "
                  "a surplus output for an input the core never saw" % (k_, s_total if s_known else "?", off, k_), pt=p_)


def _minus_const(f, op, base_locals, depth=0):
    """op == base - c for a user local of base_locals and a constant c >= 0: returns c (0 for base itself), else None."""
    if op.get("k") not in ("copy", "move") or depth > 6:
        return None
    l = op["pl"]["l"]
    if l in base_locals and not [e for e in op["pl"]["p"] if e != "*"]:
        return 0
    ds = [(kind, p_) for (_pt, kind, p_) in P.defs(f).of(l) if kind in ("assign", "call")]
    if len(ds) != 1 or ds[0][0] != "assign":
        return None
    rv = ds[0][1]["rv"]
    if rv["r"] in ("use", "cast"):
        return _minus_const(f, rv["a"], base_locals, depth + 1)
    if rv["r"] == "bin" and rv["op"].startswith("Sub"):
        b = rv["b"]
        if b.get("k") == "const" and isinstance(b["c"].get("v"), int):
            inner = _minus_const(f, rv["a"], base_locals, depth + 1)
            return None if inner is None else inner + b["c"]["v"]
    return None


def _const_val(f, pt):
    st = f.blocks[pt[0]].st[pt[1]]
    a = st["rv"].get("a")
    if a and a.get("k") == "const":
        return a["c"].get("v")
    return None


def c182(ctx):
    R = "C18.2"
    ctx.declare(R, "wait list: positions are handed out and retired under its lock; free slots and new heads are announced")
    # head/tail writes only in link/_unlink, with the lock held
    n = 0
    for g in ctx.prog.fns.values():
        if g.crate != "sync42":
            continue
        for fld in ("head", "tail"):
            for pt in P.field_writes(g, r"WaitListState$", fld):
                n += 1
                ok = g.skey in (WL + "WaitList::link", WL + "WaitList::_unlink")
                ctx.check(R, g, "writes-" + fld, ok, "WaitListState.%s is written in %s" % (fld, g.skey), "WaitListState.%s is written by %s" % (fld, g.skey), pt=pt)
                h = P.held(ctx.prog, g)
                ctx.check(R, g, "held-" + fld, "WaitList.state" in h.locks_at(pt), "with WaitList.state held", "WaitListState.%s is written without WaitList.state" % fld, pt=pt)
    ctx.floor(R, "head/tail writes", n, 2)
    f = ctx.fn(R, WL + "WaitList::_unlink")
    if f:
        st = [p for p in P.call_points(f, r"Atomic(Bool)?(::<bool>)?::store$") if "linked" in K.arg_field_names(f, p, 0)]
        hw = P.field_writes(f, r"WaitListState$", "head")
        no = ctx.calls(R, f, r"Condvar::notify_(one|all)$", arg_pred=K.recv_is_field("wait_waiter_available"), what="wait_waiter_available.notify")
        ctx.floor(R, "linked.store(false)", len(st), 1)
        ctx.order_chain(R, f, [("linked = false", st), ("head advance", hw)])
        for pt in no:
            h = P.held(ctx.prog, f)
            ctx.check(R, f, "notify-outside-lock", "WaitList.state" not in h.locks_at(pt, must=False), "the free-slot notification is sent after the lock is released",
                      "wait_waiter_available is notified while WaitList.state is held (harmless but not the documented shape)", pt=pt)
            lk = P.call_points(f, r"Mutex.*::lock$")
            ctx.check(R, f, "notify-after-section", not P.order(f, lk, [pt]), "and after the critical section that retired the position",
                      "the notification does not follow the critical section", pt=pt)
        # whenever a linker is parked (waiting_for_available > 0) the unlink announces: from the true edge of every switch
        # that tests exactly that comparison, every path to the return passes the notification.  Any further condition
        # (`&& was_full`, `&& head moved`) opens a bypass: notify_one wakes one linker per call, a head advance can free
        # several slots at once, and the remaining parked linkers are woken only by later unlinks.
        tests = []
        for b in P.switch_blocks(f):
            srcs = P.switch_cond_sources(f, b.idx)
            bins = [x for x in srcs if x["k"] == "bin"]
            calls = [x for x in srcs if x["k"] == "call" and not P.TRANSPARENT.search(x["callee"])]
            if len(bins) == 1 and not calls and bins[0]["op"] in ("Gt", "Ne", "Lt") and \
                    (".waiting_for_available" in K.src_names(f, bins[0]["st"]["rv"]["a"]) or ".waiting_for_available" in K.src_names(f, bins[0]["st"]["rv"]["b"])):
                consts = [x for x in srcs if x["k"] == "const" and "v" in x]
                if all(x["v"] in (0, 1) for x in consts):
                    negs = sum(1 for x in srcs if x["k"] == "un" and x["op"] == "Not")
                    tests.append((b, "sw:0" if negs % 2 else "sw:1"))
        ctx.floor(R, "_unlink tests waiting_for_available > 0", len(tests), 1)
        for b, lab in tests:
            starts = [(s_, 0) for l_, s_ in b.succs if l_ == lab or (lab == "sw:1" and l_ == "otherwise")]
            q = P.reach(f, starts, P.return_points(f), avoid=set(no))
            ctx.check(R, f, "announce-when-waiting", q is None, "whenever waiting_for_available > 0 the unlink notifies wait_waiter_available",
                      "an unlink that finds a parked linker (waiting_for_available > 0) can return without notifying wait_waiter_available: "
                      "notify_one wakes one linker per call and one head advance can free several slots, so the others stay parked on a ring that is never full again",
                      pt=P.term_pt(f, b.idx), path=q)
    f = ctx.fn(R, WL + "WaitList::link")
    if f:
        w = ctx.calls(R, f, r"Condvar::wait$", arg_pred=K.recv_is_field("wait_waiter_available"), what="wait_waiter_available.wait")
        for pt in w:
            ctx.check(R, f, "wait-in-loop", P.reach(f, P.after(f, pt), [pt]) is not None, "the wait for a free slot is inside a loop that re-checks head + len <= tail",
                      "link waits for a slot without re-checking the condition", pt=pt)
        tw = P.field_writes(f, r"WaitListState$", "tail")
        # the new position is published by `linked.store(true)`: through Waiter::initialize, or written out in link itself
        ini = P.call_points(f, WL + r"Waiter::initialize$")
        if ini:
            ctx.ok(R, f, "link publishes the slot through Waiter::initialize", ini)
        else:
            ini = ctx.calls(R, f, r"atomic::Atomic(Bool)?(::<bool>)?::store$", arg_pred=K.recv_is_field("linked"), what="linked.store(true)")
        ctx.order_chain(R, f, [("tail += 1", tw), ("waiter.initialize", ini)])
        held_at(ctx, R, f, ini, "initialize of the new position", lock="WaitList.state")
        for pt in tw:
            g = [x for x in K.compare_guards(f, pt) if x["op"] == "Le" and not x["holds"]]
            # the comparison may live in a predicate helper (`while self.is_full(&state)`): a function whose result is that one comparison
            for bb, lab, ss in K.guards(f, pt):
                for s_ in ss:
                    if s_["k"] != "call":
                        continue
                    for k_ in ctx.prog.targets(s_["t"]):
                        h_ = ctx.prog.fns.get(k_)
                        if h_ is None or h_.crate != "sync42":
                            continue
                        ds = P.defs(h_).of(0)
                        if len(ds) == 1 and ds[0][1] == "assign" and ds[0][2]["rv"]["r"] == "bin" and ds[0][2]["rv"]["op"] == "Le":
                            rv = ds[0][2]["rv"]
                            fa = {x["f"] for x in P.value_slice(h_, rv["a"])[0] if x["k"] == "field"}
                            fb = {x["f"] for x in P.value_slice(h_, rv["b"])[0] if x["k"] == "field"}
                            if "head" in fa and "tail" in fb and "tail" not in fa:
                                negs = sum(1 for x in ss if x["k"] == "un" and x["op"] == "Not")
                                holds = (lab != "sw:0") != bool(negs % 2)
                                if not holds:
                                    g.append({"helper": h_.skey})
            ctx.check(R, f, "slot-free", bool(g), "a position is handed out only when head + len > tail", "a position can be handed out while the ring is full", pt=pt)
    f = ctx.fn(R, WL + "WaitList::notify_head")
    if f:
        no = ctx.calls(R, f, r"Condvar::notify_(one|all)$")
        held_at(ctx, R, f, no, "head notification", lock="WaitList.state")
        for pt in no:
            def ht(x):
                """the guard says head < tail on this edge (written either way round)"""
                na, nb = K.src_names(f, x["a"]), K.src_names(f, x["b"])
                if ".head" in na and ".tail" in nb:
                    return (x["op"], x["holds"]) in (("Lt", True), ("Ge", False))
                if ".tail" in na and ".head" in nb:
                    return (x["op"], x["holds"]) in (("Gt", True), ("Le", False))
                return False
            cg = K.compare_guards(f, pt)
            g = [x for x in cg if ht(x)]
            ctx.check(R, f, "head-exists", bool(g), "only when head < tail", "notify_head indexes the head without checking the list is non-empty", pt=pt)
            # and whenever a head exists: nothing else decides whether the head is signalled.  A head re-checks a predicate of its caller's
            # (do_work: doing_work || !is_head) and goes back to sleep, so a second notification for the same head is not redundant.
            extra = []
            for bb, lab, srcs in K.guards(f, pt):
                bins = [x for x in srcs if x["k"] == "bin" and x["op"] in K.CMP_OPS]
                if bins and all(any(y["bb"] == bb and ht(y) for y in cg) for _x in bins):
                    continue
                if any(x["k"] in ("bin", "call", "field") for x in srcs):
                    extra.append(bb)
            ctx.check(R, f, "head-always-signalled", not extra, "every notify_head with a head present signals it",
                      "notify_head skips the signal under a further condition: a head that was woken, found its caller's predicate still false and slept again "
                      "is never woken by the call that makes the predicate true", pt=pt)
            iw = [s for s in P.origins(f, P.term_at(f, pt)["args"][0]) if s["k"] == "call" and s["callee"].endswith("WaitList::index_waitlist")]
            ctx.check(R, f, "notifies-head", bool(iw) and all(".head" in K.src_names(f, s["t"]["args"][1]) for s in iw), "the waiter notified is the one at state.head",
                      "notify_head does not notify the waiter at state.head", pt=pt)
    f = ctx.fn(R, "<sync42::wait_list::WaitGuard as core::ops::drop::Drop>::drop")
    if f:
        ul = ctx.calls(R, f, WL + r"WaitList::_unlink$")
        for pt in ul:
            g = [1 for bb, lab, ss in K.guards(f, pt) if lab != "sw:0" and any(s["k"] == "field" and s["f"] == "owned" for s in ss)]
            ctx.check(R, f, "drop-unlinks-owned", bool(g), "dropping an owned guard unlinks it", "WaitGuard::drop no longer unlinks owned guards", pt=pt)
    f = ctx.fn(R, WL + "Waiter::store")
    if f:
        no = ctx.calls(R, f, r"Condvar::notify_(one|all)$")
        vw = ctx.calls(R, f, r"Mutex.*::lock$", arg_pred=K.recv_is_field("value"))
        ctx.order_chain(R, f, [("value = Some(t)", vw), ("cond.notify_one", no)])


def c183(ctx):
    R = "C18.3"
    ctx.declare(R, "LRU: the byte accounting and the key map change together; nodes are freed after they left the map")
    f = ctx.fn(R, LRU + "insert_helper")
    if f:
        ins = ctx.calls(R, f, r"VacantEntry.*::insert$")
        sz = P.field_writes(f, r"lru::State$", "size")
        ctx.floor(R, "size updates in insert_helper", len(sz), 3)
        for pt in ins:
            p = P.reach(f, P.after(f, pt), P.return_points(f), avoid=set(sz))
            ctx.check(R, f, "insert-accounted", p is None, "every path after keys.insert passes size +=", "a key can be inserted without size being increased", pt=pt, path=p)
        # the overwrite arm adjusts by both values
        occ = [p for p in sz if not any(P.reach(f, P.after(f, i), [p]) for i in ins)]
        ctx.check(R, f, "overwrite-accounted", len(occ) >= 2, "the overwrite arm adds the new size and subtracts the old one", "the overwrite arm no longer adjusts size by both values")
    f = ctx.fn(R, LRU + "remove_lru")
    if f:
        rm = ctx.calls(R, f, r"HashMap.*::remove$")
        sz = P.field_writes(f, r"lru::State$", "size")
        nd = ctx.calls(R, f, r"sync42::lru::Node.*::drop$")
        ctx.floor(R, "size -= in remove_lru", len(sz), 1)
        for pt in rm:
            bad = P.order(f, sz, [pt])
            ctx.check(R, f, "remove-accounted", not bad, "keys.remove is preceded by size -= on every path", "a key can be removed without size being decreased", pt=pt)
        ctx.order_chain(R, f, [("keys.remove", rm), ("Node::drop", nd)])
        for pt in nd:
            p = P.reach(f, P.ENTRY, [pt], avoid=set(rm))
            ctx.check(R, f, "free-after-unmap", p is None, "a node is freed only after it left the key map", "a node can be freed while still in the key map", pt=pt, path=p)
    f = ctx.fn(R, LRU + "insert")
    if f:
        # eviction sites of insert: direct calls of remove_lru, and calls of a same-module helper that can reach it
        direct = P.call_points(f, LRU + r"remove_lru$")
        via = []
        for b, t in f.calls():
            pt = P.term_pt(f, b.idx)
            ks = ctx.prog.targets(t)
            if pt in direct or len(ks) != 1 or (callee_skey(t) or "").endswith(("::insert_helper", "::remove_lru")):
                continue
            g = ctx.prog.fns.get(ks[0])
            if g is not None and g.crate == "sync42" and g.skey.startswith("sync42::lru::") and P.call_points(g, LRU + r"remove_lru$"):
                via.append((pt, g))
        ev = direct + [pt for pt, _g in via]
        ctx.floor(R, "insert: eviction sites", len(ev), 1)
        for pt in direct:
            ctx.check(R, f, "evict-loop", P.reach(f, P.after(f, pt), [pt]) is not None, "eviction runs in a loop", "insert evicts at most once", pt=pt)
            g = [x for x in K.compare_guards(f, pt) if x["op"] == "Gt" and x["holds"] and ".size" in K.src_names(f, x["a"]) and ".capacity" in K.src_names(f, x["b"])]
            ctx.check(R, f, "evict-cond", bool(g), "while size > capacity", "eviction is not conditioned on size > capacity", pt=pt)
        for pt, g in via:
            t = P.term_at(f, pt)
            for q in P.call_points(g, LRU + r"remove_lru$"):
                ctx.check(R, g, "evict-loop", P.reach(g, P.after(g, q), [q]) is not None, "eviction runs in a loop", "%s evicts at most once" % g.skey, pt=q)
                lim = None
                for x in K.compare_guards(g, q):
                    if x["op"] == "Gt" and x["holds"] and ".size" in K.src_names(g, x["a"]):
                        if ".capacity" in K.src_names(g, x["b"]):
                            lim = "capacity"
                        for y in P.origins(g, x["b"]):
                            if y["k"] == "param":
                                a = t["args"][y["i"] - 1]
                                vs, _ = P.value_slice(f, a)
                                if any(z["k"] == "field" and z["f"] == "capacity" for z in P.origins(f, a)) and not any(z["k"] == "bin" for z in vs):
                                    lim = "capacity"
                                else:
                                    lim = lim or "other"
                ctx.check(R, f, "evict-cond", lim == "capacity", "the helper evicts while size > capacity",
                          "insert evicts down to something other than the capacity (%s): entries a sequential LRU map keeps are thrown out" % (lim or "no size test"), pt=pt)
        ih = ctx.calls(R, f, LRU + r"insert_helper$")
        ctx.order_chain(R, f, [("insert_helper", ih), ("eviction", ev)])
    # a use makes the entry the most recently used: every normal path of the two operations that touch an existing entry
    # (insert of a present key, lookup hit) and of the insertion of a new one puts the node at the head of the recency list
    for name in ("insert_helper", "lookup"):
        f = ctx.fn(R, LRU + name)
        if not f:
            continue
        front = P.call_points(f, LRU + r"move_lru_to_front$") + P.field_writes(f, r"lru::State$", "head")
        ctx.floor(R, "%s: sites that put a node at the head" % name, len(front), 1)
        q = P.must_pass(f, front)
        ctx.check(R, f, "use-refreshes-recency", q is None, "every path of %s that touches an entry makes it the most recently used" % name,
                  "%s can touch an entry without moving it to the head of the recency list: the entry just written or read stays "
                  "the eviction candidate (an overwrite that grows the cache past its capacity then evicts the entry it has just written)" % name,
                  pt=q[-1][1] if q and isinstance(q[-1], tuple) else None, path=q)
    f = ctx.fn(R, LRU + "insert_no_evict")
    if f:
        reach = ctx.prog.reach([f.key], crates={"sync42"})
        ctx.check(R, f, "no-evict", not any(k.endswith("::remove_lru") for k in reach), "insert_no_evict does not reach remove_lru", "insert_no_evict can evict")
    # raw pointer dereferences only with the state guard held or received
    n = 0
    for g in ctx.prog.fns.values():
        if not g.skey.startswith("sync42::lru::LeastRecentlyUsedCache::"):
            continue
        derefs = []
        for b in g.blocks:
            for i, st in enumerate(b.st):
                if st["s"] != "=":
                    continue
                for pl in [st["lhs"]] + ([st["rv"]["pl"]] if "pl" in st["rv"] else []):
                    if "*" in pl["p"] and g.locals[pl["l"]].startswith("*mut sync42::lru::Node"):
                        derefs.append((b.idx, i))
        if not derefs:
            continue
        h = P.held(ctx.prog, g)
        for pt in derefs:
            n += 1
            ctx.check(R, g, "deref-under-lock", "LeastRecentlyUsedCache.state" in h.locks_at(pt, must=False),
                      "a Node pointer is dereferenced with the cache lock held/received", "a Node pointer is dereferenced without the cache lock", pt=pt)
    ctx.floor(R, "raw Node dereferences", n, 8)


def c184(ctx):
    R = "C18.4"
    ctx.declare(R, "sync42 lock order")
    from blue import locks as L
    lf = L.LockFacts(ctx.prog, ("sync42",))
    edges = lf.order_edges()
    cyc = L.find_cycles(edges)
    from .C20 import gated_pair_ok
    for c in cyc:
        if set(c) == {"WorkCoalescingQueue.state", "WorkCoalescingQueue.core"} and gated_pair_ok(ctx, R):
            ctx.exception(R, Q + "do_work", "cycle state<->core", "core is taken under state only while doing_work == false and state under core only while doing_work == true")
            ctx.ok(R, Q + "do_work", "state<->core inversion is gated by the doing_work flag")
        else:
            w = edges.get((c[0], c[1 % len(c)]), [("?", "?", "?")])[0]
            ctx.violate(R, w[0], "cycle " + "->".join(c), "lock-order cycle %s (first edge at %s via %s)" % (" -> ".join(c + [c[0]]), w[1], w[2]))
    ctx.ok(R, "sync42", "lock-order graph: %d edges, %d cycles examined" % (len(edges), len(cyc)))


# ------------------------------------------------------------------------------------------------
# C18.5 wait discipline (lost wake-ups)

CV_WAIT = r"std::sync::(poison::)?(condvar::)?Condvar::wait(_while|_timeout|_timeout_while)?$"


def _on_cycle(f, pt):
    return P.reach(f, P.after(f, pt), [pt]) is not None


def wait_kind(ctx, g, depth=3, seen=None):
    """None if g never blocks on a condition variable; 'plain' if it returns after any single wake-up (no Condvar::wait
    of g or of what it calls inside sync42 sits on a loop); ('filtered', [(fn, point)]) if some wait is re-entered until
    a private predicate changes."""
    seen = seen or set()
    if g.key in seen or depth < 0:
        return None
    seen = seen | {g.key}
    kind = None
    filt = []
    for b, t in g.calls():
        ck = callee_skey(t) or ""
        pt = P.term_pt(g, b.idx)
        if re.search(CV_WAIT, ck):
            if "_while" in ck or _on_cycle(g, pt):
                filt.append((g, pt))
            kind = kind or "plain"
            continue
        for k in ctx.prog.targets(t):
            h = ctx.prog.fns.get(k)
            if h is None or h.crate != "sync42":
                continue
            r = wait_kind(ctx, h, depth - 1, seen)
            if r is None:
                continue
            if r != "plain":
                # the callee itself filters; (a plain callee called in a loop of g is g's own predicate loop, judged at g's callers)
                filt += r[1]
            elif _on_cycle(g, pt) and g.skey.startswith(WL):
                filt.append((g, pt))
            kind = kind or "plain"
    if filt:
        return ("filtered", filt)
    return kind


def predicate_fields(g, pt):
    """Fields read between a wake-up and the decision to wait again (the loop around a Condvar::wait at pt)."""
    out = set()
    for b in g.blocks:
        if P.reach(g, P.after(g, pt), [(b.idx, 0)]) is None or P.reach(g, [(b.idx, 0)], [pt]) is None:
            continue
        t = b.term
        if t["t"] == "call":
            for a in t["args"]:
                for s_ in P.origins(g, a):
                    if s_["k"] == "field":
                        out.add((s_["owner"], s_["f"]))
    return out


def c185(ctx):
    R = "C18.5"
    ctx.declare(R, "no lost wake-up by construction: a wait that filters wake-ups by a private predicate is only used where every "
                   "writer of that predicate holds the mutex the waiter sleeps with; any other wait returns on every notification and "
                   "sits in a loop that re-reads the shared state")
    # classification sanity (positive examples evaluated on every run)
    nw = ctx.fn(R, WL + "Waiter::naked_wait")
    ws = ctx.fn(R, WL + "Waiter::wait_for_store")
    if nw:
        ctx.check(R, nw, "classify", wait_kind(ctx, nw) == "plain", "Waiter::naked_wait returns after any single notification", "Waiter::naked_wait no longer returns after one wake-up")
    pred = set()
    if ws:
        k = wait_kind(ctx, ws)
        ctx.check(R, ws, "classify", isinstance(k, tuple), "Waiter::wait_for_store re-waits until its private predicate changes",
                  "Waiter::wait_for_store is no longer recognised as a filtering wait")
        if isinstance(k, tuple):
            for (g, pt) in k[1]:
                pred |= {x for x in predicate_fields(g, pt) if x[0].endswith("Waiter")}
        ctx.check(R, ws, "predicate", ("sync42::wait_list::Waiter", "seq_no") in pred, "its predicate is Waiter.seq_no", "predicate of wait_for_store not identified: %s" % sorted(pred))
    # writers of the predicate inside the wait list, lifted to the public API
    writers = set()
    for g in ctx.prog.fns.values():
        if g.crate != "sync42" or not g.skey.startswith(WL):
            continue
        for b, t in g.calls():
            ck = callee_skey(t) or ""
            if re.search(r"Atomic\w*::(store|fetch_\w+|swap|compare_exchange\w*)$", ck) and t["args"]:
                if any((s_["k"] == "field" and (s_["owner"], s_["f"]) in pred) for s_ in P.origins(g, t["args"][0])):
                    writers.add(g.skey)
    changed = True
    while changed:
        changed = False
        for g in ctx.prog.fns.values():
            if g.crate == "sync42" and g.skey.startswith(WL) and g.skey not in writers:
                if any((callee_skey(t) or "") in writers for _b, t in g.calls()):
                    writers.add(g.skey)
                    changed = True
    ctx.check(R, "sync42::wait_list", "predicate-writers", WL + "WaitGuard::store" in writers, "seq_no is advanced by WaitGuard::store (%d functions)" % len(writers),
              "writers of the wait_for_store predicate not found")
    # users
    n_wait = 0
    users = [f for f in ctx.prog.fns.values() if f.crate in ("sync42", "lsmtk", "sst") and not f.skey.startswith(WL)]
    for f in sorted(users, key=lambda f: f.key):
        h = None
        for b, t in f.calls():
            ck = callee_skey(t) or ""
            if not ck.startswith(WL + "WaitGuard::"):
                continue
            tg = ctx.prog.fns.get(t.get("callee") or "") or next((x for x in ctx.prog.fns.values() if x.skey == ck), None)
            if tg is None:
                continue
            k = wait_kind(ctx, tg)
            if k is None:
                continue
            n_wait += 1
            pt = P.term_pt(f, b.idx)
            h = h or P.held(ctx.prog, f)
            if k == "plain":
                ctx.check(R, f, "wait-in-loop", _on_cycle(f, pt), "%s is re-entered in a loop that re-reads the shared state after every wake-up" % P.short(ck),
                          "%s is called outside a loop: a wake-up for another reason is taken for the awaited event" % P.short(ck), pt=pt)
                continue
            # filtering wait: the lock of the guard it sleeps with must be held by every writer of its predicate in this function
            gl = set()
            for a in t["args"][1:]:
                if a.get("k") in ("copy", "move") and P.is_guard_ty(f.locals[a["pl"]["l"]]):
                    for s_ in P.origins(f, a):
                        if s_["k"] == "call" and re.search(r"(Mutex|RwLock).*::(lock|read|write)$", s_["callee"]):
                            for fs in P.origins(f, s_["t"]["args"][0]):
                                if fs["k"] == "field" and re.search(r"(Mutex|RwLock)<", fs.get("ty") or ""):
                                    gl.add("%s.%s" % (P.short_ty(fs["owner"]), fs["f"]))
            stores = [P.term_pt(f, b2.idx) for b2, t2 in f.calls() if (callee_skey(t2) or "") in writers]
            bad = [q for q in stores if not (gl and gl <= h.locks_at(q, must=True))]
            ctx.check(R, f, "filtered-wait", not bad and bool(gl),
                      "%s: every store that advances its predicate in this function holds %s" % (P.short(ck), sorted(gl)),
                      "%s sleeps with %s until the slot's sequence number changes, but %d store(s) in this function advance it without holding that mutex "
                      "(first at %s): a store can land between the caller's last look at the slot and the snapshot, and the later notify_head wake-ups are "
                      "filtered out -- the caller sleeps forever" % (P.short(ck), sorted(gl) or "an unidentified mutex", len(bad), P.pt_loc(f, bad[0]) if bad else "-"), pt=pt)
    ctx.floor(R, "blocking WaitGuard calls in users", n_wait, 4)
