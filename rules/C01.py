"""C01 — point reads return the latest write: lookup precedence, stamping, sequence-number floor, publish order."""
import re

from blue import prim as P
from blue.facts import callee_skey, strip_generics
from . import common as K
from . import C02, C06

EXPLANATION = (
    "C01 structural clauses: (C01.1) KeyValueStore::load consults mem, then imm (skipped only when there is none), then the "
    "tree, returning at the first hit or tombstone; Version::load consults every L0 file (newest first: sorted by "
    "biggest_timestamp, reversed) before any deeper level and never returns to L0, with the same early exit after every "
    "file; (C01.2) a batch is stamped with the freshly incremented sequence number before it is logged or inserted "
    "(C06.1 rules); (C01.3) a version naming a new SST is installed only after link and manifest edit (C02.4 rules); "
    "(C01.4) imm is cleared only after the version containing its SST is installed (C06.4 rules); (C01.5) on open the "
    "sequence counter starts above both the recovered logs' and the tree's largest timestamp; (C01.8) recovery's level "
    "propagation re-queues every component whose level it raises.  ORDER/GUARDED/ORIGIN/HELD/MUSTPASS.")
NOT_DECIDED = ("the compaction input closure (compute_bounds/expand_compaction fixed point), level assignment on recovery beyond the re-queue rule, bloom "
               "filter and block search arithmetic: they need the tree shapes and histories the property quantifies over")
ASSUMPTIONS = ["MemTable::load / Sst::load return the newest version <= timestamp of the key in that component (C10, C17)"]

KVS = "lsmtk::kvs::KeyValueStore::"


def rules(ctx):
    c011_store(ctx)
    c011_version(ctx)
    C06.c061(ctx)
    C02.c024(ctx)
    C06.c064(ctx)
    c015(ctx)
    c016(ctx)
    c017(ctx)
    c017_closed(ctx)
    c019(ctx)
    c0110(ctx)
    c0111(ctx)
    c018(ctx)
    # a key (or tombstone) missing from an SST's bloom filter makes Sst::load miss it and the search fall through to
    # an older version: the builder-side accumulation rule of C10.2 is a necessary condition of point reads too
    from . import C10
    C10.c102(ctx)
    # a garbage collection that judges a key by another key's tombstones drops the entry that decides its current value:
    # the collector's per-key state rule (C05.5) and its confinement to the last level (C05.1) are necessary here too
    from . import C05
    C05.c051(ctx)
    C05.c055(ctx)
    C05.c059(ctx)   # outputs are cut only between keys: a straddled key can be carried beneath its own older versions
    # what a read sees is governed by the snapshot it captures and the visibility watermark (a watermark that is not advanced,
    # or a snapshot taken outside the lock, returns an older value even without concurrency beyond the flush thread)
    C06.c063(ctx)
    C06.c065(ctx)
    C06.c066(ctx)
    # close/reopen cycles: the log is replayed (or provably empty) before it is retired, the manifest replays an edit in
    # remove-then-add order, and the orphan scan never selects a listed file -- otherwise reopen loses a write or fails
    from . import C13, C08
    C02.c025(ctx)
    C13.c135(ctx)
    C08.c084(ctx)
    C08.c086(ctx)   # an ingest installs on top of the current version, not a snapshot from before its stall wait


def c018(ctx):
    R = "C01.8"
    ctx.declare(R, "recovery's level propagation is a worklist relaxation: a component whose level is raised is queued again, so the raise reaches its successors")
    f = ctx.fn(R, "lsmtk::tree::recover::recover")
    if not f:
        return
    pops = ctx.calls(R, f, r"alloc::vec::Vec::pop$")
    if len(pops) != 1:
        ctx.check(R, f, "one-worklist", False, "", "expected exactly one worklist pop in recover, found %d" % len(pops))
        return
    pop = pops[0]
    wl = K.ref_base(f, P.term_at(f, pop)["args"][0])
    pushes = [p for p in P.call_points(f, r"alloc::vec::Vec::push$") if wl is not None and K.ref_base(f, P.term_at(f, p)["args"][0]) == wl]
    ctx.check(R, f, "worklist", wl is not None and len(pushes) >= 2, "the worklist is one local vector, seeded before the loop and pushed to inside it",
              "cannot identify the worklist pushes in recover")
    writes = [w for w in P.field_writes(f, r"recover::Vertex$", "level")
              if P.reach(f, P.after(f, pop), [w]) is not None and P.reach(f, P.after(f, w), [pop]) is not None]
    ctx.floor(R, "Vertex.level writes inside the relaxation loop", len(writes), 1)
    for n, w in enumerate(writes):
        st = f.blocks[w[0]].st[w[1]]
        idx = None
        for s in P.origins(f, {"k": "copy", "pl": {"l": st["lhs"]["l"], "p": []}}, through_calls=False):
            if s["k"] == "call" and s["callee"].endswith("IndexMut>::index_mut"):
                idx = K.root_local(f, s["t"]["args"][1])
        same = [p for p in pushes if idx is not None and K.root_local(f, P.term_at(f, p)["args"][1]) == idx]
        byp = P.reach(f, P.after(f, w), [pop], avoid=set(same)) if same else True
        ctx.check(R, f, "requeue-on-raise", same and byp is None,
                  "the component whose level is written is pushed back onto the worklist before the next pop",
                  "a component's level is raised without queueing it again: its successors keep a level that is not below it, so an older file can be searched before a newer one",
                  pt=w, path=byp if isinstance(byp, list) else None)


def c016(ctx):
    R = "C01.6"
    ctx.declare(R, "two compactions conflict exactly when their level ranges and their key ranges both intersect (closed intervals): the "
                   "predicate is read from MIR as a conjunction of four <= comparisons")
    f = ctx.fn(R, "lsmtk::tree::CompactionCore::overlapping")
    if not f:
        return
    atoms, why = K.conjunction_of_comparisons(f)
    if atoms is None:
        ctx.violate(R, f, "conflict-predicate", "CompactionCore::overlapping cannot be read as a conjunction of comparisons: %s" % why)
        return
    norm = set()
    for (op, a, b) in atoms:
        if op in ("Ge", "Gt"):
            op, a, b = {"Ge": "Le", "Gt": "Lt"}[op], b, a
        norm.add((op, a, b))
    want = {("Le", (1, ("lower_level",)), (2, ("upper_level",))), ("Le", (2, ("lower_level",)), (1, ("upper_level",))),
            ("Le", (1, ("first_key",)), (2, ("last_key",))), ("Le", (2, ("first_key",)), (1, ("last_key",)))}
    missing = sorted(want - norm)
    extra = sorted(norm - want)
    ctx.check(R, f, "conflict-predicate", not missing and not extra,
              "overlapping(a, b) = a.lower <= b.upper && b.lower <= a.upper && a.first <= b.last && b.first <= a.last",
              "the conflict predicate is not closed-interval intersection in both dimensions (missing %s, instead %s): two compactions that share a "
              "boundary level or key can run concurrently over the same files" % (missing, extra))
    users = K.callers_of(ctx, r"lsmtk::tree::CompactionCore::overlapping$", crates=("lsmtk",))
    ctx.check(R, "lsmtk", "conflict-predicate-used", any(k.endswith("may_choose_compaction") for k in users), "may_choose_compaction consults it for every ongoing compaction",
              "may_choose_compaction no longer consults the conflict predicate")
    g = ctx.fn(R, "lsmtk::tree::Version::may_choose_compaction") if False else next((x for x in ctx.prog.fns.values() if x.skey.endswith("::may_choose_compaction")), None)
    if g:
        ov = P.call_points(g, r"CompactionCore::overlapping$")
        heads = [h for h in P.call_points(g, r"Iterator>::next$") if P.reach(g, P.after(g, h), [h])]
        for h in heads:
            if any(P.reach(g, P.after(g, h), [o], avoid=[h]) is not None for o in ov):
                q = P.reach(g, P.after(g, h), [h], avoid=set(ov))
                ctx.check(R, g, "every-ongoing-checked", q is None, "every ongoing compaction is tested against the candidate", "an ongoing compaction can be skipped by the conflict test", pt=h, path=q)
        for o in ov:
            tr = [1 for bb, lab, srcs in K.guards(g, o) if False]
        oks = [(b.idx, i) for b in g.blocks for i, st in enumerate(b.st) if st["s"] == "=" and st["lhs"]["l"] == 0 and st["rv"]["r"] == "use" and st["rv"]["a"].get("k") == "const" and st["rv"]["a"]["c"].get("v") in (1, True)]
        for pt in oks:
            # `true` is returned only after the loop ran to exhaustion: not reachable from the conflict (true) edge of overlapping
            bad = False
            for b in P.switch_blocks(g):
                if any(c.endswith("CompactionCore::overlapping") for c in K.cond_calls(g, b.idx)):
                    tgt = dict(b.succs).get("sw:1")
                    if tgt is not None and P.reach(g, [(tgt, 0)], [pt]) is not None:
                        bad = True
            ctx.check(R, g, "conflict-refuses", not bad, "a conflict with an ongoing compaction refuses the candidate", "a conflicting candidate can still be chosen", pt=pt)


def c017(ctx):
    R = "C01.7"
    ctx.declare(R, "a compaction's input set stays closed when it is expanded: a file is added only if its whole key range lies inside the range "
                   "already covered (or the bounds are recomputed afterwards); a file that sticks out would be rewritten beneath older, "
                   "non-input files of the levels in between")
    f = next((x for x in ctx.prog.fns.values() if x.skey.endswith("tree::Version::expand_compaction")), None)
    if f is None:
        ctx.violate(R, "lsmtk::tree::Version::expand_compaction", "anchor", "expand_compaction not found", kind="anchor-missing")
        return
    pushes = [p_ for p_ in P.call_points(f, r"Vec.*::push$") if "SstMetadata" in (P.term_at(f, p_).get("ga") or "")]
    ctx.floor(R, "expand_compaction candidate pushes", len(pushes), 1)
    recompute = P.call_points(f, r"tree::Version::compute_bounds$")
    for p_ in pushes:
        lo = hi = False
        for bb, lab, srcs in K.guards(f, p_):
            if lab != "sw:1":
                continue
            for s_ in srcs:
                if s_["k"] == "call" and re.search(r"::(le|ge)$", s_["callee"]) and len(s_["t"]["args"]) == 2:
                    a, b = s_["t"]["args"]
                    fa = {x["f"] for x in P.origins(f, a) if x["k"] == "field"}
                    fb = {x["f"] for x in P.origins(f, b) if x["k"] == "field"}
                    swap = s_["callee"].endswith("::ge")
                    if swap:
                        fa, fb = fb, fa
                    # range.first <= file.first  : the left side is the running range bound (no SstMetadata field), the right the file's first key
                    if "first_key" in fb and "last_key" not in fb and "first_key" not in (fa - {"first_key"}) and (not fa or fa == {"first_key"}):
                        la = {x["owner"] for x in P.origins(f, a) if x["k"] == "field" and x["f"] == "first_key"}
                        lb = {x["owner"] for x in P.origins(f, b) if x["k"] == "field" and x["f"] == "first_key"}
                        if any("SstMetadata" in o for o in (lb if not swap else la)):
                            lo = True
                    if "last_key" in fa and (not fb or fb == {"last_key"}):
                        la = {x["owner"] for x in P.origins(f, a) if x["k"] == "field" and x["f"] == "last_key"}
                        lb = {x["owner"] for x in P.origins(f, b) if x["k"] == "field" and x["f"] == "last_key"}
                        if any("SstMetadata" in o for o in (la if not swap else lb)):
                            hi = True
        redo = any(P.reach(f, P.after(f, p_), [r_]) is not None for r_ in recompute)
        ctx.check(R, f, "expansion-contained", (lo and hi) or redo,
                  "a file joins the compaction only when range.first <= file.first and file.last <= range.last" if (lo and hi) else "the bounds are recomputed after a file is added",
                  "expand_compaction adds a file without checking that its key range lies inside the compaction's range (first: %s, last: %s) and without "
                  "recomputing the bounds: a file that overlaps the range and sticks out is compacted past older files of the levels in between -- a point "
                  "read then finds the older version first" % (lo, hi), pt=p_)


def c017_closed(ctx):
    R = "C01.7"
    # the bounds are computed level by level on the way down, so the range can still grow after a level in between has been looked at;
    # expansion only adds files that lie wholly inside the final range.  A file of a level in between that merely overlaps it stays where
    # it is -- above the newer versions the compaction carries down.  A candidate is therefore offered only behind a closure test: a
    # predicate that walks the levels strictly between lower and upper and answers false for an overlapping file that is not an input.
    f = ctx.fn(R, "lsmtk::tree::Version::find_best_compaction")
    if not f:
        return
    cand = []
    for b in f.blocks:
        for i, st in enumerate(b.st):
            if st["s"] == "=" and st["rv"]["r"] == "agg" and st["rv"].get("variant") == "Some" and "Compaction" in f.locals[st["lhs"]["l"]] and not st["lhs"]["p"]:
                if any(x["k"] == "agg" and (x.get("adt") or "").endswith("tree::Compaction") for x in P.origins(f, st["rv"]["ops"][0])):
                    cand.append((b.idx, i))
    ctx.floor(R, "find_best_compaction: candidates offered", len(cand), 1)

    def is_closure_test(g):
        if g.locals[0] != "bool":
            return False
        contains = any(re.search(r"::contains$", callee_skey(t) or "") and "inputs" in {x["f"] for a in t["args"][:1] for x in P.origins(g, a) if x["k"] == "field"}
                       for _b, t in g.calls())
        cmps = 0
        for _b, t in g.calls():
            if re.search(r"::(le|ge|lt|gt)$", callee_skey(t) or "") and len(t["args"]) == 2:
                fs = [{x["f"] for x in P.origins(g, a) if x["k"] == "field"} for a in t["args"]]
                owners = [{x["owner"].rsplit("::", 1)[-1] for x in P.origins(g, a) if x["k"] == "field" and x["f"] in ("first_key", "last_key")} for a in t["args"]]
                if all(fs_ & {"first_key", "last_key"} for fs_ in fs) and {"SstMetadata"} <= (owners[0] | owners[1]) and {"CompactionCore"} <= (owners[0] | owners[1]):
                    cmps += 1
        levels = any(x["k"] == "field" and x["f"] == "levels" for _b, t in g.calls() for a in t["args"] for x in P.origins(g, a))
        false_exit = any(st["s"] == "=" and st["lhs"]["l"] == 0 and st["rv"]["r"] == "use" and st["rv"]["a"].get("k") == "const" and st["rv"]["a"]["c"].get("v") == 0
                         for b in g.blocks for st in b.st)
        return contains and cmps >= 2 and levels and false_exit
    def inline_closure_test(bb, srcs):
        """The same test written in place: the guard reads a bool local that is set to false at a point which is itself guarded by the
        not-an-input edge of inputs.contains(..) and by two key comparisons between a file and the candidate's range."""
        if not srcs or not all(s_["k"] == "const" for s_ in srcs) or {s_.get("v") for s_ in srcs} != {0, 1}:
            return False
        d = f.blocks[bb].term.get("discr") or {}
        loc = (d.get("pl") or {}).get("l")
        if loc is None or f.locals[loc] != "bool":
            return False
        locs, grew = {loc}, True
        while grew:     # the switch reads a temporary copy of the flag
            grew = False
            for b in f.blocks:
                for st in b.st:
                    if st["s"] == "=" and st["lhs"]["l"] in locs and not st["lhs"]["p"] and st["rv"]["r"] == "use" and st["rv"]["a"].get("k") in ("copy", "move"):
                        src = st["rv"]["a"]["pl"]
                        if not src["p"] and src["l"] not in locs and f.locals[src["l"]] == "bool":
                            locs.add(src["l"])
                            grew = True
        for b in f.blocks:
            for i, st in enumerate(b.st):
                if not (st["s"] == "=" and st["lhs"]["l"] in locs and not st["lhs"]["p"] and st["rv"]["r"] == "use"
                        and st["rv"]["a"].get("k") == "const" and st["rv"]["a"]["c"].get("v") == 0):
                    continue
                gs = K.guards(f, (b.idx, i))
                contains = any(x["k"] == "call" and re.search(r"::contains$", x["callee"]) and
                               "inputs" in {y["f"] for a in x["t"]["args"][:1] for y in P.origins(f, a) if y["k"] == "field"}
                               for _bb, _lab, ss in gs for x in ss)
                cmps = 0
                for _bb, _lab, ss in gs:
                    for x in ss:
                        if x["k"] == "call" and re.search(r"::(le|ge|lt|gt)$", x["callee"]) and len(x["t"]["args"]) == 2:
                            fs = [{y["f"] for y in P.origins(f, a) if y["k"] == "field"} for a in x["t"]["args"]]
                            if all(fs_ & {"first_key", "last_key"} for fs_ in fs):
                                cmps += 1
                if contains and cmps >= 2:
                    return True
        return False
    for p_ in cand:
        ok = False
        for bb, lab, srcs in K.guards(f, p_):
            if lab == "sw:0":
                continue
            if inline_closure_test(bb, srcs):
                ok = True
            for s_ in srcs:
                if s_["k"] == "call":
                    for k_ in ctx.prog.targets(s_["t"]):
                        g = ctx.prog.fns.get(k_)
                        if g is not None and g.crate == "lsmtk" and is_closure_test(g):
                            ok = True
        ctx.check(R, f, "intermediate-levels-covered", ok,
                  "a candidate is offered only if every file of the levels in between that overlaps its key range is one of its inputs",
                  "find_best_compaction offers a compaction without checking the levels strictly between lower and upper for files that overlap its "
                  "final key range and are not inputs (the bounds are computed top-down in one pass and expansion adds only contained files): such a "
                  "file holds older versions than the data the compaction carries past it, and a point read then returns k-OLD", pt=p_)


def c019(ctx):
    R = "C01.9"
    ctx.declare(R, "recovery derives levels from metadata alone; two key-overlapping files whose timestamp ranges interleave cannot be ordered that way "
                   "(construct_adj_list links them in both directions, so they form one component) and must not be flattened into one level, "
                   "because every level is read first-hit-wins")
    adj = ctx.fn(R, "lsmtk::tree::recover::construct_adj_list")
    rec = ctx.fn(R, "lsmtk::tree::recover::recover")
    if not adj or not rec:
        return
    # the both-directions arm exists: some block inserts (i, j) and a successor inserts (j, i) with no timestamp comparison between
    ins = P.call_points(adj, r"BTreeSet.*::insert$")
    ctx.floor(R, "edge insertions in construct_adj_list", len(ins), 4)
    both = [p_ for p_ in ins if any(q_ != p_ and P.reach(adj, P.after(adj, p_), [q_], avoid=set(pt for b in P.switch_blocks(adj) for pt in [P.term_pt(adj, b.idx)])) is not None
                                     for q_ in ins)]
    if not both:
        ctx.ok(R, adj, "no pair of files is linked in both directions: every overlapping pair is ordered")
        return
    # where files are handed to their level: is the component's size (Vertex.peers) ever consulted on the way?
    pushes = [p_ for p_ in P.call_points(rec, r"alloc::vec::Vec.*::push$") if "SstMetadata" in str(P.term_at(rec, p_).get("ga"))]
    ctx.floor(R, "recover: files handed to a level", len(pushes), 1)
    for p_ in pushes:
        sized = False
        for bb, lab, srcs in K.guards(rec, p_):
            for s_ in srcs:
                if s_["k"] == "field" and s_["f"] in ("peers", "bytes_within_color"):
                    sized = True
                if s_["k"] == "bin":
                    for o_ in (s_["st"]["rv"]["a"], s_["st"]["rv"]["b"]):
                        if any(x["k"] == "field" and x["f"] == "peers" for x in P.origins(rec, o_)):
                            sized = True
        ctx.check(R, rec, "unordered-files-share-a-level", sized,
                  "a component of mutually unordered files is treated specially before its files are handed to a level",
                  "recover hands every file of a strongly connected component to the same level without looking at the component's size: a compaction "
                  "output whose timestamp range straddles that of a newer, key-overlapping file lands in that file's level after a clean reopen, sorts "
                  "before it by first key, and a point read stops at its older version (l-OLD instead of l-NEW)", pt=p_)


def c0110(ctx):
    R = "C01.10"
    ctx.declare(R, "a file that enters the tree (a flushed memtable, an ingested SST) holds the newest data and enters at level 0, the level that is "
                   "consulted first; placing it deeper is safe only above no overlapping file, which is not what a bottom-up search for a hole finds")
    f = ctx.fn(R, "lsmtk::tree::Version::ingest")
    if not f:
        return
    stores = [p_ for p_ in P.call_points(f, r"alloc::vec::Vec.*::(push|insert)$") if "SstMetadata" in str(P.term_at(f, p_).get("ga"))]
    ctx.floor(R, "Version::ingest: places where the new file joins a level", len(stores), 1)
    for p_ in stores:
        t = P.term_at(f, p_)
        idx = None
        for s_ in P.origins(f, t["args"][0]):
            if s_["k"] == "call" and re.search(r"IndexMut.*::index_mut$|index::index_mut$|::get_mut$", s_["callee"]) and len(s_["t"]["args"]) == 2:
                o = s_["t"]["args"][1]
                vs = {x.get("v") for x in P.origins(f, o) if x["k"] == "const"} if o.get("k") != "const" else {o["c"].get("v")}
                idx = 0 if vs == {0} and all(x["k"] == "const" for x in P.origins(f, o)) else "computed"
            elif s_["k"] == "call" and re.search(r"slice::first_mut$|::first_mut$", s_["callee"]):
                idx = 0
        ctx.check(R, f, "enters-at-level-0", idx == 0, "the new file is pushed onto levels[0]",
                  "Version::ingest puts the new file into levels[%s]: a file that holds the newest versions can land beneath an older overlapping file, "
                  "and a point read stops at the older version (not shown safe; accepted forms: levels[0], levels.first_mut(), levels.get_mut(0))" % idx, pt=p_)


def closure_of_call(ctx, f, t):
    """The closure body passed (as a generic argument) to the call whose terminator is t."""
    mm = re.search(r"Closure\(DefId\([^)]*::(\{closure#\d+\})\)", str(t.get("ga")))
    if not mm:
        return None
    g = ctx.prog.fns.get(f.key + "::" + mm.group(1))
    if g is None:
        # the call sits in a helper that was looked through: the closure is one of that helper's (name the enclosing item from the DefId)
        m2 = re.search(r"Closure\(DefId\([^~]*~ [^:]+(?:\[[0-9a-f]+\])?::(.*?::\{closure#\d+\})\)", str(t.get("ga")))
        tail = m2.group(1).rsplit("::", 2)[-2:] if m2 else None       # [enclosing fn name, {closure#n}]
        for c in ctx.prog.closures_of(f):
            if tail and c.key.endswith("::".join(tail)) or (not tail and c.key.endswith(mm.group(1))):
                g = c
                break
    return g


def reads_timestamp(g):
    for b in g.blocks:
        for st in b.st:
            if st["s"] != "=":
                continue
            for pl in ((st["rv"].get("pl") or {}), ((st["rv"].get("a") or {}).get("pl") or {})):
                if any(isinstance(e, dict) and "timestamp" in e.get("f", "") for e in pl.get("p", [])):
                    return True
    return False


def ordering_direction(g, by_key):
    """'asc' / 'desc' / None for a sort or min/max closure: a key function is ascending unless it wraps its key in cmp::Reverse; a comparator
    is ascending when it compares (first parameter) with (second parameter) in that order."""
    if by_key:
        rev = any(st["s"] == "=" and st["rv"]["r"] == "agg" and (st["rv"].get("adt") or "").endswith("cmp::Reverse") for b in g.blocks for st in b.st)
        return "desc" if rev else "asc"
    order = None
    for _b, c in g.calls():
        if re.search(r"::cmp$|::partial_cmp$", c.get("callee") or "") and len(c["args"]) == 2:
            ia = sorted({x["i"] for x in P.origins(g, c["args"][0]) if x["k"] == "param"})
            ib = sorted({x["i"] for x in P.origins(g, c["args"][1]) if x["k"] == "param"})
            if ia and ib and ia != ib:
                order = "asc" if ia[-1] < ib[0] else "desc"
    if any(re.search(r"Ordering::reverse$", c.get("callee") or "") for _b, c in g.calls()):
        order = {"asc": "desc", "desc": "asc"}.get(order)
    return order


def c0111(ctx):
    R = "C01.11"
    ctx.declare(R, "level 0 is ordered by age, not by key: a file may leave it on its own (trivial move) only if it is the oldest file there -- "
                   "a younger file moved beneath an older overlapping one is shadowed by it")
    f = ctx.fn(R, "lsmtk::tree::Version::find_trivial_move")
    if not f:
        return
    sites = []
    for p_ in P.call_points(f, r"lsmtk::tree::Version::find_trivial_move_for_one_sst$"):
        zero = [g for g in K.compare_guards(f, p_) if g["op"] == "Eq" and g["holds"] and ("#0" in K.src_names(f, g["a"]) or "#0" in K.src_names(f, g["b"]))
                and any(x["k"] == "param" for o in (g["a"], g["b"]) for x in P.origins(f, o))]
        if zero:
            sites.append(p_)
    ctx.floor(R, "find_trivial_move: files offered for a move out of level 0", len(sites), 1)
    for p_ in sites:
        t = P.term_at(f, p_)
        srcs = P.origins(f, t["args"][-1])
        mins = [x for x in srcs if x["k"] == "call" and re.search(r"Iterator::min_by(_key)?$", x["callee"])]
        loops = [x for x in srcs if x["k"] == "call" and re.search(r"Iterator>?::next$", x["callee"])]
        idxs = [x for x in srcs if x["k"] == "call" and re.search(r"::index$|::get$|::first$|::last$", x["callee"]) and not any(y["k"] == "field" and y["f"] == "levels" for y in P.origins(f, x["t"]["args"][0]))]
        ok = bool(mins) and not loops and not idxs
        asc = None
        # the same file named another way: element 0 of a vector of the level's files sorted ascending by a timestamp
        if not mins and not loops and len(idxs) == 1 and re.search(r"::index$", idxs[0]["callee"]):
            it = idxs[0]["t"]
            zero = all(x["k"] == "const" and x.get("v") == 0 for x in P.origins(f, it["args"][1])) and P.origins(f, it["args"][1])
            vec = {x["pt"] for x in P.origins(f, it["args"][0]) if x["k"] == "call"}
            for q_ in P.call_points(f, r"slice::<impl \[T\]>::sort(_unstable)?_by_key$|::sort(_unstable)?_by_key$"):
                c = P.term_at(f, q_)
                if zero and vec & {x["pt"] for x in P.origins(f, c["args"][0]) if x["k"] == "call"} and not P.order(f, [q_], [idxs[0]["pt"]]):
                    mm = re.search(r"Closure\(DefId\([^)]*::(\{closure#\d+\})\)", str(c.get("ga")))
                    g = ctx.prog.fns.get(f.key + "::" + mm.group(1)) if mm else None
                    if g is not None and any(isinstance(e, dict) and "timestamp" in e.get("f", "") for b in g.blocks for st in b.st if st["s"] == "="
                                             for e in ((st["rv"].get("pl") or {}).get("p", []) + ((st["rv"].get("a") or {}).get("pl") or {}).get("p", []))):
                        ok, asc = True, True
        for m in mins:
            mm = re.search(r"Closure\(DefId\([^)]*::(\{closure#\d+\})\)", str(m["t"].get("ga")))
            g = ctx.prog.fns.get(f.key + "::" + mm.group(1)) if mm else None
            if g is None:
                continue
            ts = any(isinstance(e, dict) and "timestamp" in e.get("f", "") for b in g.blocks for st in b.st if st["s"] == "=" for e in (st["rv"].get("pl") or {}).get("p", []))
            order = None
            for _b, c in g.calls():
                if re.search(r"::cmp$|::partial_cmp$", c.get("callee") or "") and len(c["args"]) == 2:
                    ia = sorted({x["i"] for x in P.origins(g, c["args"][0]) if x["k"] == "param"})
                    ib = sorted({x["i"] for x in P.origins(g, c["args"][1]) if x["k"] == "param"})
                    if ia and ib:
                        order = ia[-1] < ib[0]
            if re.search(r"min_by_key$", m["callee"]):
                order = True
            asc = ts and order
        ctx.check(R, f, "oldest-leaves-level-0", ok and asc is True, "the file offered is the minimum by timestamp of level 0",
                  "find_trivial_move offers a level-0 file that is not shown to be the oldest one there (accepted form: the min_by / min_by_key over "
                  "a timestamp, ascending): level 0 is searched newest-first and the levels below it after it, so a younger file that moves down "
                  "while an older file with the same key stays is shadowed by the stale version", pt=p_)


def false_edges_of(f, callee_pat, arg_pred=None):
    """(bb, label) edges taken when a bool-returning call matching callee_pat returned false."""
    rx = re.compile(callee_pat)
    out = set()
    for b in P.switch_blocks(f):
        srcs = K.cond_sources(f, b.idx)
        for s in srcs:
            if s["k"] == "call" and rx.search(s["callee"]) and (arg_pred is None or arg_pred(s["t"])):
                negs = sum(1 for x in srcs if x["k"] == "un" and x["op"] == "Not")
                out.add((b.idx, "sw:0" if negs % 2 == 0 else "sw:1"))
    return out


def bool_param_false_edges(f, param_i):
    """Edges taken when `*param` (a &mut bool parameter) is false."""
    out = set()
    for b in P.switch_blocks(f):
        o = b.term["discr"]
        srcs = P.origins(f, o)
        if any(s["k"] == "param" and s["i"] == param_i for s in srcs) and not any(s["k"] in ("call", "bin", "discr") for s in srcs):
            out.add((b.idx, "sw:0"))
    return out


def c011_store(ctx):
    R = "C01.1"
    ctx.declare(R, "newer components are consulted first and a hit or tombstone ends the search")
    f = ctx.fn(R, KVS + "load")
    if not f:
        return
    ml = ctx.calls(R, f, r"lsmtk::kvs::memtable::MemTable::load$", floor=2)
    ml_mem = [p for p in ml if "mem" in K.arg_field_names(f, p, 0) and "imm" not in K.arg_field_names(f, p, 0)]
    ml_imm = [p for p in ml if "imm" in K.arg_field_names(f, p, 0)]
    vl = ctx.calls(R, f, r"lsmtk::tree::VersionRef::load$")
    ctx.check(R, f, "sites", len(ml_mem) == 1 and len(ml_imm) == 1 and len(vl) == 1, "one lookup each in mem, imm and the tree",
              "load no longer has exactly one lookup in mem, imm and the tree (mem=%d imm=%d tree=%d)" % (len(ml_mem), len(ml_imm), len(vl)))
    if not (ml_mem and ml_imm and vl):
        return
    ctx.order_chain(R, f, [("MemTable::load(mem)", ml_mem), ("MemTable::load(imm)", ml_imm)])
    ctx.order_chain(R, f, [("MemTable::load(mem)", ml_mem), ("VersionRef::load", vl)])
    # imm may be skipped only when the captured Option is None
    none_edges = set()
    for b in P.switch_blocks(f):
        srcs = K.cond_sources(f, b.idx)
        if any(s["k"] == "discr" for s in srcs) and any(s["k"] == "field" and s["f"] == "imm" for s in srcs):
            for lab, succ in b.succs:
                if not any(P.reach(f, [(succ, 0)], [t]) for t in ml_imm):
                    none_edges.add((b.idx, lab))
    p = P.reach(f, P.ENTRY, vl, avoid=set(ml_imm), avoid_edges=none_edges)
    ctx.check(R, f, "imm-skip", p is None and bool(none_edges), "the tree is consulted without imm only when imm is None",
              "the tree can be consulted without looking in the immutable memtable", pt=vl[0], path=p)
    # early exits: after each memtable lookup the search continues only when it found neither a value nor a tombstone
    for label, site, nxt in (("mem", ml_mem, ml_imm + vl), ("imm", ml_imm, vl)):
        dest = P.term_at(f, site[0])["dest"]["l"]

        def from_site(t, site=site):
            return any(s["k"] == "call" and s["pt"] in set(site) for s in P.origins(f, t["args"][0]))
        fe = false_edges_of(f, r"core::option::Option::is_some$", arg_pred=from_site)
        p = P.reach(f, P.after(f, site[0]), nxt, avoid_edges=fe)
        ctx.check(R, f, "hit-ends-search:" + label, p is None and bool(fe), "after the %s lookup the search continues only if it returned None" % label,
                  "a value found in %s does not end the search (an older version can be returned)" % label, pt=site[0], path=p)
        te = bool_param_false_edges(f, 3)
        p = P.reach(f, P.after(f, site[0]), nxt, avoid_edges=te)
        ctx.check(R, f, "tombstone-ends-search:" + label, p is None and bool(te), "and only if *is_tombstone is false",
                  "a tombstone found in %s does not end the search (a deleted key can reappear)" % label, pt=site[0], path=p)
    # all three lookups use the captured timestamp and the caller's key
    for pt in ml + vl:
        t = P.term_at(f, pt)
        ctx.check(R, f, "same-key", any(s["k"] == "param" and s["i"] == 2 for s in P.origins(f, t["args"][1])), "the lookup uses the caller's key",
                  "a component is searched for a different key", pt=pt)


def c011_version(ctx):
    R = "C01.1v"
    ctx.declare(R, "in the tree, level 0 (newest first) is exhausted before deeper levels, with the same early exit")
    f = ctx.fn(R, "lsmtk::tree::Version::load")
    if not f:
        return
    ls = ctx.calls(R, f, r"lsmtk::tree::Version::load_from_sst$", floor=2)
    heads = {}
    for p in ls:
        hs = [h for h in P.call_points(f, r"Iterator>::next$") if P.reach(f, P.after(f, h), [p]) and P.reach(f, P.after(f, p), [h])]
        # innermost loop head = the one closest (reaches p without passing another head)
        inner = [h for h in hs if P.reach(f, P.after(f, h), [p], avoid=set(hs) - {h})]
        heads[p] = inner
    # classify: the L0 site's iterator originates in levels[0] (constant index 0)
    def is_l0(p):
        for h in heads[p]:
            t = P.term_at(f, h)
            srcs = P.origins(f, t["args"][0])
            if any(s["k"] == "call" and s["callee"].endswith("::rev") for s in srcs) or any(s["k"] == "call" and "Rev" in s["callee"] for s in srcs):
                return True
            for s in srcs:      # levels[0]
                if s["k"] == "call" and re.search(r"Index.*::index$|index::index$", s["callee"]) and len(s["t"]["args"]) == 2:
                    o = P.origins(f, s["t"]["args"][1])
                    if o and all(x["k"] == "const" and x.get("v") == 0 for x in o) and any(y["k"] == "field" and y["f"] == "levels" for y in P.origins(f, s["t"]["args"][0])):
                        return True
        return False
    a = [p for p in ls if is_l0(p)]
    b = [p for p in ls if p not in a]
    ctx.check(R, f, "sites", len(a) == 1 and len(b) == 1, "one lookup loop over level 0 and one over the deeper levels",
              "Version::load no longer has one L0 loop and one deeper-level loop (%d/%d)" % (len(a), len(b)))
    if not (a and b):
        return
    ha = heads[a[0]]
    p = P.reach(f, P.ENTRY, b, avoid=set(ha))
    ctx.check(R, f, "l0-first", p is None, "deeper levels are reached only through the L0 loop", "a deeper level can be consulted before level 0", pt=b[0], path=p)
    p = P.reach(f, P.after(f, b[0]), a)
    ctx.check(R, f, "never-back-to-l0", p is None, "level 0 is never consulted after a deeper level", "level 0 is consulted after a deeper level", pt=b[0], path=p)
    # level 0 is walked newest first: its files are sorted by a timestamp and the walk starts at the newest end
    for h in ha:
        ity = K.loop_iterator_type(f, h)
        revs = len(re.findall(r"\bRev<", ity))
        src_pts = {x["pt"] for x in P.origins(f, P.term_at(f, h)["args"][0]) if x["k"] == "call"}
        direction = None
        for q_ in P.call_points(f, r"::sort(_unstable)?_by(_key|_cached_key)?$"):
            c = P.term_at(f, q_)
            if not (src_pts & {x["pt"] for x in P.origins(f, c["args"][0]) if x["k"] == "call"}):
                continue
            g = closure_of_call(ctx, f, c)
            if g is not None and reads_timestamp(g) and not P.order(f, [q_], [h]):
                direction = ordering_direction(g, bool(re.search(r"_key$", c["callee"])))
        # an in-place `level0.reverse()` between the sort and the walk reverses it as well
        for q_ in P.call_points(f, r"slice::<impl \[T\]>::reverse$|::reverse$"):
            c = P.term_at(f, q_)
            if c["args"] and (src_pts & {x["pt"] for x in P.origins(f, c["args"][0]) if x["k"] == "call"}) and not P.order(f, [q_], [h]):
                revs += 1
        newest_first = (direction == "asc" and revs % 2 == 1) or (direction == "desc" and revs % 2 == 0)
        ctx.check(R, f, "l0-newest-first", newest_first, "level 0 is sorted by timestamp (%s) and walked %s" % (direction, "in reverse" if revs % 2 else "forward"),
                  "Version::load does not walk level 0 from its newest file to its oldest (sorted %s by timestamp, %d reversal(s) of the walk): "
                  "level-0 files overlap, and the first hit wins" % (direction, revs), pt=h)
    # every file of a deeper level that can hold the key is consulted: the versions of one key can span adjacent files of a level
    # (outputs are cut by size), so the site sits in a loop over level.ssts[lower_bound(key)..upper_bound(key)] (or over the whole level)
    hb = heads[b[0]]
    in_sst_loop = False
    why = "the deeper-level lookup is not inside a loop over the level's files"
    for h in hb:
        ity = K.loop_iterator_type(f, h)
        if "SstMetadata" not in ity:
            continue
        in_sst_loop = True
        if K.DROPPING_ADAPTERS.search(ity):
            in_sst_loop, why = False, "the loop over the level's files drops elements (%s)" % ity
            continue
        sub = K.loop_source_subslice(f, h)
        if sub is not None:
            t_h = P.term_at(f, h)
            base = K.ref_base(f, t_h["args"][0])
            lo = hi = False
            for q in P.origins(f, {"k": "copy", "pl": {"l": base, "p": []}}):
                if q["k"] == "call" and re.search(r"index::index$|Index.*::index$", q["callee"]) and len(q["t"]["args"]) == 2:
                    for r_ in P.origins(f, q["t"]["args"][1]):
                        if r_["k"] == "agg" and (r_.get("adt") or "").endswith("range::Range"):
                            ops = r_["st"]["rv"]["ops"]
                            lo = any(x["k"] == "call" and x["callee"].endswith("Level::lower_bound") for x in P.value_slice(f, ops[0])[0]) and \
                                not any(x["k"] == "bin" for x in P.value_slice(f, ops[0])[0])
                            hi = any(x["k"] == "call" and x["callee"].endswith("Level::upper_bound") for x in P.value_slice(f, ops[1])[0]) and \
                                not any(x["k"] == "bin" for x in P.value_slice(f, ops[1])[0])
            if not (lo and hi):
                in_sst_loop, why = False, "the files consulted are not level.ssts[lower_bound(key)..upper_bound(key)]"
    sst_arg = P.term_at(f, b[0])["args"][3] if len(P.term_at(f, b[0])["args"]) > 3 else None
    elem = sst_arg is not None and any(x["k"] == "call" and x["callee"].endswith("Iterator>::next") for x in P.origins(f, sst_arg))
    ctx.check(R, f, "every-candidate-file", in_sst_loop and elem,
              "in a deeper level every file between lower_bound(key) and upper_bound(key) is consulted, in order",
              "Version::load consults at most one file of a deeper level (%s): compaction outputs are cut by size, so the versions of one key can "
              "span two adjacent files with the newest in the first, and the read returns a stale value" % why, pt=b[0])
    # early exits inside both loops
    for label, site in (("L0", a), ("deeper levels", b)):
        hs = heads[site[0]]

        def from_site(t, site=site):
            return any(s["k"] == "call" and s["pt"] in set(site) for s in P.origins(f, t["args"][0]))
        fe = false_edges_of(f, r"core::option::Option::is_some$", arg_pred=from_site)
        p = P.reach(f, P.after(f, site[0]), hs, avoid_edges=fe)
        ctx.check(R, f, "hit-ends-search:" + label, p is None and bool(fe), "in the %s loop the next file is tried only if this one returned None" % label,
                  "a value found in %s does not end the search" % label, pt=site[0], path=p)
        te = bool_param_false_edges(f, 6)
        p = P.reach(f, P.after(f, site[0]), hs, avoid_edges=te)
        ctx.check(R, f, "tombstone-ends-search:" + label, p is None and bool(te), "and only if *is_tombstone is false",
                  "a tombstone found in %s does not end the search" % label, pt=site[0], path=p)
    g = ctx.fn(R, "lsmtk::tree::VersionRef::load")
    if g:
        ctx.must_pass(R, g, "Version::load", ctx.calls(R, g, r"lsmtk::tree::Version::load$"), goals=P.return_points(g))


def c015(ctx):
    R = "C01.5"
    ctx.declare(R, "after reopening, new writes are stamped above every timestamp already in logs or tree")
    f = ctx.fn(R, KVS + "open")
    if f:
        n = 0
        for b in f.blocks:
            for i, st in enumerate(b.st):
                rv = st.get("rv", {})
                if rv.get("r") == "agg" and strip_generics(rv.get("adt", "")).endswith("kvs::KeyValueStoreState"):
                    n += 1
                    for fld in ("seq_no", "mem_seq_no"):
                        o = rv["ops"][rv["fields"].index(fld)]
                        srcs, _ = P.value_slice(f, o)
                        calls = {s["callee"] for s in srcs if s["k"] == "call"}
                        ok = any(c.endswith("KeyValueStore::recover") for c in calls) and any(c.endswith("LsmTree::max_timestamp") for c in calls) \
                            and any(c.endswith("cmp::max") for c in calls)
                        ctx.check(R, f, "floor:" + fld, ok, "state.%s derives from max(recover(), tree.max_timestamp())" % fld,
                                  "state.%s no longer takes both the recovered logs' and the tree's largest timestamp into account" % fld, pt=(b.idx, i))
                    o = rv["ops"][rv["fields"].index("seq_no")]
                    srcs, _ = P.value_slice(f, o)
                    ctx.check(R, f, "strictly-above", any(s["k"] == "bin" and s["op"].startswith("Add") for s in srcs), "and is incremented past it",
                              "the initial sequence number is not incremented past the largest existing timestamp", pt=(b.idx, i))
        ctx.floor(R, "KeyValueStoreState construction in open", n, 1)
    f = ctx.fn(R, KVS + "recover")
    if f:
        for pt in P.ok_points(f):
            st = f.blocks[pt[0]].st[pt[1]]
            srcs, _ = P.value_slice(f, st["rv"]["ops"][0])
            calls = {s["callee"] for s in srcs if s["k"] == "call"}
            ctx.check(R, f, "recover-max", any(c.endswith("recover_one") for c in calls) and any(c.endswith("cmp::max") for c in calls),
                      "recover returns the maximum over recover_one results", "recover no longer returns the maximum timestamp of the replayed logs", pt=pt)
    f = ctx.fn(R, KVS + "recover_one")
    if f:
        oks = P.ok_points(f)
        good = [pt for pt in oks if ".biggest_timestamp" in K.src_names(f, f.blocks[pt[0]].st[pt[1]]["rv"]["ops"][0])]
        ctx.check(R, f, "recover_one-ts", len(good) >= 1, "recover_one returns the rebuilt sst's biggest_timestamp", "recover_one no longer reports the log's largest timestamp")
    f = ctx.fn(R, "lsmtk::tree::Version::max_timestamp")
    if f:
        names = K.src_names(f, {"k": "copy", "pl": {"l": 0, "p": []}})
        srcs, _ = P.value_slice(f, {"k": "copy", "pl": {"l": 0, "p": []}})
        ok = any(s["k"] == "field" and s["f"] == "biggest_timestamp" for s in srcs) and any(s["k"] == "call" and s["callee"].endswith("cmp::max") for s in srcs)
        # the same maximum as an iterator chain: `levels.iter().flat_map(|l| l.ssts.iter()).map(|f| f.biggest_timestamp).max()`
        mx = P.call_points(f, r"Iterator>?::(max|max_by_key|max_by)$")
        # `.fold(0, std::cmp::max)` / `.fold(0, |a, b| a.max(b))`
        for p_ in P.call_points(f, r"Iterator>?::fold$"):
            t_ = P.term_at(f, p_)
            fn_item = any(a_.get("k") == "const" and re.search(r"cmp::(max|Ord::max)$|::max$", strip_generics((a_.get("c") or {}).get("fn") or "")) for a_ in t_["args"])
            in_cl = any(P.call_points(c_, r"cmp::max$|Ord>?::max$|::max$") for c_ in ctx.prog.closures_of(f))
            if fn_item or in_cl:
                mx.append(p_)
        cls = ctx.prog.closures_of(f)
        reads = lambda fld: any(any(isinstance(e, dict) and e.get("f") == fld for st_ in b_.st if st_["s"] == "=" for pl_ in ((st_["rv"].get("pl") or {}), ((st_["rv"].get("a") or {}).get("pl") or {})) for e in pl_.get("p", []))
                                for g_ in [f] + cls for b_ in g_.blocks)
        chain_ok = bool(P.call_points(f, r"Iterator>?::(flat_map|flatten)$")) and \
            not P.call_points(f, r"Iterator>?::(filter|filter_map|take|take_while|skip|skip_while|step_by|nth|last|map_while)$")
        if not ok and mx and chain_ok and reads("biggest_timestamp") and reads("levels") and reads("ssts"):
            ctx.ok(R, f, "Version::max_timestamp is max() over levels.flat_map(ssts) of biggest_timestamp, with no adaptor that leaves files out")
        else:
            ctx.check(R, f, "tree-max", ok, "Version::max_timestamp is the max of biggest_timestamp over all files", "Version::max_timestamp no longer covers biggest_timestamp of the files")
            # over all levels: two nested loops
            loops = [p for p in P.call_points(f, r"Iterator>::next$") if P.reach(f, P.after(f, p), [p])]
            ctx.check(R, f, "all-levels", len(loops) >= 2, "iterating levels and files", "max_timestamp no longer iterates levels x files")
