"""C09 — damage is detected, never silent, never a panic: checksum gate placement, final-block sanity
chain, bounded data-sized allocations, error discipline + explicit-panic audit on the read paths."""
import re

from blue import prim as P
from blue.facts import callee_skey, strip_generics
from . import common as K

EXPLANATION = (
    "C09 structural clauses: (C09.1) every consumer of checksummed bytes (Block::new, Filter::try_from, the log frame "
    "hand-out, Edit::{add,rm,info} in the manifest reader) is dominated by the equal edge of the CRC comparison and "
    "only the loaders may call the consumers; (C09.2) Sst::from_file_handle's loads are dominated by the six sanity "
    "gates; (C09.3) every data-sized allocation on a read path is bounded by a dominating comparison or a validated "
    "producer; (C09.4) no storage error is dropped/discarded/unwrapped and no explicit panic site is reachable from "
    "the file-reading entry points (exceptions listed with reasons); (C09.4b) every index / range-slice of a raw byte "
    "buffer in the same reach set is in range by a dominating comparison with the length of the same buffer or by "
    "construction; the four sites that rely on the well-formedness of a block that passed its CRC, or on Vec::resize, are "
    "excepted with that reason.  GUARDED/ORIGIN/REACH and array-bounds dataflow over resolved MIR.")
NOT_DECIDED = ("that every bit flip at every offset is detected (CRC algebra, layout); arithmetic overflow on decoded values "
               "(e.g. Block::new's footer arithmetic, reached only by bytes whose CRC matched) needs value-range reasoning")
ASSUMPTIONS = ["crc32c::crc32c computes CRC-32C of exactly the slice it is given",
               "a block whose CRC-32C matches its index entry is the block its builder wrote (in-block offsets are not re-validated)",
               "overflow Assert terminators are out of scope"]

READ_ENTRIES = [
    "sst::Sst::new", "sst::Sst::from_file_handle", "sst::Sst::load", "sst::Sst::metadata", "sst::Sst::cursor",
    "sst::Sst::fast_setsum",
    "<sst::SstCursor as sst::Cursor>::seek_to_first", "<sst::SstCursor as sst::Cursor>::seek_to_last",
    "<sst::SstCursor as sst::Cursor>::seek", "<sst::SstCursor as sst::Cursor>::next", "<sst::SstCursor as sst::Cursor>::prev",
    "<sst::SstCursor as sst::Cursor>::key", "<sst::SstCursor as sst::Cursor>::value",
    "<sst::block::BlockCursor as sst::Cursor>::seek_to_first", "<sst::block::BlockCursor as sst::Cursor>::seek_to_last",
    "<sst::block::BlockCursor as sst::Cursor>::seek", "<sst::block::BlockCursor as sst::Cursor>::next",
    "<sst::block::BlockCursor as sst::Cursor>::prev", "<sst::block::BlockCursor as sst::Cursor>::key",
    "<sst::block::BlockCursor as sst::Cursor>::value",
    "sst::log::LogIterator::<std::fs::File>::new", "sst::log::LogIterator::next", "sst::log::log_to_builder", "sst::log::log_to_setsum",
    "sst::log::truncate_final_partial_frame",
    "mani::Manifest::open", "mani::ManifestIterator::open", "<mani::ManifestIterator as core::iter::traits::iterator::Iterator>::next",
    "mani::Manifest::verify",
    "lsmtk::verifier::LsmVerifier::verify", "lsmtk::verifier::ManifestVerifier::verify",
]

# The replay entry points feed decoded, already validated entries to a `B: Builder`; the builders are
# writers (their own gates are C10.1) and are not part of the damaged-file read path.
STOP = r" as sst::Builder>::(put|del|seal|approximate_size)$"

# crates whose functions count as the storage read path (the codec underneath is audited in C15)
READ_CRATES = ("sst", "mani", "lsmtk")

PANIC_EXC = {}
RERR_EXC = {
    ("lsmtk::verifier::LsmVerifier::get_cursor", "err-arm-ignored(file_manager::open_without_manager)"):
        "location fallback: trash/<setsum> is tried, then sst/<setsum>, then trash/ again with `?`, so the final failure is the one reported",
    ("lsmtk::tree::LsmTree::explicit_unref", "discard fs::rename"):
        "a failed move leaves an orphan in sst/ (safe side); see C02.6",
    ("lsmtk::tree::LsmTree::cleanup_orphans", "discard fs::rename"):
        "a failed move leaves an orphan in sst/ (safe side); see C02.6",
    ("mani::Manifest::to_edit", "expect(Edit::add)"): "strings re-added from the in-memory state were admitted once already",
    ("mani::Manifest::to_edit", "expect(Edit::info)"): "strings re-added from the in-memory state were admitted once already",
}


def rules(ctx):
    c091(ctx)
    c092(ctx)
    c093(ctx)
    c094(ctx)
    c095(ctx)
    c096(ctx)
    c097(ctx)
    c098(ctx)
    from . import C13
    C13.c131(ctx)    # the manifest reader drops an unfinished edit only at the end of its input
    from . import C12
    C12.c121(ctx)    # the log reader: a FIRST frame without its SECOND is an error, never a clean end


def c091(ctx):
    R = "C09.1"
    ctx.declare(R, "bytes are consumed only after their CRC compared equal")
    for fname, consumer, what in (("sst::Sst::load_block", r"sst::block::Block::new$", "Block::new"),
                                  ("sst::Sst::load_filter_block", r"sst::sbbf::Filter as core::convert::TryFrom.*>::try_from$", "Filter::try_from")):
        f = ctx.fn(R, fname)
        if not f:
            continue
        pts = ctx.calls(R, f, consumer, what=what)
        for pt in pts:
            g = K.equal_edge_guard(f, pt, K.has("crc32c()"), K.has(".crc32c"))
            ctx.check(R, f, "crc-gate:" + what, g is not None,
                      "%s is dominated by the equal edge of table_entry.crc32c() vs block_metadata.crc32c" % what,
                      "%s is reachable without the CRC of the loaded entry having compared equal to the metadata CRC" % what, pt=pt)
    f = ctx.fn(R, "sst::log::LogIterator::next_frame")
    if f:
        oks = [p for p in P.ok_points(f) if _ok_is_some(f, p)]
        ctx.floor(R, f.skey + " Ok(Some(header)) exits", len(oks), 1)
        for pt in oks:
            g = K.equal_edge_guard(f, pt, K.has("crc32c()"), K.has(".crc32c"))
            ctx.check(R, f, "crc-gate:frame", g is not None, "Ok(Some(header)) is dominated by the equal edge of crc32c(buffer) vs header.crc32c",
                      "a frame is handed out without its CRC having compared equal", pt=pt)
        # the CRC is computed over the freshly read bytes of self.buffer
        for pt in ctx.calls(R, f, r"^crc32c::crc32c$"):
            rd = P.call_points(f, r"std::io::Read::read_exact$|as std::io::Read>::read_exact$")
            ctx.check(R, f, "crc-input", ".buffer" in K.src_names(f, P.term_at(f, pt)["args"][0]) and not P.order(f, rd, [pt]),
                      "crc32c is computed over self.buffer after read_exact", "crc32c input is not the frame just read", pt=pt)
    f = ctx.fn(R, "<mani::ManifestIterator as core::iter::traits::iterator::Iterator>::next")
    if f:
        eds = ctx.calls(R, f, r"mani::Edit::(add|rm|info)$", floor=3)
        for pt in eds:
            g = K.equal_edge_guard(f, pt, K.has("crc32c()"), K.has("from_str_radix()"))
            ctx.check(R, f, "crc-gate:line", g is not None, "Edit::%s is dominated by the equal edge of the line CRC comparison" % callee_skey(P.term_at(f, pt)).rsplit("::", 1)[-1],
                      "a manifest line is applied to the edit without its CRC having compared equal", pt=pt)
    # who may call the consumers (within the storage crates, non-test code)
    allowed = {
        r"sst::block::Block::new$": {"sst::Sst::load_block", "<sst::block::BlockBuilder as sst::Builder>::seal"},
        r"sst::sbbf::Filter as core::convert::TryFrom.*>::try_from$": {"sst::Sst::load_filter_block"},
    }
    for pat, ok in allowed.items():
        cs = K.callers_of(ctx, pat, crates=("sst", "lsmtk", "mani"))
        ctx.floor(R, "callers of " + pat, len(cs), 1)
        for sk, (f, pts) in cs.items():
            ctx.check(R, f, "who-may-call", sk in ok, "%s is an allowed caller of %s" % (sk, pat),
                      "%s builds a block/filter from bytes outside the CRC-checking loader" % sk, pt=pts[0])


def _ok_is_some(f, pt):
    st = f.blocks[pt[0]].st[pt[1]]
    o = st["rv"]["ops"][0]
    for s in P.origins(f, o):
        if s["k"] == "agg" and s.get("variant") == "Some":
            return True
    return False


def c092(ctx):
    R = "C09.2"
    ctx.declare(R, "an SST is used only if its trailer, final block and block extents are mutually consistent")
    f = ctx.fn(R, "sst::Sst::from_file_handle")
    if not f:
        return
    lb = ctx.calls(R, f, r"sst::Sst::load_block$")
    lf = ctx.calls(R, f, r"sst::Sst::load_filter_block$")
    if not lb:
        return
    pt = lb[0]
    cg = K.compare_guards(f, pt)
    descr = [(g["op"], K.src_names(f, g["a"]), K.src_names(f, g["b"]), g["holds"]) for g in cg]

    def find(pred):
        return [d for d in descr if pred(d)]
    want = [
        ("file_size<8", lambda d: d[0] == "Lt" and "#8" in d[2] and "io_result()" in d[1] and not d[3]),
        ("file_size<final_block_offset", lambda d: d[0] == "Lt" and "io_result()" in d[1] and "unpack()" in d[2] and not d[3]),
        ("index.limit>filter.start", lambda d: d[0] == "Gt" and {".index_block", ".limit"} <= d[1] and {".filter_block", ".start"} <= d[2] and not d[3]),
        ("filter.limit>final_block_offset", lambda d: d[0] == "Gt" and {".filter_block", ".limit"} <= d[1] and "unpack()" in d[2] and not d[3]),
    ]
    # `file_size.checked_sub(8)` answered Some is the same gate as the failing edge of `file_size < 8`
    csub8 = any(lab == "sw:1" and any(x_["k"] == "call" and re.search(r"::checked_sub$", x_["callee"]) and
                                      any(cc.get("v") == 8 for cc in P.origin_consts(f, x_["t"]["args"][1])) for x_ in srcs_)
                for _bb, lab, srcs_ in K.guards(f, pt))
    for name, pred in want:
        if name == "file_size<8" and csub8 and not find(pred):
            ctx.ok(R, f, "load_block is dominated by the Some edge of file_size.checked_sub(8)", [pt])
            continue
        ctx.check(R, f, "gate:" + name, bool(find(pred)), "load_block is dominated by the failing edge of `%s`" % name,
                  "the sanity gate `%s` no longer dominates the first block load" % name, pt=pt)
    sc = K.call_guards(f, pt, r"sst::BlockMetadata::sanity_check$")
    recv = set()
    for g in sc:
        recv |= {n for n in K.src_names(f, g["t"]["args"][0]) if n in (".index_block", ".filter_block")}
    ctx.check(R, f, "gate:sanity_check", recv == {".index_block", ".filter_block"},
              "load_block is dominated by successful sanity_check of index_block and filter_block",
              "sanity_check of index/filter block metadata no longer dominates the first block load", pt=pt)
    ctx.order_chain(R, f, [("load_block(index)", lb), ("load_filter_block", lf)])
    # the chain must close: every extent that sizes a read ends within the file.  Proved with the bounds prover from the gates
    # that dominate the load (transitively) and the postcondition start < limit of the successful sanity_check calls.
    from blue import bounds as B
    bf = B.BF(ctx.prog, f)
    fsz = None
    for b in P.switch_blocks(f):
        for lab_ in ("sw:0", "sw:1"):
            for (x, op, y) in bf.edge_facts(b.idx, lab_):
                if op == "<=" and x == ("c", 8) and fsz is None:
                    fsz = y
    ctx.check(R, f, "file-size-term", fsz is not None, "the file size is the result of seek(End) compared with 8", "the file-size comparison was not found")
    if fsz is not None:
        for label, pts in (("index block", lb[:1]), ("filter block", lf[:1])):
            for pt in pts:
                t = P.term_at(f, pt)
                root = bf.root(t["args"][1])
                if root[0] != "pl":
                    ctx.violate(R, f, "extent-in-file", "the metadata handed to the %s load is not a plain place" % label, pt=pt)
                    continue
                post = []
                for g_ in K.call_guards(f, pt, r"sst::BlockMetadata::sanity_check$"):
                    r2 = bf.root(g_["t"]["args"][0])
                    if r2[0] == "pl":
                        post.append((("pl", r2[1], r2[2] + ("start",)), "<", ("pl", r2[1], r2[2] + ("limit",))))
                bf.assume(pt, post)
                why = bf.prove(("pl", root[1], root[2] + ("limit",)), False, fsz, pt)
                ctx.check(R, f, "extent-in-file", bool(why), "the %s extent ends within the file (%s)" % (label, why),
                          "nothing bounds the end of the %s extent by the file size: a trailer that restates a field (an appended suffix) sizes "
                          "the read -- and its allocation -- arbitrarily" % label, pt=pt)
    g = ctx.fn(R, "sst::BlockMetadata::sanity_check")
    if g:
        oks = P.ok_points(g)
        for p in oks:
            cg = [x for x in K.compare_guards(g, p) if x["op"] in ("Ge", "Gt", "Lt", "Le")
                  and {".start"} <= K.src_names(g, x["a"]) | K.src_names(g, x["b"]) and {".limit"} <= K.src_names(g, x["a"]) | K.src_names(g, x["b"])]
            ctx.check(R, g, "start<limit", bool(cg), "sanity_check returns Ok only on the start<limit edge",
                      "sanity_check no longer compares start and limit", pt=p)
            # exactly: Ok implies start < limit (an empty or inverted extent would size a zero / wrapped read)
            from blue import bounds as B
            bf = B.BF(ctx.prog, g)
            why = bf.prove(("pl", 1, ("start",)), True, ("pl", 1, ("limit",)), p)
            ctx.check(R, g, "start<limit-exact", bool(why), "Ok(()) is returned only when start < limit strictly (%s)" % why,
                      "sanity_check can return Ok with start >= limit: the extent limit - start sizes the block read", pt=p)


ALLOC = r"alloc::vec::Vec::(resize|with_capacity|reserve|reserve_exact)$|alloc::vec::from_elem$|alloc::vec::Vec::resize_with$"
VALIDATED_PRODUCERS = {
    "sst::log::LogIterator::next_header": "bounds header_sz by HEADER_MAX_SIZE and header.size by TABLE_FULL_SIZE (checked below)",
}


def c093(ctx):
    R = "C09.3"
    ctx.declare(R, "a length decoded from a file never sizes an allocation without a dominating bound")
    fns = K.reach_fns(ctx, READ_ENTRIES, ("sst", "mani"), rule=R, stop=STOP)
    n = 0
    for f in fns:
        for pt in P.call_points(f, ALLOC):
            t = P.term_at(f, pt)
            if t["sp"][3] and "from_elem" not in (callee_skey(t) or ""):
                pass
            sz = t["args"][1] if "Vec::" in (callee_skey(t) or "") and len(t["args"]) > 1 else t["args"][-1] if t["args"] else None
            if "from_elem" in (callee_skey(t) or ""):
                sz = t["args"][1]
            if "with_capacity" in (callee_skey(t) or ""):
                sz = t["args"][0]
            if sz is None or sz.get("k") == "const":
                continue
            srcs, locs = P.value_slice(f, sz)
            # sizes derived only from in-memory lengths / options are not data-sized
            data = [s for s in srcs if s["k"] == "call" and not re.search(r"::(len|capacity|count|size_hint|pack_sz|min|max|approximate_size|default)$", s["callee"])
                    and not P.TRANSPARENT.search(s["callee"])]
            fields = [s for s in srcs if s["k"] == "field"]
            params = [s for s in srcs if s["k"] == "param"]
            if not data and not fields and not params:
                continue
            if not data and not any(s["f"] in ("start", "limit", "size") for s in fields):
                # derived from lengths of in-memory containers or options
                if all(re.search(r"Options$|Builder$|::Filter$|Vec$", s["owner"]) or s["f"] in ("len",) for s in fields) and not params:
                    continue
            n += 1
            ok = False
            why = ""
            producers = {s["callee"] for s in data}
            if producers & set(VALIDATED_PRODUCERS):
                ok = True
                why = "size comes from validated producer %s" % sorted(producers & set(VALIDATED_PRODUCERS))
            if not ok:
                for g in K.compare_guards(f, pt):
                    _sa, la = P.value_slice(f, g["a"])
                    _sb, lb = P.value_slice(f, g["b"])
                    shared = (la | lb) & locs
                    shared = {l for l in shared if l > f.argc}
                    if shared and g["op"] in ("Lt", "Le", "Gt", "Ge"):
                        ok = True
                        why = "bounded by comparison at line %d" % g["line"]
                        break
            if not ok:
                for g in K.call_guards(f, pt, r"sst::BlockMetadata::sanity_check$"):
                    _s, lr = P.value_slice(f, g["t"]["args"][0])
                    if lr & locs:
                        ok = True
                        why = "extent validated by BlockMetadata::sanity_check (and bounded by the gates of C09.2 / the index CRC)"
            ctx.check(R, f, "alloc %s" % (callee_skey(t) or "").rsplit("::", 1)[-1], ok,
                      "data-sized allocation: %s" % why, "allocation sized by file contents without a dominating bound", pt=pt)
    ctx.floor(R, "data-sized allocation sites", n, 4)
    c093_header(ctx)


def c093_header(ctx):
    """The log reader's header gates (run by C12 too): both sizes read from the file are bounded by constants before use."""
    R = "C09.3"
    g = ctx.fn(R, "sst::log::LogIterator::next_header")
    if not g:
        return
    oks = [p for p in P.ok_points(g) if _ok_is_some(g, p)]
    ctx.floor(R, g.skey + " Ok(Some) exits", len(oks), 1)
    hmax = ctx.prog.consts.get("sst::log::HEADER_MAX_SIZE", {}).get("v")
    cap = ctx.prog.consts.get("sst::TABLE_FULL_SIZE", {}).get("v")
    for p in oks:
        d = [(x["op"], K.src_names(g, x["a"]), K.src_names(g, x["b"]), x["holds"]) for x in K.compare_guards(g, p)]
        hv = [int(n[1:]) for op, a, b, h in d if op == "Gt" and not h and ".size" not in a for n in b if re.fullmatch(r"#\d+", n) and int(n[1:]) > 0]
        ctx.check(R, g, "bound:header_sz", bool(hv) and hmax is not None and min(hv) <= hmax,
                  "a header is returned only on the failing edge of header_sz > a constant no larger than HEADER_MAX_SIZE",
                  "header_sz is no longer bounded by a constant (at most HEADER_MAX_SIZE, the header buffer's length) before use", pt=p)
        # any constant bound makes the allocation bounded; the value must stay within what the table format allows (TABLE_FULL_SIZE).
        # That the bound is not *below* what the writer can produce is C12.6.
        vals = [int(n[1:]) for op, a, b, h in d if op == "Gt" and ".size" in a and not h for n in b if re.fullmatch(r"#\d+", n)]
        ctx.check(R, g, "bound:header.size", bool(vals) and cap is not None and min(vals) <= cap,
                  "a header is returned only on the failing edge of header.size > a constant no larger than TABLE_FULL_SIZE",
                  "header.size is no longer bounded by a constant (at most TABLE_FULL_SIZE) before it sizes the frame buffer", pt=p)


def c098(ctx):
    R = "C09.8"
    ctx.declare(R, "a count or offset decoded from a block's own bytes is subtracted from a length only under a comparison that involves it (or with "
                   "checked_sub): an unchecked `len - 4 * num_restarts` panics in a checked build and wraps otherwise")
    DATA = re.compile(r"::unpack$|Unpacker.*::unpack|restart_point$|from_le_bytes$")
    n = 0
    for f in sorted(ctx.prog.fns.values(), key=lambda f: f.key):
        if f.crate != "sst" or not re.match(r"sst::block::(Block|BlockCursor)::", f.skey) or "{closure" in f.skey:
            continue
        for b in f.blocks:
            for i, st in enumerate(b.st):
                if not (st["s"] == "=" and st["rv"]["r"] == "bin" and st["rv"]["op"] in ("SubWithOverflow", "Sub", "SubUnchecked")):
                    continue
                sl = P.value_slice(f, st["rv"]["a"])[0] + P.value_slice(f, st["rv"]["b"])[0]
                data = {x["pt"] for x in sl if x["k"] == "call" and DATA.search(x["callee"])}
                if not data:
                    continue
                n += 1
                ok = False
                for g in K.compare_guards(f, (b.idx, i)):
                    gs = P.value_slice(f, g["a"])[0] + P.value_slice(f, g["b"])[0]
                    if any(x["k"] == "call" and x.get("pt") in data for x in gs):
                        ok = True
                ctx.check(R, f, "decoded-length-subtracted-under-a-check", ok, "the subtraction at line %d is dominated by a comparison with the decoded value" % st["sp"][1],
                          "%s subtracts a value decoded from the block (line %d) with no comparison that bounds it: a restart count that does not fit the block "
                          "-- reachable with the index block's bytes and the checksum the unprotected final block holds for them changed together -- is an "
                          "arithmetic-overflow panic, not an error" % (f.skey, st["sp"][1]), pt=(b.idx, i))
    # no floor: with checked_sub there is no such site left


def c095(ctx):
    R = "C09.5"
    ctx.declare(R, "a restart index decoded from a block is compared with num_restarts before it indexes the restart table")
    cs = K.callers_of(ctx, r"sst::block::Block::restart_point$", crates=("sst",))
    n = 0
    for sk, (f, pts) in cs.items():
        for pt in pts:
            n += 1
            ok = any(".num_restarts" in (K.src_names(f, g["a"]) | K.src_names(f, g["b"])) for g in K.compare_guards(f, pt))
            if not ok and sk == "sst::block::BlockCursor::cache_restart":
                # the index comes from a position established through seek_restart (which checks it)
                first = min(pts)
                if pt == first:
                    ctx.exception(R, sk, "restart_point(restart_idx)", "restart_idx is the cursor's own restart index, "
                                  "established by seek_restart which compares it with num_restarts")
                    ok = True
            ctx.check(R, f, "restart_point", ok, "restart_point call is dominated by a comparison with num_restarts",
                      "restart_point is called with an index that was not compared with num_restarts", pt=pt)
    ctx.floor(R, "restart_point call sites", n, 5)


def c096(ctx):
    R = "C09.6"
    ctx.declare(R, "a zero length byte in the log is padding only within a header's length of a block boundary: the reader never skips further")
    f = ctx.fn(R, "sst::log::LogIterator::true_up")
    if not f:
        return
    sk = ctx.calls(R, f, r"std::io::Seek>::seek$|std::io::Seek::seek$|::seek_relative$|BufReader.*::seek_relative$|std::io::Read>::read_exact$|std::io::Read>::read$|std::io::Read::read$|Read>?::read_to_end$|::consume$")
    # what is skipped as padding is looked at: the writer pads with zeros, and the byte that says `this is padding` is covered by no
    # checksum -- a frame whose length byte was zeroed must not be stepped over as if it were padding
    blind = [pt for pt in sk if re.search(r"::seek$|::seek_relative$|::consume$", callee_skey(P.term_at(f, pt)) or "")]
    reads = [pt for pt in sk if pt not in blind]
    zero_tests = [1 for b in f.blocks for st in b.st if st["s"] == "=" and st["rv"].get("r") == "bin" and st["rv"]["op"] in ("Ne", "Eq")
                  and any(o.get("k") == "const" and o["c"].get("v") == 0 and o["c"].get("ty") == "u8" for o in (st["rv"]["a"], st["rv"]["b"]))]
    zero_tests += [1 for g_ in ctx.prog.closures_of(f) for b in g_.blocks for st in b.st if st["s"] == "=" and st["rv"].get("r") == "bin" and st["rv"]["op"] in ("Ne", "Eq")
                   and any(o.get("k") == "const" and o["c"].get("v") == 0 and o["c"].get("ty") == "u8" for o in (st["rv"]["a"], st["rv"]["b"]))]
    ctx.check(R, f, "padding-is-verified-zero", not blind and bool(reads) and bool(zero_tests),
              "true_up reads the bytes it skips and compares them with zero",
              "true_up steps over the bytes up to the block boundary without looking at them: a frame of at most 19 bytes that sits there and whose "
              "length byte -- covered by no checksum -- was zeroed is skipped as padding, and its batch (a tombstone, say) silently disappears",
              pt=(blind or sk or [None])[0])
    for pt in sk:
        g = [x for x in K.compare_guards(f, pt) if x["op"] in ("Gt", "Ge") and not x["holds"] and
             "#HEADER_MAX_SIZE" in (K.src_names(f, x["b"]) | K.src_names(f, x["a"]))]
        ok = False
        for x in g:
            # the bounded quantity is the distance to the boundary: trued_up - offset
            srcs, _ = P.value_slice(f, x["a"])
            if any(s_["k"] == "bin" and s_["op"].startswith("Sub") for s_ in srcs) and any(s_["k"] == "call" and s_["callee"].endswith("compute_true_up") for s_ in srcs):
                ok = True
        ctx.check(R, f, "skip-bounded", ok, "the reader repositions only on the failing edge of (trued_up - offset) > HEADER_MAX_SIZE",
                  "the padding skip is no longer bounded by HEADER_MAX_SIZE: a damaged length byte makes the reader jump to the next block boundary "
                  "(or past EOF) and silently drop records", pt=pt)
    # ... and true_up is the only place where the reader repositions: a second, inlined computation of the padding skip
    # (e.g. `next_boundary(offset) - offset` after the length byte was consumed) disagrees with compute_true_up on a boundary
    n_seek = 0
    for g_ in sorted(ctx.prog.fns.values(), key=lambda x: x.key):
        if g_.crate != "sst" or not g_.skey.startswith("sst::log::LogIterator::"):
            continue
        for pt in P.call_points(g_, r"std::io::Seek>::seek$|std::io::Seek::seek$|::seek_relative$|BufReader.*::seek_relative$|BufRead>?::consume$"):
            n_seek += 1
            ctx.check(R, g_, "only-true_up-repositions", g_.skey in ("sst::log::LogIterator::true_up", "sst::log::LogIterator::new", "sst::log::LogIterator::from_reader"),
                      "%s repositions the log input" % P.short(g_.skey),
                      "%s repositions the log input itself instead of going through LogIterator::true_up (the bounded, boundary-aware skip): its own "
                      "arithmetic can jump a whole block when the position is already on a boundary" % g_.skey, pt=pt)
    # (no floor: a reader that never seeks satisfies the clause)
    nh = ctx.fn(R, "sst::log::LogIterator::next_header")
    if nh:
        tu = ctx.calls(R, nh, r"sst::log::LogIterator::true_up$")
        # the zero-length (padding) edge: a comparison of the header length byte with 0
        zero_edges = []
        for b in P.switch_blocks(nh):
            for c_ in K.cond_sources(nh, b.idx):
                if c_["k"] == "bin" and c_["op"] in ("Eq", "Ne"):
                    ops = (c_["st"]["rv"]["a"], c_["st"]["rv"]["b"])
                    if any(o.get("k") == "const" and o["c"].get("v") == 0 for o in ops):
                        lab = "sw:1" if c_["op"] == "Eq" else "sw:0"
                        zero_edges.append((b.idx, dict(b.succs).get(lab)))
        ctx.floor(R, "next_header padding test", len(zero_edges), 1)
        heads = [h for h in P.call_points(nh, r"Read>?::read_exact$|::read_exact$") if P.reach(nh, P.after(nh, h), [h])]
        for (bb, tgt) in zero_edges:
            if tgt is None:
                continue
            q = P.reach(nh, [(tgt, 0)], heads or P.return_points(nh), avoid=set(tu) | set(P.error_points(nh)))
            ctx.check(R, nh, "padding-through-true_up", q is None and bool(tu), "a zero length byte is skipped through LogIterator::true_up",
                      "the padding branch of next_header does not go through LogIterator::true_up", path=q)
    # the writer pads at most HEADER_MAX_SIZE bytes
    w = ctx.fn(R, "sst::log::LogBuilder::append_split")
    if w:
        tu = P.call_points(w, r"sst::log::LogBuilder::true_up$")
        early = [p_ for p_ in tu if any(x["op"] == "Le" and x["holds"] and "#HEADER_MAX_SIZE" in K.src_names(w, x["b"]) for x in K.compare_guards(w, p_))]
        ctx.check(R, w, "writer-pad-bound", bool(early), "the writer pads a whole remainder only when roundup <= HEADER_MAX_SIZE",
                  "the writer's padding is no longer bounded by HEADER_MAX_SIZE")


def c094(ctx):
    R = "C09.4"
    ctx.declare(R, "no storage error is lost or turned into a panic, and no explicit panic site is reachable, on a file-reading path")
    fns = K.reach_fns(ctx, READ_ENTRIES, READ_CRATES, rule=R, stop=STOP)
    n1 = K.r_err(ctx, R, fns, RERR_EXC)
    ctx.floor(R, "R-ERR call sites on read paths", n1, 150)
    from .C09_exc import PANIC_EXC as EXC
    n2 = K.panic_audit(ctx, R + "p", fns, EXC)
    # implicit panics on raw byte buffers read from files
    from .C09_exc import BOUNDS_EXC
    ctx.declare(R + "b", "bytes read from a file are never indexed beyond the length a dominating comparison established for that same buffer")
    nb, pb = K.bounds_audit(ctx, R + "b", fns, BOUNDS_EXC, elem=r"^u8$")
    ctx.floor(R + "b", "byte-buffer index / slice sites on read paths", nb, 8)
    from .C09_exc import OVERFLOW_EXC
    K.overflow_audit(ctx, R + "b", fns, OVERFLOW_EXC)
    ctx.instances.setdefault(R + "p", {"why": "", "sites": [], "matched": 0, "failed": 0})["why"] = \
        "explicit-panic audit over the same reach set (each exception names one construct in one function with its reason)"


# ------------------------------------------------------------------------------------------------
# C09.7 every self-describing structure decoded straight from file bytes and kept in the object handed to callers is covered by a checksum

def crc_equal_edges(f):
    """[(switch block, label of the edge on which a crc32c() result compared equal)]"""
    out = []
    for b in P.switch_blocks(f):
        srcs = P.switch_cond_sources(f, b.idx)
        if not any(s_["k"] == "call" and s_["callee"].endswith("crc32c") for s_ in srcs):
            # the crc may be one operand of the comparison only
            pass
        cmpn = None
        for s_ in srcs:
            if s_["k"] == "bin" and s_["op"] in ("Eq", "Ne"):
                names = K.src_names(f, s_["st"]["rv"]["a"]) | K.src_names(f, s_["st"]["rv"]["b"])
                if "crc32c()" in names:
                    cmpn = s_["op"]
            elif s_["k"] == "call" and re.search(r"::(eq|ne)$", s_["callee"]) and len(s_["t"]["args"]) == 2:
                names = K.src_names(f, s_["t"]["args"][0]) | K.src_names(f, s_["t"]["args"][1])
                if "crc32c()" in names:
                    cmpn = "Eq" if s_["callee"].endswith("eq") else "Ne"
        if cmpn is None:
            continue
        negs = sum(1 for x in srcs if x["k"] == "un" and x["op"] == "Not")
        eq_true = (cmpn == "Eq") != bool(negs % 2)
        out.append((b.idx, "sw:1" if eq_true else "sw:0"))
    return out


def c097(ctx):
    R = "C09.7"
    ctx.declare(R, "a message decoded from bytes just read from a file and kept in the object a constructor returns is covered by a checksum comparison")
    n = 0
    for f in sorted(ctx.prog.fns.values(), key=lambda f: f.skey):
        if f.crate not in ("sst", "mani") or f.kind == "Closure" or not f.impl_self:
            continue
        reads = P.call_points(f, r"FileExt::read_exact_at$|io::Read::read_exact$|as std::io::Read>::read_exact$")
        if not reads:
            continue
        self_ty = strip_generics(f.impl_self)
        srcs0 = P.origins(f, {"k": "copy", "pl": {"l": 0, "p": []}})
        if not any(s_["k"] == "agg" and s_.get("adt") and strip_generics(s_["adt"]) == self_ty for s_ in srcs0):
            continue      # not a constructor
        kept = set()
        for a_ in srcs0:
            if a_["k"] == "agg" and a_.get("adt") and strip_generics(a_["adt"]) == self_ty:
                for o_ in a_["st"]["rv"]["ops"]:
                    kept |= {s_["pt"] for s_ in P.origins(f, o_) if s_["k"] == "call" and re.search(r"buffertk::Unpacker::unpack$|Unpackable>::unpack$", s_["callee"])}
        for b, t in f.calls():
            pt = P.term_pt(f, b.idx)
            if pt not in kept:
                continue
            tys = re.findall(r"(?<![\w:])((?:sst|mani)::[\w:]+)", str(t.get("ga") or ""))
            if not tys or P.order(f, reads, [pt]):
                continue
            ty = tys[-1]
            n += 1
            eq = crc_equal_edges(f)
            uneq = set()
            for bb, lab in eq:
                uneq |= {(bb, l_) for l_, _s in f.blocks[bb].succs if l_ != lab}
            q = P.reach(f, P.after(f, pt), P.return_points(f), avoid=set(P.error_points(f)), avoid_edges=uneq) if eq else [pt[0]]
            gated = bool(eq) and all(P.reach(f, P.after(f, pt), P.return_points(f), avoid=set(P.error_points(f)), avoid_edges={(bb, lab)} | uneq) is None for bb, lab in eq[:1])
            ctx.check(R, f, "decoded-without-checksum:" + ty.rsplit("::", 1)[-1], gated,
                      "%s is kept only after a CRC over its bytes compared equal" % ty,
                      "%s reads bytes from the file, decodes a %s from them and keeps it in the object it returns with no checksum comparison: a flipped bit "
                      "in one of its scalar fields (setsum, smallest / biggest timestamp) is handed to callers as genuine metadata" % (f.skey, ty), pt=pt)
    ctx.floor(R, "messages decoded from file bytes and kept by a constructor", n, 1)
