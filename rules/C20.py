"""C20 — writes keep completing: deadlock-freedom structure (lock order, condvar discipline, announcements, claim release)."""
import re

from blue import prim as P
from blue import locks as L
from blue.facts import callee_skey, strip_generics
from . import common as K
from .C06 import true_edge_guard, held_at, guard_release_points

EXPLANATION = (
    "C20 structural clauses: (C20.1) the lock-order graph over lsmtk, sst, mani, sync42, skipfree, utilz (acquisitions "
    "resolved through the call graph and concretely typed Drop glue) is acyclic, apart from the doing_work-gated pair in "
    "WorkCoalescingQueue whose gate is itself checked; (C20.2) every condition-variable wait sits in a loop inside one "
    "critical section (the predicate is re-checked), every notification of a condvar is sent with the waiters' mutex held "
    "or after a completed critical section of it, and the set of (lock held, condvar waited on) pairs equals the triaged "
    "table; (C20.3) every state change a sleeper waits for is announced: install_version is followed by the compact / "
    "stall notification, the flush trigger by its notification, and imm_trigger is written nowhere else; (C20.4) a failed "
    "compaction releases its claim, applying a compaction removes the claim first, and only emit_compaction adds claims; "
    "(C20.5) the accumulator written only under should_perform_mandatory_compaction() reaches emit_compaction on every path and "
    "under no score comparison; (C20.6) the ingest stall predicate and the mandatory-compaction predicate are siblings: every comparison "
    "the stall predicate makes is a comparison the mandatory predicate also makes -- same quantity of the tree, same operator, its own "
    "threshold -- and the stall predicate reads nothing but the version, so an ingest is never held back on a condition that forces no compaction; "
    "(C20.7) in find_best_compaction every limit taken from the options that can end the search before a candidate exists exempts level 0, as "
    "the byte limit does -- a level-0 compaction is the only relief of a stalled ingest (the file-count limits do not: known finding F17).  "
    "HELD/Acquires summaries, ORDER, MUSTPASS, GUARDED over resolved MIR.")
NOT_DECIDED = ("that a relieving compaction is always selectable (find_best_compaction can return nothing for configuration- and "
               "shape-dependent reasons), scheduler fairness; observation O4: a finishing compaction wakes `stall` waiters but not "
               "`compact` sleepers")
ASSUMPTIONS = ["std Mutex/Condvar semantics; spurious wake-ups allowed"]

TREE = "lsmtk::tree::LsmTree::"
KVS = "lsmtk::kvs::KeyValueStore::"
CRATES = ("lsmtk", "sst", "mani", "sync42", "skipfree", "utilz")

# (lock held, condvar that may be waited on while it is held) — triaged instances, one reason each
WAIT_TABLE = {
    ("KeyValueStore.memtable_mutex", "KeyValueStore.cnd_needs_memtable_flush"): "memtable_mutex only serialises flush threads; writers never take it",
    ("KeyValueStore.memtable_mutex", "LsmTree.stall"): "the flush thread stalls on ingest; compaction threads never take memtable_mutex",
    ("KeyValueStore.memtable_mutex", "Waiter.cond"): "flush thread drains earlier writers; writers never take memtable_mutex",
    ("KeyValueStore.memtable_mutex", "WaitList.wait_waiter_available"): "needs 65 536 linked waiters; writers never take memtable_mutex",
    ("KeyValueStore.memtable_mutex", "FileManager.wake_opening"): "file manager waits only for another open of the same path to finish",
    ("KeyValueStore.state", "WaitList.wait_waiter_available"):
        "pre-triaged: WaitList::link is called with the state lock held (write, _memtable_thread); it blocks only when MAX_CONCURRENCY = 65 536 "
        "waiters are linked at once, i.e. that many client threads inside write(); recorded with that reason, not claimed safe beyond it",
    ("LsmTree.compaction", "FileManager.wake_opening"): "open_sst under the compaction lock waits only for a concurrent open of the same file",
    ("LsmTree.mani", "FileManager.wake_opening"):
        "LsmTree::from_manifest reads the SST list under mani.read() while the RwLock and the FileManager are still locals of the constructor "
        "(not yet shared with any thread); the file manager waits only for a concurrent open of the same file",
    ("LsmTree.compaction", "LsmTree.stall"): None,   # the wait hands the compaction guard itself to the condvar (filtered as passed)
}


def rules(ctx):
    c201(ctx)
    c202(ctx)
    c203(ctx)
    c203_departures(ctx)
    c203_relief(ctx)
    c202_queued(ctx)
    c204(ctx)
    c205(ctx)
    c206(ctx)
    c207(ctx)
    # every write goes through the log's coalescing queues and the store's wait list: a lost wake-up there blocks writes for ever
    from . import C18
    C18.c181(ctx)
    C18.c182(ctx)
    C18.c185(ctx)


def gated_pair_ok(ctx, R):
    """The state<->core inversion in do_work is safe only because of the doing_work gate: core.lock() under
    state happens on the doing_work == false edge after setting it true, and state.lock() under core is
    followed by doing_work = false."""
    f = ctx.fn(R, "sync42::work_coalescing_queue::WorkCoalescingQueue::do_work")
    if not f:
        return False
    lk_core = P.call_points(f, r"Mutex.*::lock$", arg_pred=K.recv_is_field("core"))
    lk_state = P.call_points(f, r"Mutex.*::lock$", arg_pred=K.recv_is_field("state"))
    dw = P.field_writes(f, r"ConcurrentState$", "doing_work")
    if len(lk_core) != 1 or len(lk_state) != 2 or len(dw) != 2:
        return False
    t_true = [p for p in dw if f.blocks[p[0]].st[p[1]]["rv"]["a"]["c"].get("v") == 1]
    t_false = [p for p in dw if f.blocks[p[0]].st[p[1]]["rv"]["a"]["c"].get("v") == 0]
    if not t_true or not t_false:
        return False
    # (a) doing_work = true precedes core.lock(); and core.lock() is reached only when the loop saw doing_work == false
    if P.order(f, t_true, lk_core):
        return False
    gates = [1 for bb, lab, ss in K.guards(f, lk_core[0]) if any(s["k"] == "field" and s["f"] == "doing_work" for s in ss) and lab == "sw:0"]
    if not gates:
        return False
    # (b) the state.lock() taken under core is followed by doing_work = false
    second = [p for p in lk_state if not P.order(f, lk_core, [p])]
    return bool(second) and P.reach(f, P.after(f, second[0]), P.return_points(f), avoid=set(t_false)) is None


def c201(ctx):
    R = "C20.1"
    ctx.declare(R, "no two locks are ever taken in both orders")
    lf = L.LockFacts(ctx.prog, CRATES)
    ctx._lockfacts = lf
    edges = lf.order_edges()
    n_sites = sum(len(v) for v in lf.direct_sites.values())
    ctx.floor(R, "lock acquisition sites", n_sites, 60)
    ctx.floor(R, "lock-order edges", len(edges), 20)
    cyc = L.find_cycles(edges)
    for c in cyc:
        if set(c) == {"WorkCoalescingQueue.state", "WorkCoalescingQueue.core"}:
            ok = gated_pair_ok(ctx, R)
            if ok:
                ctx.exception(R, "sync42::work_coalescing_queue::WorkCoalescingQueue::do_work", "cycle state<->core",
                              "core is taken under state only while doing_work == false and state under core only while doing_work == true (gate checked)")
                ctx.ok(R, "sync42::work_coalescing_queue::WorkCoalescingQueue::do_work", "state<->core inversion is gated by the doing_work flag")
                continue
        a, b = c[0], c[1 % len(c)]
        w1 = edges.get((a, b), [("?", "?", "?")])[0]
        w2 = edges.get((c[-1], c[0]), [("?", "?", "?")])[0]
        ctx.violate(R, w1[0], "cycle " + "->".join(sorted(c)),
                    "lock-order cycle %s: %s acquires %s at %s (via %s); the closing edge %s -> %s is at %s in %s (via %s)"
                    % (" -> ".join(c + [c[0]]), a, b, w1[1], w1[2], c[-1], c[0], w2[1], w2[0], w2[2]))
    for (a, b), w in sorted(edges.items()):
        if a == b:
            ctx.violate(R, w[0][0], "self " + a, "%s is acquired while already held at %s (via %s)" % (a, w[0][1], w[0][2]))
    ctx.ok(R, "workspace", "lock-order graph: %d locks, %d edges, %d cycles examined" % (len({x for e in edges for x in e}), len(edges), len(cyc)))
    # the two store-level locks never nest in the wrong direction
    for (a, b) in edges:
        if a in ("LsmTree.compaction", "LsmTree.version", "LsmTree.mani") and b in ("KeyValueStore.state", "KeyValueStore.memtable_mutex"):
            w = edges[(a, b)][0]
            ctx.violate(R, w[0], "tree->kvs " + a + "->" + b, "a tree lock is held while taking a store lock at %s" % w[1])


def wait_wrappers(ctx):
    """Functions that take a guard, wait on a condvar on every path and return the guard: their callers are the wait sites."""
    out = set()
    for f in ctx.prog.fns.values():
        if f.crate not in CRATES:
            continue
        if not any(P.is_guard_ty(f.locals[i]) for i in range(1, f.argc + 1)):
            continue
        if not f.locals[0].startswith("std::sync::") and "MutexGuard" not in f.locals[0]:
            continue
        w = P.call_points(f, L.WAIT_CALL) + [p for p in P.call_points(f, r"::naked_wait$")]
        if w and P.reach(f, P.ENTRY, P.return_points(f), avoid=set(w)) is None and not any(P.reach(f, P.after(f, p), [p]) for p in w):
            out.add(f.key)
    return out


def c202(ctx):
    R = "C20.2"
    ctx.declare(R, "waits re-check their predicate; notifications cannot be lost; nobody sleeps holding a lock its waker needs")
    lf = getattr(ctx, "_lockfacts", None) or L.LockFacts(ctx.prog, CRATES)
    wrappers = wait_wrappers(ctx)
    n = 0
    for f in sorted(ctx.prog.fns.values(), key=lambda f: f.key):
        if f.crate not in CRATES or f.key in wrappers:
            continue
        sites = [(p, "Condvar::wait") for p, _c in lf.waits.get(f.key, ())]
        for b, t in f.calls():
            if any(k in wrappers for k in ctx.prog.targets(t)):
                sites.append((P.term_pt(f, b.idx), callee_skey(t)))
        if not sites:
            continue
        h = P.held(ctx.prog, f)
        for pt, what in sites:
            n += 1
            t = P.term_at(f, pt)
            passed = [a["pl"]["l"] for a in t["args"] if a.get("k") == "move" and not a["pl"]["p"] and a["pl"]["l"] in h.guards]
            lock = h.lock_id_of_local(passed[0]) if passed else None
            # W1: the wait is on a cycle that stays inside the critical section (no release / re-acquisition of that lock)
            rel = guard_release_points(ctx, f, lock) if lock else []
            relock = [p for p, lid in lf.direct_sites.get(f.key, ()) if lid == lock]
            cyc = P.reach(f, P.after(f, pt), [pt], avoid=set(rel) | set(relock))
            ctx.check(R, f, "wait-in-loop", cyc is not None, "%s at %s is in a loop that re-checks its predicate under the same lock" % (P.short(what), P.pt_loc(f, pt)),
                      "the wait is not inside a predicate loop within one critical section (a wake-up without the condition, or a spurious one, is taken as success)", pt=pt)
    ctx.floor(R, "wait sites", n, 7)
    # W2: notify discipline — pair each condvar with the mutex its waiters hold
    pair = {}
    for k, ws in lf.waits.items():
        f = ctx.prog.fns[k]
        h = P.held(ctx.prog, f)
        for pt, c in ws:
            t = P.term_at(f, pt)
            for a in t["args"][1:]:
                if a.get("k") == "move" and a["pl"]["l"] in h.guards:
                    pair.setdefault(c, set()).add(h.lock_id_of_local(a["pl"]["l"]))
    # waiter condvars are waited on with the *caller's* mutex (naked_wait): pair per using type
    caller_mutex = {}
    for f in ctx.prog.fns.values():
        if f.crate not in CRATES:
            continue
        nw = [p for p in P.call_points(f, r"wait_list::WaitGuard::(naked_wait|wait_for_store)$")]
        if nw:
            h = P.held(ctx.prog, f)
            for p in nw:
                for a in P.term_at(f, p)["args"]:
                    if a.get("k") == "move" and a["pl"]["l"] in h.guards:
                        caller_mutex.setdefault(f.impl_self or f.skey, set()).add(h.lock_id_of_local(a["pl"]["l"]))
    m = 0
    for k, ns in sorted(lf.notifies.items()):
        f = ctx.prog.fns[k]
        if f.skey.startswith("sync42::wait_list::Waiter::") or f.skey.startswith("sync42::wait_list::WaitGuard::notify"):
            continue   # per-waiter condvar: discipline is checked at the users of notify_head / store below
        h = P.held(ctx.prog, f)
        for pt, c in ns:
            locks = {x for x in pair.get(c, set()) if not x.startswith("guard<")}
            if not locks:
                if c == "KeyValueStore.cnd_memtable_rolled_over":
                    ctx.ok(R, f, "cnd_memtable_rolled_over has no waiters (notification only)", [pt])
                    continue
                if c == "Waiter.cond":
                    # notify_head: under WaitList.state (C18.2); lost-wake-up freedom is the caller's M discipline below
                    continue
                ctx.violate(R, f, "notify " + c, "condvar %s is notified but no wait on it was found (cannot pair it with a mutex)" % c, pt=pt)
                continue
            m += 1
            ok = False
            for lk in locks:
                if lk in h.locks_at(pt, must=True):
                    ok = True
                else:
                    acq = [p for p, lid in lf.direct_sites.get(k, ()) if lid == lk]
                    rel = guard_release_points(ctx, f, lk)
                    if acq and rel and not P.order(f, acq, [pt]):
                        ok = True
            ctx.check(R, f, "notify " + c, ok, "notification of %s is sent with %s held or after a completed critical section of it" % (c, sorted(locks)),
                      "notification of %s can race with a waiter's predicate check (neither under %s nor after a critical section of it)" % (c, sorted(locks)), pt=pt)
    ctx.floor(R, "paired notify sites", m, 5)
    # notify_head users: with the caller's mutex held, or after a completed critical section of it
    for f in sorted(ctx.prog.fns.values(), key=lambda f: f.key):
        if f.crate not in CRATES:
            continue
        nh = P.call_points(f, r"wait_list::WaitList::notify_head$")
        if not nh:
            continue
        locks = caller_mutex.get(f.impl_self or f.skey, set())
        if not locks:
            continue
        h = P.held(ctx.prog, f)
        for pt in nh:
            ok = False
            for lk in locks:
                if lk in h.locks_at(pt, must=True):
                    ok = True
                else:
                    acq = [p for p, lid in lf.direct_sites.get(f.key, ()) if lid == lk]
                    if acq and not P.order(f, acq, [pt]):
                        ok = True
            ctx.check(R, f, "notify_head", ok, "notify_head runs with %s held or after a completed critical section of it" % sorted(locks),
                      "notify_head can race with the next head's is_head() check (lost wake-up)", pt=pt)
    # (lock held, condvar) table
    # positive instance for the HELD analysis over RwLock guards: the manifest edit of an ingest runs with LsmTree.mani held
    fi = ctx.fn(R, TREE + "apply_manifest_ingest")
    if fi:
        ap = ctx.calls(R, fi, r"mani::Manifest::apply$")
        hh = P.held(ctx.prog, fi)
        for pt in ap:
            ctx.check(R, fi, "held:rwlock-guard", "LsmTree.mani" in hh.locks_at(pt, must=False), "Manifest::apply runs with the LsmTree.mani write guard held (RwLock guards are tracked)",
                      "the HELD analysis does not see the RwLock guard of LsmTree.mani at Manifest::apply: lock rules would pass vacuously", pt=pt)
    ww = lf.waits_while_holding()
    seen = set()
    for (lk, c), w in sorted(ww.items()):
        if lk.startswith("(passed)"):
            continue
        if lk.startswith("guard<"):
            continue   # generic helper taking the caller's guard; accounted at the caller
        seen.add((lk, c))
        why = WAIT_TABLE.get((lk, c))
        if (lk, c) in WAIT_TABLE and why:
            ctx.exception(R, w[0][0], "wait %s holding %s" % (c, lk), why)
            ctx.ok(R, w[0][0], "may wait on %s while holding %s (triaged: %s)" % (c, lk, why[:60]))
        else:
            ctx.violate(R, w[0][0], "wait %s holding %s" % (c, lk),
                        "%s may block on %s while holding %s (at %s via %s): not in the triaged table" % (w[0][0], c, lk, w[0][1], w[0][2]))


def c203(ctx):
    R = "C20.3"
    ctx.declare(R, "every state change that a sleeper waits for is announced")
    for name, cv in (("apply_manifest_ingest", "compact"), ("apply_manifest_compaction", "stall"), ("apply_moving_compaction", "stall")):
        f = ctx.fn(R, TREE + name)
        if not f:
            continue
        iv = ctx.calls(R, f, TREE + "install_version$")
        no = ctx.calls(R, f, r"Condvar::notify_all$", arg_pred=K.recv_is_field(cv), what="%s.notify_all" % cv)
        ctx.order_chain(R, f, [("install_version", iv), ("%s.notify_all" % cv, no)])
        ctx.must_pass(R, f, "%s.notify_all" % cv, no)
    f = ctx.fn(R, KVS + "rollover_memtable")
    if f:
        wt = P.field_writes(f, r"KeyValueStoreState$", "imm_trigger")
        no = ctx.calls(R, f, r"Condvar::notify_(one|all)$", arg_pred=K.recv_is_field("cnd_needs_memtable_flush"), what="cnd_needs_memtable_flush.notify")
        ctx.order_chain(R, f, [("imm_trigger = max(..)", wt), ("cnd_needs_memtable_flush.notify", no)])
        ctx.must_pass(R, f, "cnd_needs_memtable_flush.notify", no, goals=P.return_points(f))
    writers = set()
    for g in ctx.prog.fns.values():
        if g.crate == "lsmtk" and P.field_writes(g, r"KeyValueStoreState$", "imm_trigger"):
            writers.add(g.skey)
    ctx.check(R, "lsmtk::kvs", "imm_trigger-writers", writers == {KVS + "rollover_memtable", KVS + "_memtable_thread"},
              "imm_trigger is written only by rollover_memtable and the flush thread", "imm_trigger is written by %s" % sorted(writers))
    # the ingest stall loop re-reads the version after every wake-up
    f = ctx.fn(R, TREE + "apply_manifest_ingest")
    if f:
        w = ctx.calls(R, f, r"Condvar::wait$", arg_pred=K.recv_is_field("stall"))
        ts = P.call_points(f, TREE + "take_snapshot$")
        for pt in w:
            p = P.reach(f, P.after(f, pt), P.call_points(f, r"lsmtk::tree::Version::should_stall_ingest$"), avoid=set(ts))
            ctx.check(R, f, "stall-recheck", p is None, "after a wake-up the stall predicate is evaluated on a fresh snapshot",
                      "the stall loop re-evaluates its predicate on the stale version (would never see the relieving compaction)", pt=pt, path=p)
    f = ctx.fn(R, TREE + "compaction_thread")
    if f:
        w = ctx.calls(R, f, r"Condvar::wait$", arg_pred=K.recv_is_field("compact"))
        ts = P.call_points(f, TREE + "take_snapshot$")
        for pt in w:
            p = P.reach(f, P.after(f, pt), P.call_points(f, r"lsmtk::tree::Version::next_compaction$"), avoid=set(ts))
            ctx.check(R, f, "compact-recheck", p is None, "after a wake-up the next compaction is chosen from a fresh snapshot",
                      "the compaction thread re-polls a stale version after waking", pt=pt, path=p)


def c203_relief(ctx):
    R = "C20.3"
    # a version that takes files out of a level (every install_version except the ingest's) is announced on `stall` before the thread
    # that installed it can go to sleep or hand control back: the obligation follows the call graph, so an install moved into a helper
    # that leaves the notification to its caller is still checked at that caller
    fns = [g for g in ctx.prog.fns.values() if g.crate == "lsmtk" and g.skey.startswith("lsmtk::tree::") and g.kind != "Closure"]

    def notifies(g):
        return [p_ for p_ in P.call_points(g, r"Condvar::notify_(all|one)$") if "stall" in K.arg_field_names(g, p_, 0)]
    relief = {}
    for g in fns:
        if P.call_points(g, r"lsmtk::tree::Version::ingest$"):
            continue       # the version an ingest installs adds a file to level 0: nothing a stalled ingest waits for
        pts = P.call_points(g, TREE + "install_version$")
        if pts:
            relief[g.key] = list(pts)
    ctx.floor(R, "functions that install a compaction's version", len(relief), 2)
    pending = set()
    changed = True
    while changed:
        changed = False
        for g in fns:
            if g.key in pending:
                continue
            starts = list(relief.get(g.key, []))
            starts += [P.term_pt(g, b.idx) for b, t in g.calls() if any(k_ in pending for k_ in ctx.prog.targets(t))]
            if starts and P.reach(g, [a for p_ in starts for a in P.after(g, p_)], P.return_points(g), avoid=set(notifies(g))) is not None:
                pending.add(g.key)
                changed = True
    callers = {}
    for g in fns:
        for b, t in g.calls():
            for k_ in ctx.prog.targets(t):
                callers.setdefault(k_, set()).add(g.key)
    for g in sorted(fns, key=lambda g: g.skey):
        starts = list(relief.get(g.key, []))
        starts += [P.term_pt(g, b.idx) for b, t in g.calls() if any(k_ in pending for k_ in ctx.prog.targets(t))]
        if not starts:
            continue
        waits = P.call_points(g, r"Condvar::wait(_while|_timeout)?$")
        q = P.reach(g, [a for p_ in starts for a in P.after(g, p_)], waits, avoid=set(notifies(g))) if waits else None
        ctx.check(R, g, "relief-announced-before-sleep", q is None, "%s never goes to sleep between installing a compaction's version and notifying `stall`" % g.skey.rsplit("::", 1)[-1],
                  "%s can wait on a condition variable after a compaction's version was installed and before `stall` is notified: an ingest stalled on a "
                  "full level 0 is not told that it was relieved, and if nothing else is left to compact nobody ever tells it" % g.skey,
                  pt=q[-1][1] if q and isinstance(q[-1], tuple) else None, path=q)
        if g.key in pending and (g.pub or not callers.get(g.key)):
            ctx.violate(R, g, "relief-announced-before-return", "%s can return with a compaction's version installed and `stall` not notified, and no caller "
                        "inside the tree module takes the notification over" % g.skey)
        elif g.key not in pending:
            ctx.ok(R, g, "%s announces on `stall` every compaction version it installed before it returns" % g.skey.rsplit("::", 1)[-1])


OPT_COMPACTION = re.compile(r"^core::option::Option<lsmtk::tree::Compaction>$")


def c203_departures(ctx):
    R = "C20.3"
    # every way out of a function that linked into a wait list hands the head position on: a waiter sleeps until it is notified, and
    # only a departing holder notifies -- an early error return that merely drops its guard unlinks without waking the new head
    n = 0
    for f in sorted(ctx.prog.fns.values(), key=lambda f: f.key):
        if f.crate not in ("lsmtk", "sst", "sync42") or f.skey.startswith("sync42::wait_list::"):
            continue
        links = P.call_points(f, r"sync42::wait_list::WaitList::link$")
        if not links:
            continue
        n += 1
        NH = r"sync42::wait_list::WaitList::notify_head$"
        nh = P.call_points(f, NH)
        # a helper of the same crate all of whose paths notify counts (`return self.abandon_write(guard, err)`); calls into other
        # crates do not -- ConcurrentLogBuilder::append notifies the head of the *log's* queue, not of this list
        for b_, t_ in f.calls():
            for k_ in ctx.prog.targets(t_):
                g_ = ctx.prog.fns.get(k_)
                if g_ is not None and g_.crate == f.crate and g_ is not f:
                    gn = P.call_points(g_, NH)
                    if gn and P.reach(g_, P.ENTRY, P.return_points(g_), avoid=set(gn)) is None:
                        nh.append(P.term_pt(f, b_.idx))
        q = P.reach(f, [a for l_ in links for a in P.after(f, l_)], P.return_points(f), avoid=set(nh))
        ctx.check(R, f, "every-departure-notifies", q is None and bool(nh),
                  "every exit of %s after WaitList::link passes notify_head" % f.skey.rsplit("::", 1)[-1],
                  "%s can return after linking into the wait list without calling notify_head (an early error return drops the guard, which unlinks "
                  "but wakes no one): the waiter that becomes head sleeps until some later departure happens to notify it -- with no other writer, "
                  "for ever" % f.skey, pt=q[-1][1] if q and isinstance(q[-1], tuple) else None, path=q)
    ctx.floor(R, "functions that link into a wait list", n, 3)


def c205(ctx):
    R = "C20.5"
    ctx.declare(R, "a compaction selected as mandatory is emitted whatever its score; only the optional candidate is gated on its score")
    f = ctx.fn(R, "lsmtk::tree::Version::next_compaction")
    if not f:
        return
    ctx.calls(R, f, r"lsmtk::tree::Version::should_perform_mandatory_compaction$", floor=2)
    # accumulator slots: Option<Compaction> locals that start as None and are later overwritten
    stores = {}
    for b in f.blocks:
        for j, st in enumerate(b.st):
            if st["s"] == "=" and not st["lhs"]["p"] and OPT_COMPACTION.match(f.locals[st["lhs"]["l"]]) and st["lhs"]["l"] != 0:
                none = st["rv"]["r"] == "agg" and st["rv"].get("variant") in (None, "None") and not st["rv"].get("ops")
                stores.setdefault(st["lhs"]["l"], []).append(((b.idx, j), none))
    slots = {l: [pt for pt, none in v if not none] for l, v in stores.items() if any(n for _p, n in v) and any(not n for _p, n in v)}
    mand = {l for l, pts in slots.items() if all(true_edge_guard(f, pt, r"Version::should_perform_mandatory_compaction$") for pt in pts)}
    other = set(slots) - mand
    ctx.check(R, f, "mandatory-slot", len(mand) == 1 and len(other) >= 1,
              "one accumulator is written only where should_perform_mandatory_compaction() holds (the mandatory choice); %d other accumulator(s) hold optional candidates" % len(other),
              "cannot identify the mandatory accumulator in next_compaction (slots written only under should_perform_mandatory_compaction: %d, others: %d)" % (len(mand), len(other)))
    if len(mand) != 1:
        return
    emits = ctx.calls(R, f, r"lsmtk::tree::Version::emit_compaction$", floor=2)
    m_emits = []
    for pt in emits:
        _s, locs = P.value_slice(f, P.term_at(f, pt)["args"][2])
        if locs & mand and not locs & other:
            cg = K.compare_guards(f, pt)
            ctx.check(R, f, "mandatory-ungated", not cg, "the mandatory compaction is emitted under no score comparison",
                      "emitting the mandatory compaction is conditional on a comparison (%s): when level 0 is over threshold the relieving compaction can be withheld and ingest stalls for ever"
                      % ", ".join(c["op"] for c in cg), pt=pt)
            if not cg:
                m_emits.append(pt)
    # once chosen, the mandatory compaction reaches emit_compaction on every path (the None edge of its own discriminant is infeasible)
    avoid_edges = set()
    for b in P.switch_blocks(f):
        for s in P.switch_cond_sources(f, b.idx):
            if s["k"] == "discr":
                _s, locs = P.value_slice(f, {"k": "copy", "pl": s["st"]["rv"]["pl"]})
                if locs & mand and not locs & other:
                    avoid_edges.add((b.idx, "sw:0"))
                    if {v for v, _t in b.term.get("arms", ())} >= {0, 1}:
                        avoid_edges.add((b.idx, "otherwise"))   # an Option has no third discriminant
    for l in mand:
        for pt in slots[l]:
            ctx.must_pass(R, f, "emit_compaction(mandatory)", m_emits, goals=P.return_points(f), starts=P.after(f, pt),
                          avoid_edges=avoid_edges)


def c202_queued(ctx):
    R = "C20.2"
    # a writer holds a place in the store's wait list from link() until it has published: whoever is queued behind it -- the flush thread
    # links itself at the tail and waits to become head before it can finish a rollover -- cannot pass.  So between link() and the hand-over
    # a writer sleeps on nothing but the list itself; waiting there for the flush thread (for `imm` to clear, for a rollover to finish)
    # closes a cycle: the writer waits for the flush thread, the flush thread for the writer.
    KVS = "lsmtk::kvs::KeyValueStore::"
    f = ctx.fn(R, KVS + "write")
    if not f:
        return
    links = P.call_points(f, r"sync42::wait_list::WaitList::link$")
    ctx.floor(R, "write: wait-list link", len(links), 1)
    WAIT = r"std::sync::(poison::)?(condvar::)?Condvar::(wait|wait_while|wait_timeout|wait_timeout_while)$"
    bad = []
    for pt in P.call_points(f, WAIT):
        if any(P.reach(f, P.after(f, l_), [pt]) is not None for l_ in links):
            bad.append((f, pt))
    # helpers the writer calls while queued (it hands them the state guard)
    for b, t in f.calls():
        pt = P.term_pt(f, b.idx)
        if not any(P.reach(f, P.after(f, l_), [pt]) is not None for l_ in links):
            continue
        for k_ in ctx.prog.targets(t):
            g = ctx.prog.fns.get(k_)
            if g is None or g.crate != "lsmtk" or not g.skey.startswith("lsmtk::kvs::"):
                continue
            for q in P.call_points(g, WAIT):
                bad.append((g, q))
    if not bad:
        ctx.ok(R, f, "a queued writer sleeps only on the wait list")
    for g, pt in bad:
        ctx.check(R, g, "no-sleep-while-queued", False, "",
                  "%s waits on a condition variable while the writer holds a place in the wait list: the flush thread queues behind that place and must "
                  "become head before it can finish the rollover the writer is waiting for -- neither ever wakes, and every later writer queues behind them" % g.skey, pt=pt)


def c204(ctx):
    R = "C20.4"
    ctx.declare(R, "compaction claims are released on failure and removed on success")
    f = ctx.fn(R, TREE + "compaction_thread")
    if f:
        pc = ctx.calls(R, f, TREE + "perform_compaction$")
        rc = ctx.calls(R, f, r"lsmtk::tree::Version::release_compaction$")
        errs = [p for p in P.error_points(f)]
        ctx.floor(R, "error exits of compaction_thread", len(errs), 1)
        for e in errs:
            bad = P.order(f, rc, [e])
            ctx.check(R, f, "release-on-error", not bad, "the error exit is preceded by release_compaction", "a failed compaction keeps its claim (its inputs can never be compacted again)", pt=e)
        for pt in rc:
            t = P.term_at(f, pt)
            ctx.check(R, f, "release-same", any(c.endswith("Version::next_compaction") for c in P.origin_calls(f, t["args"][1])), "the claim released is the one that failed", "release_compaction is given a different claim", pt=pt)
        # the claim handed to perform_compaction is the one chosen under the lock
        for pt in pc:
            ctx.check(R, f, "perform-chosen", any(c.endswith("Version::next_compaction") for c in P.origin_calls(f, P.term_at(f, pt)["args"][1])),
                      "perform_compaction runs the claim returned by next_compaction", "perform_compaction is not given next_compaction's claim", pt=pt)
        nc = ctx.calls(R, f, r"lsmtk::tree::Version::next_compaction$")
        held_at(ctx, R, f, nc, "next_compaction (selection)", lock="LsmTree.compaction")
    # a chosen compaction ends either applied (which removes its claim) or in an error (which compaction_thread turns into a release):
    # no success return of the functions that carry it out without the step that consumes the claim
    for name, done in (("perform_compaction", r"apply_moving_compaction$|perform_garbage_collection$|compaction_finish$"),
                       ("perform_garbage_collection", r"compaction_finish$"),
                       ("compaction_finish", r"apply_manifest_compaction$"),
                       ("apply_manifest_compaction", r"lsmtk::tree::Version::apply_compaction$"),
                       ("apply_moving_compaction", r"lsmtk::tree::Version::apply_compaction$")):
        f = ctx.fn(R, TREE + name)
        if not f:
            continue
        pts = P.call_points(f, TREE + "(?:%s)" % done if not done.startswith("lsmtk::") else done)
        ctx.floor(R, "%s: steps that consume the claim" % name, len(pts), 1)
        # an arm that matched `Err(_)` of some Result is an error path, whatever it returns (`return err.with_debug_field(..)`)
        err_edges = set()
        for b in P.switch_blocks(f):
            for x in K.cond_sources(f, b.idx):
                if x["k"] == "discr":
                    pl = x["st"]["rv"].get("pl") or {}
                    ty = f.locals[pl["l"]] if not pl.get("p") else ""
                    if ty.startswith("core::result::Result<") or ty.startswith("&core::result::Result<"):
                        err_edges.add((b.idx, "sw:1"))
        q = P.must_pass(f, pts, avoid_edges=err_edges)
        if q is None:
            # ... whatever it returns -- except an explicit Ok(..): an Err arm that ends in `return Ok(())` swallowed the failure, and the
            # claim with it
            q = P.reach(f, P.ENTRY, P.ok_points(f), avoid=set(pts) | set(P.error_points(f)))
        ctx.check(R, f, "claim-applied-or-error", q is None, "every success return of %s has applied the compaction" % name,
                  "%s can return Ok without having applied the compaction it was given: the claim stays in `ongoing` for ever (only apply_compaction and "
                  "the error path of compaction_thread remove it), every candidate that overlaps it is refused, and a level-0 claim left behind ends in "
                  "the ingest stall" % name, path=q)
    for name in ("apply_compaction", "release_compaction"):
        f = ctx.fn(R, "lsmtk::tree::Version::" + name)
        if f:
            sr = ctx.calls(R, f, r"alloc::vec::Vec.*::swap_remove$")
            held_at(ctx, R, f, sr, "claim removal", lock="Version.ongoing")
            if name == "apply_compaction":
                inner = ctx.calls(R, f, r"lsmtk::tree::Version::apply_compaction_inner$")
                ctx.order_chain(R, f, [("ongoing.swap_remove(claim)", sr), ("apply_compaction_inner", inner)])
            for pt in sr:
                g = K.guarded_by_call(f, pt, r"Arc.*::ptr_eq$", label="sw:1")
                if g is None:
                    # `list.iter().position(|c| Arc::ptr_eq(c, &claim))`: the index removed is the one the pointer-equality closure chose
                    for s_ in P.origins(f, P.term_at(f, pt)["args"][1]):
                        if s_["k"] == "call" and re.search(r"Iterator>?::position$", s_["callee"]):
                            cl = [c for c in ctx.prog.closures_of(f) if P.call_points(c, r"Arc.*::ptr_eq$")]
                            if cl and all(len(P.call_points(c, r"Arc.*::ptr_eq$")) >= 1 for c in cl):
                                g = ("position", cl[0].key)
                ctx.check(R, f, "removes-own", g is not None, "the removed claim is the one that is pointer-equal to the argument", "a claim other than the given one can be removed", pt=pt)
    pushers = set()
    for g in ctx.prog.fns.values():
        if g.crate != "lsmtk":
            continue
        for pt in P.call_points(g, r"alloc::vec::Vec.*::push$"):
            if "ongoing" in K.arg_field_names(g, pt, 0):
                pushers.add(g.skey)
    ctx.check(R, "lsmtk::tree", "claim-adders", pushers == {"lsmtk::tree::Version::emit_compaction"}, "only emit_compaction adds to Version.ongoing",
              "Version.ongoing is pushed to by %s" % sorted(pushers))
    f = ctx.fn(R, "lsmtk::tree::Version::emit_compaction")
    if f:
        callers = K.callers_of(ctx, r"lsmtk::tree::Version::emit_compaction$")
        ok = all(sk.startswith("lsmtk::tree::Version::") for sk in callers)
        ctx.check(R, f, "emit-callers", ok and len(callers) >= 1, "claims are emitted only by Version's selection functions: %s" % sorted(callers),
                  "emit_compaction is called from %s" % sorted(callers))


# ------------------------------------------------------------------------------------------------
# C20.6 a stalled ingest is a mandated compaction: the two predicates compare the same quantities

def deep_sig(f, op, depth=0):
    """Name-free description of a value: K.sig tokens, descending into the arguments of the calls that produce it."""
    toks = set()
    for t_ in K.sig(f, op):
        toks.add(t_)
    if depth < 4:
        for s_ in P.value_slice(f, op)[0]:
            if s_["k"] == "call" and not P.TRANSPARENT.search(s_["callee"]) and not P.WRAPPERS.search(s_["callee"]):
                for a_ in s_["t"]["args"]:
                    for t2 in deep_sig(f, a_, depth + 1):
                        toks.add(t2)
            elif s_["k"] == "bin" and s_["op"] not in K.CMP_OPS:
                toks.add("op:" + s_["op"].replace("WithOverflow", ""))
    return toks


def predicate_atoms(f):
    """Comparisons written in the body of a boolean function: [(op, quantity signature, threshold field, point)] where the threshold is
    the side that reads an options field."""
    out = []
    for b in f.blocks:
        for i, st in enumerate(b.st):
            if st["s"] != "=" or st["rv"]["r"] != "bin" or st["rv"]["op"] not in K.CMP_OPS or st["sp"][3]:
                continue
            sa, sb = deep_sig(f, st["rv"]["a"]), deep_sig(f, st["rv"]["b"])
            op = st["rv"]["op"]
            if "f:options" in sa and "f:options" not in sb:
                sa, sb = sb, sa
                op = {"Lt": "Gt", "Le": "Ge", "Gt": "Lt", "Ge": "Le"}.get(op, op)
            thr = sorted(t_ for t_ in sb if t_.startswith("f:") and t_ != "f:options")
            # x + 1 > t  is  x >= t  (and x + 1 <= t is x < t) for unsigned counts
            if {"op:Add", "k:1"} <= sa and op in ("Gt", "Le"):
                sa = sa - {"op:Add", "k:1"}
                op = "Ge" if op == "Gt" else "Lt"
            out.append((op, frozenset(sa), tuple(thr), (b.idx, i)))
    return out


def c206(ctx):
    R = "C20.6"
    ctx.declare(R, "an ingest is stalled only on a condition that also makes a compaction mandatory")
    st = ctx.fn(R, "lsmtk::tree::Version::should_stall_ingest")
    ma = ctx.fn(R, "lsmtk::tree::Version::should_perform_mandatory_compaction")
    if not st or not ma:
        return
    ctx.check(R, st, "reads-only-the-version", st.argc == 1, "the stall predicate is a function of the version alone",
              "should_stall_ingest takes %d arguments: a wait on `stall` is ended only by a compaction, and a compaction changes nothing but the "
              "version -- a term that does not come from the version can keep the predicate true on an empty level 0, where no compaction is possible" % st.argc)
    sa = predicate_atoms(st)
    mm = predicate_atoms(ma)
    ctx.floor(R, "comparisons in should_stall_ingest", len(sa), 2)
    ctx.floor(R, "comparisons in should_perform_mandatory_compaction", len(mm), 2)
    for op, q, thr, pt in sa:
        # `q > s` implies `q >= m` and `q > m` whenever s >= m; `q >= s` implies only `q >= m`
        twin = [m for m in mm if m[1] == q and (m[0] == op or (op == "Gt" and m[0] == "Ge"))]
        names = ",".join(t_[2:] for t_ in thr) or "?"
        ctx.check(R, st, "stall-implies-mandatory:" + names, bool(twin) and "f:options" not in q and bool(thr),
                  "the stall test against %s compares the quantity the mandatory test against %s compares, with the same operator" %
                  (names, ",".join(t_[2:] for t_ in twin[0][2]) if twin else "-"),
                  "should_stall_ingest compares %s %s %s, which no comparison of should_perform_mandatory_compaction matches: an ingest can be held back "
                  "while no compaction is mandatory, and then nothing ever relieves it" % (sorted(q), op, names), pt=pt)
    # the matching only helps if a stalled level 0 is past the mandatory thresholds: the default stall thresholds are not below
    # the default mandatory ones (constants read from the Default impl's aggregate)
    d = ctx.fn(R, "<lsmtk::LsmtkOptions as core::default::Default>::default")
    if d:
        vals = {}
        for b in d.blocks:
            for st_ in b.st:
                if st_["s"] == "=" and st_["rv"]["r"] == "agg" and strip_generics(st_["rv"].get("adt", "")) == "lsmtk::LsmtkOptions" and "fields" in st_["rv"]:
                    for name, o in zip(st_["rv"]["fields"], st_["rv"]["ops"]):
                        cs = [c for c in P.origin_consts(d, o) if isinstance(c.get("v"), int)]
                        if len(cs) == 1:
                            vals[name] = cs[0]["v"]
                        for x in P.origins(d, o):
                            if x["k"] == "bin" and x["op"].startswith("Shl"):
                                a_, b_ = x["st"]["rv"]["a"], x["st"]["rv"]["b"]
                                if a_.get("k") == "const" and b_.get("k") == "const" and isinstance(a_["c"].get("v"), int) and isinstance(b_["c"].get("v"), int):
                                    vals[name] = a_["c"]["v"] << b_["c"]["v"]
        for kind in ("files", "bytes"):
            sv, mv = vals.get("l0_write_stall_threshold_" + kind), vals.get("l0_mandatory_compaction_threshold_" + kind)
            ctx.check(R, d, "default-thresholds-ordered:" + kind, sv is not None and mv is not None and sv >= mv,
                      "default l0_write_stall_threshold_%s (%s) >= l0_mandatory_compaction_threshold_%s (%s)" % (kind, sv, kind, mv),
                      "by default level 0 stalls ingest at %s %s but makes a compaction mandatory only at %s: an ingest can wait with nothing forcing a compaction" % (sv, kind, mv))
    f = ctx.fn(R, TREE + "apply_manifest_ingest")
    if f:
        ws = [p_ for p_ in P.call_points(f, r"Condvar::wait$") if "stall" in K.arg_field_names(f, p_, 0)]
        ctx.floor(R, "stall waits in apply_manifest_ingest", len(ws), 1)
        for w in ws:
            preds = set()
            for bb, lab, srcs in K.guards(f, w):
                for s_ in srcs:
                    if s_["k"] == "call" and s_["callee"].startswith("lsmtk::"):
                        preds.add(s_["callee"])
            ctx.check(R, f, "waits-on-the-stall-predicate", preds == {"lsmtk::tree::Version::should_stall_ingest"},
                      "the stall wait is conditioned on should_stall_ingest alone", "the stall wait is conditioned on %s" % sorted(preds), pt=w)


# ------------------------------------------------------------------------------------------------
# C20.7 a mandatory level-0 compaction is always selectable: option limits that end the search exempt level 0

def c207(ctx):
    R = "C20.7"
    ctx.declare(R, "no option limit can leave level 0 without a selectable compaction: every limit gate of find_best_compaction exempts lower_level == 0")
    f = ctx.fn(R, "lsmtk::tree::Version::find_best_compaction")
    if not f:
        return
    # loop head: the range iterator's next() that is on a cycle
    heads = [P.term_pt(f, b.idx) for b, t in f.calls() if re.search(r"::next$", callee_skey(t) or "") and
             P.reach(f, P.after(f, P.term_pt(f, b.idx)), [P.term_pt(f, b.idx)]) is not None]
    rets = P.return_points(f)
    # tests of `lower_level != 0` (parameter 3)
    lvl_edges = set()
    for b in P.switch_blocks(f):
        for s_ in P.switch_cond_sources(f, b.idx):
            if s_["k"] == "bin" and s_["op"] in ("Ne", "Eq"):
                rv = s_["st"]["rv"]
                pa = [x for x in P.origins(f, rv["a"]) if x["k"] == "param"]
                cb = rv["b"].get("k") == "const" and rv["b"]["c"].get("v") == 0
                if pa and pa[0]["i"] == 3 and cb:
                    negs = sum(1 for x in P.switch_cond_sources(f, b.idx) if x["k"] == "un" and x["op"] == "Not")
                    nonzero_true = (s_["op"] == "Ne") != bool(negs % 2)
                    lvl_edges.add((b.idx, "sw:1" if nonzero_true else "sw:0"))
    gates = []
    for b in P.switch_blocks(f):
        srcs = P.switch_cond_sources(f, b.idx)
        bins = [x for x in srcs if x["k"] == "bin" and x["op"] in ("Gt", "Ge", "Lt", "Le") and not x["st"]["sp"][3]]
        if len(bins) != 1:
            continue
        rv = bins[0]["st"]["rv"]
        sa, sb = K.sig(f, rv["a"]), K.sig(f, rv["b"])
        if ("f:options" in sa) == ("f:options" in sb):
            continue
        lim_left = "f:options" in sa
        lim = sorted(t_[2:] for t_ in (sa if lim_left else sb) if t_.startswith("f:") and t_ != "f:options")
        op = bins[0]["op"]
        exceeded_when_true = (op in ("Gt", "Ge")) != lim_left
        negs = sum(1 for x in srcs if x["k"] == "un" and x["op"] == "Not")
        if negs % 2:
            exceeded_when_true = not exceeded_when_true
        gates.append((b, "sw:1" if exceeded_when_true else "sw:0", ",".join(lim)))
    gate_terms = {P.term_pt(f, b.idx) for b, _l, _n in gates}
    n = 0
    for b, lab, name in gates:
        starts = [(s_, 0) for l_, s_ in b.succs if l_ == lab or (lab == "sw:1" and l_ == "otherwise")]
        others = gate_terms - {P.term_pt(f, b.idx)}
        ends_search = P.reach(f, starts, rets, avoid=set(heads) | others)
        if ends_search is None:
            continue
        n += 1
        q = P.reach(f, starts, rets, avoid=set(heads) | others, avoid_edges={(bb, l_) for bb, l_ in lvl_edges})
        ctx.check(R, f, "gate-exempts-level-0:" + name, q is None,
                  "exceeding %s ends the search only when lower_level != 0" % name,
                  "find_best_compaction gives up when %s is exceeded even for lower_level == 0: once level 0 together with the level-1 files it overlaps "
                  "is past the limit no level-0 compaction can be chosen, next_compaction has nothing mandatory to emit, and an ingest that waits on "
                  "`stall` is never relieved (the byte limit exempts level 0 for exactly this reason)" % name, pt=P.term_pt(f, b.idx), path=q)
    ctx.floor(R, "limit gates in find_best_compaction", n, 3)
