"""C13 — manifest: write/rollover protocol, reader atomicity, locking, who writes manifest files."""
import re

from blue import prim as P
from blue.facts import callee_skey, strip_generics
from . import common as K
from . import C02, C09

EXPLANATION = (
    "C13 structural clauses: the write/rollover protocol and append-only open (C02.3, C02.7 rules re-evaluated); the line CRC "
    "gate (C09.1 rule for ManifestIterator::next); (C13.1) the reader hands out an edit only on the equal edge of the "
    "transaction-separator comparison, end-of-file returns None (a partial edit is dropped), every other exit is an error; "
    "(C13.2) Manifest::open takes the lock file before reading and the Manifest owns the Lockfile; Lockfile::_lock holds the "
    "process-wide table mutex across the fcntl; (C13.3) only Manifest::{_apply, rollover} create, link, rename or remove "
    "manifest files, and the only other function naming fragment paths (lsmtk's list_mani_fragments) feeds the verifier's "
    "unlink; (C13.4) R-ERR + explicit-panic audit over mani.  ORDER/GUARDED/ORIGIN/who-may-call over resolved MIR.")
NOT_DECIDED = ("tolerance of every truncation and crash point; the accepted string alphabet (apply accepts \"\" and non-ASCII "
               "strings that a later open rejects: observation O1 in DESIGN.md, outside what these rules decide)")
ASSUMPTIONS = ["sync_data makes the appended bytes durable", "rename/hard_link are atomic", "fcntl(F_SETLK) locks are per process"]

M = "mani::Manifest::"
ITER_NEXT = "<mani::ManifestIterator as core::iter::traits::iterator::Iterator>::next"


def rules(ctx):
    C02.c023(ctx)
    c13_open_options(ctx)
    c13_crc(ctx)
    c131(ctx)
    c132(ctx)
    c133(ctx)
    c134(ctx)
    c135(ctx)
    c136(ctx)
    c137(ctx)
    c138(ctx)
    c139(ctx)
    c1310(ctx)


def st_is_none(g, pt):
    """the Ok(..) at pt carries None (`Ok(None)`: the lock was not taken)"""
    st = g.blocks[pt[0]].st[pt[1]]
    ops = st["rv"].get("ops") or []
    return bool(ops) and any(s_["k"] == "agg" and s_.get("variant") == "None" for s_ in P.origins(g, ops[0]))


def c13_open_options(ctx):
    R = "C02.7"
    f = ctx.fn(R, M + "_apply")
    if f:
        for pt in ctx.calls(R, f, r"std::fs::OpenOptions::open$"):
            ch = C02.open_option_chain(f, pt)
            ctx.check(R, f, "open-options", ch.get("append") == 1 and not ch.get("truncate"),
                      "the manifest is opened append-only (chain %s)" % ch, "the manifest is not opened append-only: %s" % ch, pt=pt)


def c13_crc(ctx):
    R = "C09.1"
    f = ctx.fn(R, ITER_NEXT)
    if f:
        eds = ctx.calls(R, f, r"mani::Edit::(add|rm|info)$", floor=3)
        for pt in eds:
            g = K.equal_edge_guard(f, pt, K.has("crc32c()"), K.has("from_str_radix()"))
            ctx.check(R, f, "crc-gate:line", g is not None, "Edit::%s is dominated by the equal edge of the line CRC comparison" % callee_skey(P.term_at(f, pt)).rsplit("::", 1)[-1],
                      "a manifest line is applied to the edit without its CRC having compared equal", pt=pt)
    # the writer prefixes every line with the CRC of exactly the line it writes
    # (wherever the line formatter is nested: _apply::to_crc_line today)
    ws = [g for g in ctx.prog.fns.values() if g.crate == "mani" and re.search(r"(^|::)to_crc_line$", g.skey)]
    w = ws[0] if len(ws) == 1 else ctx.fn(R, M + "_apply::to_crc_line")
    if w:
        cr = ctx.calls(R, w, r"^crc32c::crc32c$")
        ctx.must_pass(R, w, "crc32c(line)", cr, goals=P.return_points(w))


def ret_assignments(f):
    """All (point, description) that define the return place _0."""
    out = []
    for b in f.blocks:
        for i, st in enumerate(b.st):
            if st["s"] == "=" and st["lhs"]["l"] == 0 and not st["lhs"]["p"]:
                out.append(((b.idx, i), st["rv"]))
        t = b.term
        if t["t"] == "call" and t["dest"]["l"] == 0 and not t["dest"]["p"]:
            out.append((P.term_pt(f, b.idx), {"r": "call", "callee": callee_skey(t)}))
    return out


def c131(ctx):
    R = "C13.1"
    ctx.declare(R, "an edit is delivered only at its transaction separator; a trailing partial edit is dropped")
    f = ctx.fn(R, ITER_NEXT)
    if not f:
        return
    kinds = {"some_ok": [], "none": [], "some_err": [], "poison": [], "other": []}
    d = P.defs(f)
    for pt, rv in ret_assignments(f):
        if rv.get("r") == "call":
            ck_ = rv["callee"] or ""
            if ck_.endswith("ManifestIterator::poison"):
                kinds["poison"].append(pt)
            elif re.search(r"FromResidual.*::from_residual$", ck_) and f.locals[0].startswith("core::option::Option<"):
                kinds["none"].append(pt)        # `x?` on an Option in a function that returns Option: the None of x is handed on
            else:
                kinds["other"].append(pt)
        elif rv.get("r") == "agg" and rv.get("variant") == "None":
            kinds["none"].append(pt)
        elif rv.get("r") == "agg" and rv.get("variant") == "Some":
            inner = [s for s in P.origins(f, rv["ops"][0]) if s["k"] == "agg" and s.get("adt", "").endswith("result::Result")]
            vs = {s["variant"] for s in inner}
            if vs == {"Ok"}:
                kinds["some_ok"].append(pt)
            elif vs == {"Err"}:
                kinds["some_err"].append(pt)
            else:
                kinds["other"].append(pt)
        else:
            kinds["other"].append(pt)
    ctx.check(R, f, "exit-kinds", not kinds["other"] and kinds["some_ok"] and kinds["none"],
              "every exit is Some(Ok(edit)), None, Some(Err(..)) or self.poison(..): %s" % {k: len(v) for k, v in kinds.items()},
              "unexpected way of producing the iterator's result: %s" % kinds["other"])
    for pt in kinds["some_ok"]:
        g = None
        for bb, lab, srcs in K.guards(f, pt):
            for s in srcs:
                if s["k"] == "call" and re.search(r"PartialEq.*>::eq$|::eq$", s["callee"]) and lab != "sw:0":
                    names = set()
                    for a in s["t"]["args"]:
                        names |= K.src_names(f, a)
                    if "#TX_SEPARATOR" in names or any(n.startswith("#") and "TX_SEPARATOR" in n for n in names):
                        g = (bb, lab)
        ctx.check(R, f, "separator-gate", g is not None, "Some(Ok(edit)) is dominated by the equal edge of line == TX_SEPARATOR",
                  "an edit can be delivered without its transaction separator having been read", pt=pt)
    # the edit in progress is dropped only at the end of the input: None is answered on the exhaustion edge of the line iterator (or of a
    # read that returned 0 bytes), or because the iterator was closed earlier -- never because a line *looked* torn (nothing covers the
    # byte such a judgement would rest on)
    eof = set()
    for b in P.switch_blocks(f):
        srcs = K.cond_sources(f, b.idx)
        if any(x["k"] == "call" and re.search(r"Iterator>?::next$", x["callee"]) for x in srcs) and any(x["k"] == "discr" for x in srcs):
            eof.add((b.idx, "sw:0"))
        if any(x["k"] == "field" and x["f"] == "file" for x in srcs) and any(x["k"] == "discr" for x in srcs) and not any(x["k"] == "call" for x in srcs):
            eof.add((b.idx, "sw:0"))
        calls_ = [x["callee"] for x in srcs if x["k"] == "call"]
        if any(x["k"] == "field" and x["f"] == "file" for x in srcs) and any(x["k"] == "discr" for x in srcs) and calls_ and \
                all(re.search(r"Option::(as_mut|as_ref|as_deref_mut)$|Try>?::branch$", c_) for c_ in calls_) and any(c_.endswith("branch") for c_ in calls_):
            eof.add((b.idx, "sw:1"))        # `self.file.as_mut()?`: the Break edge hands on the None of the closed iterator
        d_ = b.term.get("discr") or {}
        dty = None
        if d_.get("k") in ("copy", "move"):
            pr = d_["pl"]["p"]
            dty = pr[-1].get("ty") if pr and isinstance(pr[-1], dict) else (f.locals[d_["pl"]["l"]] if not pr else None)
        if dty in ("usize", "u64") and \
                any(x["k"] == "call" and re.search(r"::(read_line|read_until|read)$", x["callee"]) for x in srcs) and \
                any(v == 0 for v, _t in b.term.get("arms", [])):
            eof.add((b.idx, "sw:0"))        # `Ok(0) => break`
        for x in srcs:
            if x["k"] == "bin" and x["op"] in ("Eq", "Ne") and any(y["k"] == "call" and re.search(r"::(read_line|read_until|read)$", y["callee"]) for o in (x["st"]["rv"]["a"], x["st"]["rv"]["b"]) for y in P.origins(f, o)) \
                    and any(o.get("k") == "const" and o["c"].get("v") == 0 for o in (x["st"]["rv"]["a"], x["st"]["rv"]["b"])):
                eof.add((b.idx, "sw:1" if x["op"] == "Eq" else "sw:0"))
    ctx.floor(R, "end-of-input edges in ManifestIterator::next", len(eof), 2)
    for pt in kinds["none"]:
        q = P.reach(f, P.ENTRY, [pt], avoid_edges=eof)
        ctx.check(R, f, "dropped-only-at-end-of-input", q is None, "None is answered only when the input is exhausted (or the iterator already closed)",
                  "ManifestIterator::next can answer None -- dropping the edit it was assembling -- before its input is exhausted: damage that merely "
                  "makes a line look unfinished silently removes a complete, acknowledged edit", pt=pt, path=q)
    # the writer ends every transaction with the separator, after all of its lines
    w = ctx.fn(R, M + "_apply")
    if w:
        seps = [pt for b, t in w.calls() for pt in [P.term_pt(w, b.idx)]
                if (callee_skey(t) or "").endswith("AddAssign>::add_assign") and
                any(c.get("named", "").endswith("TX_SEPARATOR") for c in P.origin_consts(w, t["args"][1]))]
        wr = P.call_points(w, r"std::io::Write::write_all$|as std::io::Write>::write_all$")
        ctx.check(R, w, "separator-written", bool(seps) and not P.order(w, seps, wr),
                  "TX_SEPARATOR is appended to the edit string before the single write_all",
                  "the transaction separator is not appended before the write")
        ctx.check(R, w, "single-write", len(wr) == 1, "one write_all per transaction (the whole edit in one append)",
                  "a transaction is written with %d write_all calls" % len(wr))


def c132_name_stays(ctx):
    R = "C13.2"
    # the lock is taken on an inode, exclusion is meant per path: the name must keep referring to the locked inode for as long as anybody can
    # be queued on it, so nothing ever unlinks or renames the lock file (a waiter that wakes up holding an unlinked inode excludes nobody)
    bad = []
    n = 0
    for f in sorted(ctx.prog.fns.values(), key=lambda f: f.key):
        if f.crate == "utilz" and f.skey.startswith("utilz::lockfile::"):
            n += 1
            for pt in P.call_points(f, r"^std::fs::(remove_file|rename|remove_dir|remove_dir_all)$|^libc::(unlink|unlinkat|rename|renameat)$"):
                bad.append((f, pt, "utilz::lockfile"))
        if f.crate in ("mani", "lsmtk"):
            for pt in P.call_points(f, r"^std::fs::(remove_file|rename|remove_dir_all)$"):
                t = P.term_at(f, pt)
                if any(c.endswith("mani::LOCKFILE") for a in t["args"] for c in P.origin_calls(f, a)):
                    bad.append((f, pt, "LOCKFILE(root)"))
    ctx.floor(R, "lock file functions", n, 4)
    if not bad:
        ctx.ok(R, "utilz::lockfile", "nothing unlinks or renames a lock file")
    for f, pt, what in bad:
        ctx.check(R, f, "lock-file-name-stays", False, "",
                  "%s removes or renames a lock file (%s): an opener already queued on the old inode wakes up holding a lock nobody else can see, and the "
                  "next opener creates and locks a fresh file -- two live handles on one manifest" % (f.skey, what), pt=pt)


def c132(ctx):
    R = "C13.2"
    ctx.declare(R, "the manifest directory is locked before it is read and stays locked for the life of the handle")
    c132_name_stays(ctx)
    f = ctx.fn(R, M + "open")
    if f:
        lk = ctx.calls(R, f, r"utilz::lockfile::Lockfile::(lock|wait)$", floor=2)
        rm = ctx.calls(R, f, M + r"read_mani$")
        ro = ctx.calls(R, f, M + r"rollover$")
        ctx.order_chain(R, f, [("Lockfile::lock|wait", lk), ("read_mani", rm), ("rollover", ro)])
        # the Some(lockfile) edge guards the read
        for pt in rm:
            g = [1 for bb, lab, srcs in K.guards(f, pt) for s in srcs if s["k"] == "call" and re.search(r"Lockfile::(lock|wait)$", s["callee"])]
            ctx.check(R, f, "lock-obtained", bool(g), "read_mani is reached only on the Some(lockfile) edge",
                      "the manifest is read without the lock having been obtained", pt=pt)
    adt = ctx.prog.adts.get("mani::Manifest")
    owns = adt and any(ty == "utilz::lockfile::Lockfile" for v in adt["variants"] for (_n, ty, _p) in v["fields"])
    ctx.check(R, "mani::Manifest", "owns-lockfile", bool(owns), "Manifest has a field of type Lockfile (released only on drop)",
              "Manifest no longer owns its Lockfile")
    la = ctx.prog.adts.get("utilz::lockfile::Lockfile")
    ctx.check(R, "utilz::lockfile::Lockfile", "drop-unlocks", bool(la and la.get("has_drop")), "Lockfile has a Drop impl (unlock)",
              "Lockfile no longer has a Drop impl")
    g = ctx.fn(R, "utilz::lockfile::Lockfile::_lock")
    if g:
        fc = ctx.calls(R, g, r"^libc::(\w+::)*fcntl$")
        h = P.held(ctx.prog, g)
        for pt in fc:
            ctx.check(R, g, "table-mutex-held", bool(h.at(pt, must=True)), "the process-wide lock table mutex is held across fcntl",
                      "fcntl is issued without holding the lock-table mutex", pt=pt)
        push = ctx.calls(R, g, r"alloc::vec::Vec::push$")
        ctx.order_chain(R, g, [("fcntl", fc), ("lock_table.push", push)])
        # closing ANY descriptor of a file drops every fcntl lock the process holds on it: once the lock file has been opened, _lock
        # either goes on to take the lock or fails with an error -- the refusal `this process already holds it` (decided by comparing
        # device and inode with the table) is taken before a descriptor exists
        op = ctx.calls(R, g, r"std::fs::OpenOptions::open$")
        refusals = []
        for r_ in P.ok_points(g):
            for cg in K.compare_guards(g, r_, user_only=False):
                if cg["op"] == "Eq" and cg["holds"] and any(
                        s_["k"] == "call" and re.search(r"::(dev|ino)$", s_["callee"]) for o_ in (cg["a"], cg["b"]) for s_ in P.origins(g, o_)):
                    refusals.append(r_)
                    break
        if not refusals:
            # the same scan as `table.iter().any(|e| e.dev == dev && e.ino == ino)`: the comparison sits in a closure of _lock
            cmp_cl = []
            for c_ in ctx.prog.closures_of(g):
                for b_ in c_.blocks:
                    for st_ in b_.st:
                        if st_["s"] == "=" and st_["rv"].get("r") == "bin" and st_["rv"]["op"] == "Eq":
                            names_ = K.src_names(c_, st_["rv"]["a"]) | K.src_names(c_, st_["rv"]["b"])
                            if any(re.search(r"(^|\.)(dev|ino)(\(\))?$", n_) for n_ in names_):
                                cmp_cl.append(c_)
            if cmp_cl:
                for r_ in P.ok_points(g):
                    if K.guarded_by_call(g, r_, r"Iterator>?::(any|position|find)$", label="sw:1") is not None:
                        refusals.append(r_)
        if not refusals:
            # the closure looked through (engine/blue/chains.py): the comparisons are in _lock itself, behind `&&` control flow
            cmps_ = [(b_.idx, i_) for b_ in g.blocks for i_, st_ in enumerate(b_.st)
                     if st_["s"] == "=" and st_["rv"].get("r") == "bin" and st_["rv"]["op"] == "Eq" and
                     any(s_["k"] == "call" and re.search(r"::(dev|ino)$", s_["callee"]) for o_ in (st_["rv"]["a"], st_["rv"]["b"]) for s_ in P.origins(g, o_))]
            for r_ in P.ok_points(g):
                if cmps_ and P.reach(g, P.ENTRY, [r_], avoid=set(cmps_)) is None and st_is_none(g, r_):
                    refusals.append(r_)
        ctx.floor(R, "_lock: refusals decided by the in-process table", len(refusals), 1)
        for r_ in refusals:
            q = None
            for o_ in op:
                q = q or P.reach(g, P.after(g, o_), [r_])
            ctx.check(R, g, "refusal-opens-nothing", q is None, "the table is consulted before the lock file is opened",
                      "Lockfile::_lock opens the lock file and only then finds in its table that this process already holds the lock; returning "
                      "closes the new descriptor, which releases the fcntl lock the live Lockfile relies on -- another process can then lock the "
                      "same manifest", pt=r_, path=q)


MANI_FILE_OPS = r"^std::fs::(remove_file|rename|hard_link|remove_dir|remove_dir_all|write|copy)$|^std::fs::File::create$|^std::fs::OpenOptions::open$|^std::fs::File::set_len$"


def c133(ctx):
    R = "C13.3"
    ctx.declare(R, "only the manifest's own apply/rollover create, link, rename or remove manifest files")
    allowed = {"mani::Manifest::_apply", "mani::Manifest::rollover"}
    n = 0
    for f in ctx.prog.fns.values():
        if f.crate not in ("mani", "lsmtk", "sst", "utilz"):
            continue
        for pt in P.call_points(f, MANI_FILE_OPS):
            t = P.term_at(f, pt)
            ck = callee_skey(t)
            helpers = set()
            for a in t["args"]:
                helpers |= {c for c in P.origin_calls(f, a) if re.match(r"^mani::(MANIFEST|TEMPORARY|BACKUP)$", c)}
            is_write_open = True
            if ck.endswith("OpenOptions::open"):
                ch = C02.open_option_chain(f, pt)
                is_write_open = bool(ch.get("write") or ch.get("append") or ch.get("create") or ch.get("create_new") or ch.get("truncate"))
            in_mani = f.crate == "mani"
            if helpers or (in_mani and is_write_open):
                n += 1
                ctx.check(R, f, "manifest-file-op", f.skey in allowed or f.skey.startswith("mani::Manifest::") or not is_write_open,
                          "%s on a manifest path happens in %s" % (ck.rsplit("::", 1)[-1], f.skey),
                          "%s touches a manifest file (%s) outside Manifest::_apply/rollover" % (f.skey, sorted(helpers)), pt=pt)
    ctx.floor(R, "manifest file operations", n, 4)
    # functions outside mani that build fragment paths
    users = {f.skey for f in ctx.prog.fns.values() if f.crate != "mani" and P.call_points(f, r"^mani::(MANIFEST|TEMPORARY|BACKUP)$")}
    ok = users <= {"lsmtk::verifier::list_mani_fragments", "lsmtk::verifier::list_mani_fragments::{closure#0}"}
    ctx.check(R, "lsmtk", "fragment-path-users", ok, "outside mani only list_mani_fragments names manifest fragment paths: %s" % sorted(users),
              "manifest fragment paths are built in %s" % sorted(users))


def c138(ctx):
    R = "C13.8"
    ctx.declare(R, "a manifest whose last write failed accepts no further edit: a failed write can leave the first lines of an edit in the file without "
                   "their separator, and whatever is appended next is read back as part of that edit")
    pw = [f for f in ctx.prog.fns.values() if f.crate == "mani" and P.field_writes(f, r"mani::Manifest$", "poison")]
    ctx.floor(R, "functions that record a failed manifest write", len(pw), 1)

    def reads_poison(g):
        return bool(P.field_reads(g, r"mani::Manifest$", "poison"))

    def honoured(f, pt):
        for bb, lab, srcs in K.guards(f, pt):
            for x in srcs:
                if x["k"] == "field" and x["f"] == "poison":
                    return True
                if x["k"] == "call":
                    for k_ in ctx.prog.targets(x["t"]):
                        g = ctx.prog.fns.get(k_)
                        if g is not None and g.crate == "mani" and g not in pw and reads_poison(g):
                            return True
        return False
    n = 0
    for f in sorted(ctx.prog.fns.values(), key=lambda f: f.key):
        if f.crate != "mani" or not f.skey.startswith("mani::Manifest::") or "{closure" in f.skey:
            continue
        ops = []
        for pt in P.call_points(f, MANI_FILE_OPS + r"|std::io::Write::write_all$|Write>::write_all$"):
            t = P.term_at(f, pt)
            if (callee_skey(t) or "").endswith("OpenOptions::open"):
                ch = C02.open_option_chain(f, pt)
                if not (ch.get("write") or ch.get("append") or ch.get("create") or ch.get("create_new") or ch.get("truncate")):
                    continue
            ops.append(pt)
        if not ops or "&mut mani::Manifest" not in f.locals[1]:
            continue
        n += 1
        # every fallible step is recorded: the result of each file operation is handed to Manifest::poison (a failure that is merely
        # returned leaves a handle that still accepts edits while its in-memory state has already moved on)
        rec = P.call_points(f, r"^mani::Manifest::poison$")
        for pt in ops + P.call_points(f, r"std::io::Write::flush$|Write>::flush$|std::fs::File::sync_data$|std::fs::File::sync_all$"):
            routed = any(any(x["k"] == "call" and x["pt"] == pt for x in P.origins(f, P.term_at(f, q_)["args"][1])) for q_ in rec)
            ctx.check(R, f, "failure-recorded", routed, "the result of %s goes through Manifest::poison" % P.short(callee_skey(P.term_at(f, pt))),
                      "%s: the result of %s is returned without being recorded in `poison`: after such a failure the handle keeps accepting edits although "
                      "its in-memory state already contains the edit that was not written, and the next rollover writes that edit out" % (
                          f.skey, P.short(callee_skey(P.term_at(f, pt)))), pt=pt)
        first = [p_ for p_ in ops if not any(q_ != p_ and not P.order(f, [q_], [p_]) for q_ in ops)] or ops[:1]
        for pt in first:
            ctx.check(R, f, "poison-honoured", honoured(f, pt), "the first file operation is taken only when no earlier write has failed",
                      "%s writes to the manifest without asking whether an earlier write failed (the error is recorded in `poison` and never looked at): "
                      "the next edit is appended behind a torn one and both are read back as one edit" % f.skey, pt=pt)
    ctx.floor(R, "manifest methods that write files", n, 2)


def c139(ctx):
    R = "C13.9"
    ctx.declare(R, "a rollover that died after linking its backup is resumed, not repeated: the current log is linked under a new backup number only "
                   "if it is not already the newest backup (same file), otherwise the chain of fragments gains a copy that does not continue its predecessor")
    f = ctx.fn(R, M + "rollover")
    if not f:
        return
    links = [p_ for p_ in P.call_points(f, r"^std::fs::hard_link$")]
    ctx.floor(R, "rollover: backup links", len(links), 1)

    def identity_test(g, depth=0):
        if any(re.search(r"MetadataExt.*::(ino|st_ino)$|::ino$", c.get("callee") or "") for _b, c in g.calls()):
            return True
        if depth < 1:
            for _b, c in g.calls():
                for k_ in ctx.prog.targets(c):
                    h = ctx.prog.fns.get(k_)
                    if h is not None and h.crate in ("mani", "utilz") and h is not g and identity_test(h, depth + 1):
                        return True
        return False
    for p_ in links:
        ok = False
        for bb, lab, srcs in K.guards(f, p_):
            for x in srcs:
                if x["k"] == "call":
                    if re.search(r"::ino$", x["callee"]):
                        ok = True
                    for k_ in ctx.prog.targets(x["t"]):
                        g = ctx.prog.fns.get(k_)
                        if g is not None and g.crate in ("mani", "utilz") and identity_test(g):
                            ok = True
        ctx.check(R, f, "backup-link-not-repeated", ok, "the backup link is taken only when the current log is not already the newest backup",
                  "rollover links MANIFEST under the next backup number unconditionally: after a death between that link and the final rename the next "
                  "open links the same log a second time, and the fragments no longer chain (MANIFEST.N+1 is a copy of MANIFEST.N)", pt=p_)


def c1310(ctx):
    R = "C13.10"
    ctx.declare(R, "a roll-up carries the complete state: Manifest::to_edit walks the whole string set and the whole info map, dropping no element, and "
                   "puts every element into the edit (rollover writes that edit as the first transaction of the new log, verify derives its expectation from it)")
    f = ctx.fn(R, M + "to_edit")
    if not f:
        return
    n = 0
    for what, callee in (("string", r"mani::Edit::add$"), ("info", r"mani::Edit::info$")):
        calls = P.call_points(f, callee)
        ctx.floor(R, "to_edit: Edit::%s calls" % what, len(calls), 1)
        for c in calls:
            heads = [h for h in P.call_points(f, r"Iterator>?::next$") if P.reach(f, P.after(f, h), [c]) and P.reach(f, P.after(f, c), [h])]
            ok = bool(heads)
            why = "not inside a loop"
            for h in heads:
                n += 1
                ity = K.loop_iterator_type(f, h)
                if K.DROPPING_ADAPTERS.search(ity):
                    ok, why = False, "the loop drops elements (%s)" % ity
                q = P.reach(f, P.after(f, h), [h], avoid={c} | set(P.error_points(f)))
                if q is not None:
                    ok, why = False, "a turn of the loop can skip the call"
            ctx.check(R, f, "roll-up-is-complete:" + what, ok, "every %s of the state is put into the roll-up" % what,
                      "Manifest::to_edit does not put every %s of the state into the roll-up (%s): the first rollover -- every open performs one -- "
                      "silently drops what is left out, and verify, which derives its expectation from the same function, agrees" % (what, why), pt=c)


def c135(ctx):
    R = "C13.5"
    ctx.declare(R, "an edit removes before it adds, in every implementation of the edit semantics (an edit may remove and add the same name)")
    f = ctx.fn(R, M + "apply_edit")
    if f:
        rm = [p_ for p_ in P.call_points(f, r"BTreeSet.*::(remove|retain|take|clear|split_off)$") if any(s_["k"] == "param" and s_["i"] == 2 for s_ in P.origins(f, P.term_at(f, p_)["args"][0]))]
        add = [p_ for p_ in P.call_points(f, r"BTreeSet.*::(insert|extend|append)$|Extend.*>::extend$") if any(s_["k"] == "param" and s_["i"] == 2 for s_ in P.origins(f, P.term_at(f, p_)["args"][0]))]
        ctx.floor(R, "strs.remove sites in apply_edit", len(rm), 1)
        ctx.floor(R, "strs.insert sites in apply_edit", len(add), 1)
        bad = [(a, r) for a in add for r in rm if P.reach(f, P.after(f, a), [r]) is not None]
        ctx.check(R, f, "remove-then-add", not bad, "no removal from the string set can follow an insertion: `-x +x` leaves x listed",
                  "apply_edit inserts before it removes: an edit that removes and re-adds a name (a compaction whose output equals an input) drops it from the manifest",
                  pt=bad[0][0] if bad else None)
        # removals come from rm_strs, insertions from add_strs
        for p_ in rm:
            t_ = P.term_at(f, p_)
            if len(t_["args"]) < 2:
                continue
            names_ = K.src_names(f, t_["args"][1])
            if (callee_skey(t_) or "").endswith("::retain"):
                # bulk form: the predicate closure captures the removal set
                for s_ in P.origins(f, t_["args"][1]):
                    if s_["k"] == "agg" and s_.get("closure"):
                        for o_ in s_["st"]["rv"]["ops"]:
                            names_ |= K.src_names(f, o_)
            if (callee_skey(t_) or "").endswith("::retain") and not any(n_.startswith(".") for n_ in names_):
                ctx.notes.append("C13.5: the predicate of strs.retain(..) could not be traced to a field of the edit; source not checked")
                continue
            ctx.check(R, f, "rm-source", ".rm_strs" in names_, "removed names come from edit.rm_strs", "removals do not come from rm_strs", pt=p_)
        for p_ in add:
            ctx.check(R, f, "add-source", ".add_strs" in K.src_names(f, P.term_at(f, p_)["args"][1]), "inserted names come from edit.add_strs", "insertions do not come from add_strs", pt=p_)
    # the sibling that replays the same edits (lsmtk's orphan scan) uses the same order — checked by C08.4; the
    # writer serialises removals before additions too
    w = ctx.fn(R, M + "_apply")
    if w:
        heads = [h for h in P.call_points(w, r"Iterator>::next$") if P.reach(w, P.after(w, h), [h])]
        def field_of(h):
            return {n for n in K.src_names(w, P.term_at(w, h)["args"][0]) if n in (".rm_strs", ".add_strs", ".info")}
        rmh = [h for h in heads if ".rm_strs" in field_of(h)]
        adh = [h for h in heads if ".add_strs" in field_of(h)]
        ctx.check(R, w, "serialise-order", bool(rmh) and bool(adh) and not P.order(w, rmh, adh), "the '-' lines of an edit are written before its '+' lines",
                  "_apply no longer writes removals before additions")
    r = ctx.fn(R, ITER_NEXT)
    if r:
        ctx.ok(R, r, "the reader rebuilds the same Edit (add/rm sets), so replay goes through apply_edit's order")


def c136(ctx):
    R = "C13.6"
    ctx.declare(R, "a file that may end in a torn edit is rewritten before anything is appended to it")
    # The reader drops a trailing edit that lacks its separator (C13.1).  Those bytes stay in the file; the next append
    # would close them off with its own separator and splice half an edit into the history.  open() therefore rewrites
    # the manifest (rollover: snapshot to TEMPORARY, rename over MANIFEST) whenever the file exists, before the handle is
    # handed out.
    f = ctx.fn(R, M + "open")
    if f:
        ro = ctx.calls(R, f, M + r"rollover$")
        oks = P.ok_points(f)
        skip = set()
        for b in P.switch_blocks(f):
            if any(c.endswith("Path::is_file") for c in K.cond_calls(f, b.idx)):
                for lab, succ in b.succs:
                    if not any(P.reach(f, [(succ, 0)], [r_]) for r_ in ro):
                        skip.add((b.idx, lab))
        p_ = P.reach(f, P.ENTRY, oks, avoid=set(ro) | set(P.error_points(f)), avoid_edges=skip)
        ctx.check(R, f, "rollover-on-open", p_ is None and bool(skip), "open returns a handle only after rollover(), unless the manifest file does not exist yet",
                  "open can hand out a handle onto an existing manifest without rewriting it: a torn trailing edit gets completed by the next append's separator "
                  "and half of it is replayed", path=p_)
        rm = P.call_points(f, M + r"read_mani$")
        ctx.order_chain(R, f, [("read_mani", rm), ("rollover", ro)])
    # rollover rewrites from the in-memory state only (never copies the old file's bytes)
    g = ctx.fn(R, M + "rollover")
    if g:
        te = ctx.calls(R, g, M + r"to_edit$")
        ap = ctx.calls(R, g, M + r"_apply$")
        for a in ap:
            ctx.check(R, g, "snapshot-from-memory", any(c.endswith("Manifest::to_edit") for c in P.origin_calls(g, P.term_at(g, a)["args"][2])),
                      "the roll-up written is to_edit(strs, info) of the in-memory state", "rollover does not write the in-memory snapshot", pt=a)
        ctx.check(R, g, "no-copy", not P.call_points(g, r"std::fs::copy$|std::io::copy$"), "rollover does not copy file bytes", "rollover copies the old file's bytes")


def c134(ctx):
    R = "C13.4"
    ctx.declare(R, "no error is lost or becomes a panic in the manifest code")
    fns = [f for f in ctx.prog.fns.values() if f.crate == "mani" and not f.skey.startswith("mani::Manifest::verify")]
    from .C09_exc import PANIC_EXC
    n = K.r_err(ctx, R, fns, {k: v for k, v in C02.RERR_EXCEPTIONS.items() if k[0].startswith("mani::")})
    exc = {k: v for k, v in PANIC_EXC.items() if k[0].startswith("mani::")}
    K.panic_audit(ctx, R + "p", fns, exc)
    ctx.floor(R, "R-ERR sites in mani", n, 20)
    from .C09_exc import BOUNDS_EXC
    ctx.declare(R + "b", "manifest bytes are never indexed beyond the length a dominating comparison established for that same buffer")
    bexc = {k: v for k, v in BOUNDS_EXC.items() if k[0].startswith("mani::") or k[0].startswith("<mani::")}
    nb, pb = K.bounds_audit(ctx, R + "b", fns, bexc)
    ctx.floor(R + "b", "index / slice sites in mani", nb, 6)


# ------------------------------------------------------------------------------------------------
# C13.7 what the writer accepts, the reader reads back: the two sides agree on the alphabet of a line

def c137(ctx):
    R = "C13.7"
    ctx.declare(R, "every line Manifest::apply can write is a line ManifestIterator::next reads back as the same operation: the shortest line is "
                   "admitted, and whatever the reader rejects or re-interprets (non-ASCII text, a trailing carriage return, the action characters "
                   "as info keys) the Edit refuses")
    rd = ctx.fn(R, "<mani::ManifestIterator as core::iter::traits::iterator::Iterator>::next")
    cs = ctx.fn(R, "mani::Edit::check_str")
    inf = ctx.fn(R, "mani::Edit::info")
    if not (rd and cs and inf):
        return
    # (a) shortest line: 8 hex digits + the action character + an empty payload = 9 characters
    lens = []
    for b in rd.blocks:
        for i, st in enumerate(b.st):
            if st["s"] == "=" and st["rv"]["r"] == "bin" and st["rv"]["op"] in ("Gt", "Ge", "Lt", "Le") and not st["sp"][3]:
                a, c = st["rv"]["a"], st["rv"]["b"]
                if any(x["k"] == "call" and re.search(r"(String|str)::len$|str::<impl str>::len$", x["callee"]) for x in P.origins(rd, a)) and c.get("k") == "const" and "v" in c["c"]:
                    lens.append(((b.idx, i), st["rv"]["op"], c["c"]["v"]))
    ctx.floor(R, "reader length gates", len(lens), 1)
    for pt, op, v in lens:
        admits9 = (op == "Gt" and v <= 8) or (op == "Ge" and v <= 9)
        ctx.check(R, rd, "shortest-line-admitted", admits9, "a 9-character line (checksum, action, empty payload) is parsed",
                  "the reader takes a line only if len %s %d: the line the writer produces for an empty string or an empty info value (8 checksum "
                  "digits + the action character) is rejected as corrupt on the next open" % ({"Gt": ">", "Ge": ">="}.get(op, op), v), pt=pt)
    # (b) the reader insists on ASCII and reads with lines(): the writer must refuse non-ASCII text and a trailing CR
    reader_ascii = bool(P.call_points(rd, r"str>::is_ascii$|::is_ascii$"))
    if reader_ascii:
        w = [p_ for p_ in P.call_points(cs, r"::is_ascii$")]
        gated = False
        for p_ in w:
            # an error exit on the edge where is_ascii is false
            for b in P.switch_blocks(cs):
                srcs = P.switch_cond_sources(cs, b.idx)
                if any(x["k"] == "call" and x["pt"] == p_ for x in srcs):
                    gated = True
        ctx.check(R, cs, "writer-refuses-non-ascii", gated, "Edit::check_str refuses non-ASCII text, which the reader would reject",
                  "the reader rejects any non-ASCII line, but Edit::check_str accepts non-ASCII strings: apply acknowledges the edit and the manifest "
                  "cannot be opened again")
    lines_reader = bool(P.call_points(rd, r"BufRead::lines$|::lines$"))
    if lines_reader:
        chars = set()
        for g in [cs] + [h for h in ctx.prog.fns.values() if h.skey.startswith("mani::Edit::check_str::{closure")]:
            for b in g.blocks:
                for st in b.st:
                    if st["s"] == "=" and st["rv"]["r"] == "bin" and st["rv"]["op"] in ("Eq", "Ne"):
                        for o in (st["rv"]["a"], st["rv"]["b"]):
                            if o.get("k") == "const" and o["c"].get("ty") == "char" and "v" in o["c"]:
                                chars.add(o["c"]["v"])
            for _b, t in g.calls():
                if re.search(r"::(ends_with|contains|strip_suffix)$", callee_skey(t) or ""):
                    for o in t["args"][1:]:
                        if o.get("k") == "const" and o["c"].get("ty") == "char" and "v" in o["c"]:
                            chars.add(o["c"]["v"])
        ctx.check(R, cs, "writer-refuses-line-terminators", 10 in chars and 13 in chars,
                  "Edit::check_str looks for both characters BufRead::lines() strips (\\n and a trailing \\r)",
                  "the reader splits with lines(), which also strips a trailing carriage return, but Edit::check_str only looks for %s: a string "
                  "ending in \\r is written, read back one character short, and fails its checksum on the next open" % sorted(chars))
    # (c) the action characters the reader dispatches on cannot be info keys
    is_char = lambda fn_, o_: o_.get("k") in ("copy", "move") and not o_["pl"]["p"] and fn_.locals[o_["pl"]["l"]] == "char"
    actions = {t_["value"] for t_ in K.value_tests(rd, is_char) if t_["value"] in (43, 45)}
    refused = {t_["value"] for t_ in K.value_tests(inf, lambda fn_, o_: any(x["k"] == "param" and x["i"] == 2 for x in P.origins(fn_, o_)))}
    ctx.floor(R, "reader action characters", len(actions), 2)
    ctx.check(R, inf, "action-characters-not-info-keys", actions <= refused,
              "Edit::info refuses the keys %s, which the reader dispatches on as add / remove" % sorted(chr(c) for c in actions),
              "Edit::info accepts the key %s, which the reader takes for an add / remove: the info is written and read back as a change to the string "
              "set" % sorted(chr(c) for c in actions - refused))
