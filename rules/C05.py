"""C05 — compaction conserves versions; GC obeys policy: rewrite completeness and GC confinement."""
import re

from blue import prim as P
from blue.facts import callee_skey, strip_generics
from . import common as K
from . import C04

EXPLANATION = (
    "C05 structural clauses: (C05.1) garbage collection runs only from perform_compaction on the true edge of "
    "Compaction::top_level(), and the policy's collector is used only by GC and by the verifier's verify_gc; (C05.2) in a "
    "plain compaction every entry read from the merged inputs is written to the output builder before the next is read, "
    "and the loop is left only at end of input or on an error; (C05.3) every input is removed from the manifest, opened, "
    "merged and summed, every output is added to the manifest, linked, recorded and summed, and the builder is sealed "
    "before the finish; the merged cursor is built over exactly the opened inputs; (C05.4) what GC drops is what it adds "
    "to discard (C04.5); (C05.5) the collector's per-key scratch state (the tombstone list handed to the determiner) is reset "
    "whenever the key changes; (C05.6) the policy combinators any/all consult every child on every entry, fold with | / & "
    "from false / true and never return from inside the loop (children are stateful version counters); the version counter "
    "restarts per key, retains the first untombstoned version of a key unconditionally and otherwise tests count <= number.  "
    "who-may-call/GUARDED/loop-body MUSTPASS/ORIGIN over resolved MIR.")
NOT_DECIDED = ("multiset equality of contents before/after, the full semantics of versions=N / ttl / any / all over every per-key "
               "version pattern (C05.5/C05.6 are necessary conditions of it), output splitting: value computations")
ASSUMPTIONS = ["MergingCursor enumerates the union of its children (C11)"]

TREE = "lsmtk::tree::LsmTree::"
PUTDEL = r"sst::SstMultiBuilder as sst::Builder>::(put|del)$"


def rules(ctx):
    c051(ctx)
    c052(ctx)
    c053(ctx)
    C04.c045(ctx)
    c055(ctx)
    c056(ctx)
    c057(ctx)
    c058(ctx)
    c059(ctx)
    c0510(ctx)
    from . import C08
    C08.c086(ctx)    # the version a compaction installs derives from a snapshot taken inside the critical section that installs it


def c055(ctx):
    R = "C05.5"
    ctx.declare(R, "the collector judges every key by its own tombstones: per-key scratch state is reset whenever the key changes")
    f = ctx.fn(R, "sst::gc::GarbageCollector::next")
    if not f:
        return
    ret = ctx.calls(R, f, r"sst::gc::Determiner::retain$")
    # the per-key accumulator = the Vec<u64> handed (by reference) to Determiner::retain as the tombstone list -- one local, or the chain of
    # locals it is moved through when it is built in a helper and handed back in a tuple
    isvec = lambda l: f.locals[l].startswith("alloc::vec::Vec<u64")
    acc = set()
    for p_ in ret:
        acc |= {l for l in K.user_locals(f, P.term_at(f, p_)["args"][2]) if isvec(l)}
    grew = True
    while grew:
        grew = False
        for l in list(acc):
            for s_ in P.origins(f, {"k": "copy", "pl": {"l": l, "p": []}}):
                pass
        for b_ in f.blocks:
            for st_ in b_.st:
                if st_["s"] == "=" and st_["rv"].get("r") == "use" and st_["rv"]["a"].get("k") in ("move", "copy"):
                    src, dst = st_["rv"]["a"]["pl"]["l"], st_["lhs"]["l"]
                    if not st_["lhs"]["p"] and not st_["rv"]["a"]["pl"]["p"] and isvec(src) and isvec(dst) and (src in acc) != (dst in acc):
                        acc |= {src, dst}
                        grew = True
    if len(acc) != 1:
        # through a tuple (`Some((kvp, tombstones))`): every Vec<u64> local of the function that flows into the one retain() is given
        flow = {l for l in range(len(f.locals)) if isvec(l) and any(
            x_["k"] == "call" and re.search(r"alloc::vec::Vec.*::new$|::from_elem$|::with_capacity$", x_["callee"]) for x_ in P.origins(f, {"k": "copy", "pl": {"l": l, "p": []}}))}
        acc = acc | {l for l in flow if any(l2 in acc for l2 in K.user_locals(f, {"k": "copy", "pl": {"l": l, "p": []}}))} if acc else acc
    ctx.check(R, f, "accumulator", len(acc) >= 1, "retain() is given the tombstone list (%d local(s) it is carried in)" % len(acc), "cannot identify the tombstone accumulator")
    if not acc:
        return
    # (re)initialisations: a fresh vector stored into the accumulator, or Vec::clear(&mut acc); a move from one carrier to the next is not one
    reinit = []
    for a in acc:
        for pt, kind, pl_ in P.defs(f).of(a):
            if kind == "call" and re.search(r"alloc::vec::Vec.*::(new|with_capacity)$|::from_elem$|Default>::default$", callee_skey(pl_) or ""):
                reinit.append(pt)
            elif kind == "assign" and pl_["rv"].get("r") in ("agg",):
                reinit.append(pt)
    for p_ in P.call_points(f, r"alloc::vec::Vec.*::clear$"):
        if acc & K.base_locals(f, P.term_at(f, p_)["args"][0]):
            reinit.append(p_)
    a = None
    # uses: retain / push / return_key involving the accumulator
    uses = []
    for b, t in f.calls():
        ck = callee_skey(t) or ""
        # every call that is handed the accumulator (retain, push, return_key, `last()` ..) except the resets themselves
        if not re.search(r"alloc::vec::Vec.*::(clear|new|with_capacity)$", ck):
            if any(acc & K.base_locals(f, x) or (x.get("k") in ("move", "copy") and x["pl"]["l"] in acc) for x in t["args"]):
                uses.append(P.term_pt(f, b.idx))
    ctx.floor(R, "uses of the tombstone list", len(uses), 2)
    # key switches: writes into self.key_backing
    sw = [p_ for p_ in P.call_points(f, r"::(copy_from_slice|resize|clear|extend_from_slice|clone_from)$") if "key_backing" in K.arg_field_names(f, p_, 0)]
    ctx.floor(R, "key switch sites (writes to key_backing)", len(sw), 1)
    for k in sw:
        p_ = P.reach(f, P.after(f, k), uses, avoid=set(reinit))
        ctx.check(R, f, "reset-on-key-change", p_ is None, "after the current key changes, the tombstone list is re-created before it is pushed to or consulted",
                  "tombstones collected for one key survive the switch to the next key: the determiner counts them against the neighbour's live value",
                  pt=k, path=p_)
    # a retained value with pending tombstones hands the list over (moved into return_key), and a rejected one restarts
    for p_ in ret:
        rk = set(P.call_points(f, r"GarbageCollector::return_key$"))
        # (what matters is that it is not *accumulated into or judged again*: reading it on the way out -- `tombstones.last()` -- is not reuse)
        judged = [u for u in uses if u not in rk and re.search(r"Determiner::retain$|alloc::vec::Vec.*::(push|extend|append|extend_from_slice)$", callee_skey(P.term_at(f, u)) or "")]
        nxt = P.reach(f, P.after(f, p_), judged, avoid=set(reinit) | rk)
        ctx.check(R, f, "reset-after-verdict", nxt is None, "after retain() answered, the list is either handed to return_key or re-created",
                  "the tombstone list is reused after the determiner's verdict without being reset", pt=p_, path=nxt)


def c051(ctx):
    R = "C05.1"
    ctx.declare(R, "garbage collection only at the top level, only through the configured policy")
    callers = K.callers_of(ctx, TREE + r"perform_garbage_collection$")
    ctx.floor(R, "callers of perform_garbage_collection", len(callers), 1)
    for sk, (f, pts) in sorted(callers.items()):
        for pt in pts:
            g = K.guarded_by_call(f, pt, r"lsmtk::tree::Compaction::top_level$", label="sw:1")
            ctx.check(R, f, "top-level-guard", g is not None, "GC is taken only on the true edge of compaction.top_level()",
                      "garbage collection can run for a compaction that is not top-level", pt=pt)
    g = ctx.fn(R, "lsmtk::tree::Compaction::top_level")
    if g:
        # top_level is a pure read of the claim's own field
        ok = False
        desc = ""
        for s in P.origins(g, {"k": "copy", "pl": {"l": 0, "p": []}}):
            if s["k"] == "bin" and s["op"] == "Eq":
                rv = s["st"]["rv"]
                srcs_a, _ = P.value_slice(g, rv["a"])
                srcs_b, _ = P.value_slice(g, rv["b"])
                fields = {x["f"] for x in srcs_a + srcs_b if x["k"] == "field"}
                consts = [x for x in srcs_a + srcs_b if x["k"] == "const"]
                num_levels = ctx.prog.consts.get("lsmtk::NUM_LEVELS", {}).get("v")
                vals = {x.get("v") for x in consts}
                named = {(x.get("named") or "").rsplit("::", 1)[-1] for x in consts}
                desc = "fields %s consts %s %s" % (sorted(fields), sorted(v for v in vals if v is not None), sorted(named))
                ok = "upper_level" in fields and ("NUM_LEVELS" in named or (num_levels is not None and (num_levels - 1) in vals))
        ctx.check(R, g, "top-level-field", ok, "top_level() is `core.upper_level == NUM_LEVELS - 1` (%s)" % desc,
                  "top_level() is no longer the comparison of the claim's upper level with the last level (%s)" % desc)
    cs = K.callers_of(ctx, r"sst::gc::GarbageCollectionPolicy::collector$", crates=("lsmtk", "sst"))
    ok = set(cs) <= {TREE + "perform_garbage_collection", "lsmtk::verifier::LsmVerifier::verify_gc"}
    ctx.check(R, "lsmtk", "collector-callers", ok and len(cs) >= 2, "the policy's collector is used by GC and verify_gc only: %s" % sorted(cs),
              "GarbageCollectionPolicy::collector is called from %s" % sorted(cs))
    # both use the configured policy
    for sk, (f, pts) in cs.items():
        for pt in pts:
            ctx.check(R, f, "configured-policy", ".gc_policy" in K.src_names(f, P.term_at(f, pt)["args"][0]),
                      "the collector is built from options.gc_policy", "the collector is not built from the configured gc_policy", pt=pt)


def c052(ctx):
    R = "C05.2"
    ctx.declare(R, "a plain compaction writes every entry it reads")
    f = ctx.fn(R, TREE + "perform_compaction")
    if not f:
        return
    put = ctx.calls(R, f, PUTDEL, floor=2)
    nx = [p for p in P.call_points(f, r"MergingCursor.* as sst::Cursor>::next$|sst::Cursor::next$") if P.reach(f, P.after(f, p), [p])]
    ctx.floor(R, "loop head (cursor.next)", len(nx), 1)
    for n in nx:
        p = P.reach(f, P.after(f, n), [n], avoid=set(put) | set(P.error_points(f)))
        ctx.check(R, f, "every-entry-written", p is None, "every loop iteration passes sstmb.put|del before the next cursor.next()",
                  "an entry can be read and skipped without being written to the output", pt=n, path=p)
    for pt in put:
        t = P.term_at(f, pt)
        srcs = set()
        for a in t["args"][1:]:
            srcs |= P.origin_calls(f, a)
        ctx.check(R, f, "writes-current", any(c.endswith("::key_value") for c in srcs), "what is written is the current kvr's key/timestamp/value",
                  "the written entry is not the one just read", pt=pt)
    seal = ctx.calls(R, f, r"sst::SstMultiBuilder as sst::Builder>::seal$")
    cf = ctx.calls(R, f, TREE + r"compaction_finish$")
    ctx.order_chain(R, f, [("sstmb.seal", seal), ("compaction_finish", cf)])
    for pt in seal:
        g = K.guarded_by_call(f, pt, r"sst::Cursor>::key_value$|sst::Cursor::key_value$", label="sw:0")
        ctx.check(R, f, "loop-exit", g is not None, "the builder is sealed only after key_value() returned None (end of input)",
                  "the loop can be left (and the outputs sealed) before the inputs are exhausted", pt=pt)
    # the cursor positioned before the first entry: seek_to_first precedes the loop
    sf = ctx.calls(R, f, r"sst::Cursor>::seek_to_first$|sst::Cursor::seek_to_first$")
    ctx.order_chain(R, f, [("cursor.seek_to_first", sf), ("cursor.next (loop)", nx)])


def body_must_pass(ctx, R, f, head_pts, groups):
    """Every cycle through a loop head passes one call of each group."""
    for label, pts in groups:
        if not pts:
            ctx.violate(R, f, "loop:" + label, "no %s call in %s" % (label, f.skey), kind="below-floor")
            continue
        for n in head_pts:
            p = P.reach(f, P.after(f, n), [n], avoid=set(pts) | set(P.error_points(f)))
            ctx.check(R, f, "loop:" + label, p is None, "every iteration passes %s" % label,
                      "an iteration can skip %s" % label, pt=n, path=p)


def c053(ctx):
    R = "C05.3"
    ctx.declare(R, "every input and every output of a compaction is wired into manifest edit, setsum and version")
    f = ctx.fn(R, TREE + "compaction_setup")
    if f:
        op = ctx.calls(R, f, TREE + "open_sst$")
        head = [p for p in P.call_points(f, r"Iterator>::next$") if P.reach(f, P.after(f, p), op) and P.reach(f, P.after(f, p), [p])]
        ctx.floor(R, "compaction_setup loop", len(head), 1)
        body_must_pass(ctx, R, f, head, [("Edit::rm", P.call_points(f, r"mani::Edit::rm$")), ("open_sst", op),
                                         ("cursors.push", P.call_points(f, r"alloc::vec::Vec.*::push$")),
                                         ("acc += input", P.call_points(f, r"AddAssign>::add_assign$"))])
        mc = ctx.calls(R, f, r"sst::merging_cursor::MergingCursor.*::new$")
        for pt in mc:
            ctx.check(R, f, "merge-all", any(c.endswith("Sst::cursor") for c in P.origin_calls(f, P.term_at(f, pt)["args"][0])), "the merging cursor is built over the pushed cursors",
                      "the merging cursor is not built over the opened inputs", pt=pt)
        for pt in P.call_points(f, r"mani::Edit::rm$"):
            ctx.check(R, f, "rm-is-input", any(s_["k"] == "call" and s_["callee"].endswith("::hexdigest") and any(c.endswith("Compaction::inputs") for c in P.origin_calls(f, s_["t"]["args"][0]))
                                                for s_ in P.origins(f, P.term_at(f, pt)["args"][1])), "the removed manifest entry is the input's digest",
                      "Edit::rm is not given the input's digest", pt=pt)
    f = ctx.fn(R, TREE + "compaction_finish")
    if f:
        hl = ctx.calls(R, f, r"std::fs::hard_link$")
        head = [p for p in P.call_points(f, r"Iterator>::next$") if P.reach(f, P.after(f, p), hl) and P.reach(f, P.after(f, p), [p])]
        ctx.floor(R, "compaction_finish link loop", len(head), 1)
        body_must_pass(ctx, R, f, head, [("Edit::add", P.call_points(f, r"mani::Edit::add$")), ("hard_link", hl),
                                         ("outputs.push", P.call_points(f, r"alloc::vec::Vec.*::push$")),
                                         ("output_setsum +=", P.call_points(f, r"AddAssign>::add_assign$"))])
        am = ctx.calls(R, f, TREE + "apply_manifest_compaction$")
        for pt in am:
            t = P.term_at(f, pt)
            ctx.check(R, f, "outputs-forwarded", any(c.endswith("FileManager::stat") for c in P.origin_calls(f, t["args"][4])) and "p7" in K.sig(f, t["args"][3])
                      and "p2" in K.sig(f, t["args"][1]),
                      "apply_manifest_compaction receives the claim, the edit and the collected outputs",
                      "apply_manifest_compaction is not given the collected outputs / edit / claim", pt=pt)
    f = ctx.fn(R, "lsmtk::tree::Version::apply_compaction")
    g = ctx.fn(R, "lsmtk::tree::Version::apply_compaction_inner")
    if f and g:
        ctx.must_pass(R, f, "apply_compaction_inner", ctx.calls(R, f, r"Version::apply_compaction_inner$"))


# ------------------------------------------------------------------------------------------------
# C05.6 the policy determiners

def c056(ctx):
    R = "C05.6"
    ctx.declare(R, "policy combinators consult every child for every entry (children count versions: no short-circuit), and the "
                   "version counter retains the entry that decides a key's current value")
    for name, init, op in (("AnyDeterminer", 0, "BitOr"), ("AllDeterminer", 1, "BitAnd")):
        f = ctx.fn(R, "<sst::gc::%s as sst::gc::Determiner>::retain" % name)
        if not f:
            continue
        heads = [h for h in P.call_points(f, r"Iterator>::next$") if P.reach(f, P.after(f, h), [h])]
        calls = [p_ for p_ in P.call_points(f, r"sst::gc::Determiner::retain$|Determiner>::retain$")]
        folds = P.call_points(f, r"Iterator>?::fold$")
        if not heads and folds:
            # the same loop as `children.iter_mut().fold(init, |acc, d| acc | d.retain(..))`: fold visits every element, the closure asks its
            # child on every path and combines with the non-short-circuiting operator
            cl = [g for g in ctx.prog.closures_of(f) if P.call_points(g, r"sst::gc::Determiner::retain$|Determiner>::retain$")]
            t_ = P.term_at(f, folds[0])
            ity = t_.get("ga") or ""
            inits = {c_.get("v") for c_ in P.origin_consts(f, t_["args"][1])}
            ok = len(cl) == 1 and not K.DROPPING_ADAPTERS.search(ity) and inits == {init}
            if ok:
                g = cl[0]
                gc_ = P.call_points(g, r"sst::gc::Determiner::retain$|Determiner>::retain$")
                ok = P.must_pass(g, gc_, goals=P.return_points(g)) is None
                ops_ = {s_["op"] for s_ in P.origins(g, {"k": "copy", "pl": {"l": 0, "p": []}}) if s_["k"] == "bin"}
                ok = ok and ops_ == {op}
                for c_ in gc_:
                    tt_ = P.term_at(g, c_)
                    # the entry handed to the child is the captured (key, tombstones, exists): none of it is the accumulator or a constant
                    ok = ok and not any(s_["k"] == "const" for a_ in tt_["args"][1:] for s_ in P.origins(g, a_))
            ctx.check(R, f, "every-child-consulted", ok, "%s::retain folds over every child with %s from %s, asking each child on every path" % (name, op, bool(init)),
                      "%s::retain folds over its children, but not as `fold(%s, |acc, d| acc %s d.retain(entry))` over all of them" % (name, bool(init), "|" if op == "BitOr" else "&"))
            continue
        ctx.floor(R, name + " child loop", len(heads), 1)
        for h in heads:
            q = P.reach(f, P.after(f, h), [h], avoid=set(calls))
            ctx.check(R, f, "every-child-consulted", bool(calls) and q is None, "%s::retain calls every child's retain on every entry" % name,
                      "%s::retain can go round its loop without consulting a child" % name, pt=h, path=q)
            # no exit from inside the loop other than exhaustion of the iterator: the loop is left only on the None edge of next()
            body_rets = [r_ for r_ in P.return_points(f) if any(P.reach(f, P.after(f, c_), [r_], avoid=set(heads)) is not None for c_ in calls)]
            ctx.check(R, f, "no-short-circuit", not body_rets, "%s::retain returns only after the last child (stateful children see every entry)" % name,
                      "%s::retain returns from inside the loop: later children (a version counter) miss this entry and miscount the key" % name,
                      pt=body_rets[0] if body_rets else None)
        # accumulator: initialised to the neutral element, combined with | / &, returned
        ret_srcs = P.origins(f, {"k": "copy", "pl": {"l": 0, "p": []}})
        acc_ops = {s_["op"] for s_ in ret_srcs if s_["k"] == "bin"}
        inits = {s_.get("v") for s_ in ret_srcs if s_["k"] == "const"}
        ctx.check(R, f, "accumulator", acc_ops == {op} and inits == {init},
                  "%s::retain folds the children's answers with %s starting from %s" % (name, op, bool(init)),
                  "%s::retain folds with %s from %s (expected %s from %s)" % (name, sorted(acc_ops), sorted(inits, key=str), op, init))
        for c_ in calls:
            t = P.term_at(f, c_)
            same = all(any(s_["k"] == "param" and s_["i"] == i + 1 for s_ in P.origins(f, t["args"][i])) for i in (1, 2, 3))
            ctx.check(R, f, "same-entry", same, "children are asked about the same (key, tombstones, exists)", "children are asked about something other than the entry", pt=c_)
    f = ctx.fn(R, "<sst::gc::VersionsDeterminer as sst::gc::Determiner>::retain")
    if f:
        cw = P.field_writes(f, r"gc::VersionsDeterminer$", "count")
        consts, incs = [], []
        for w in cw:
            st = f.blocks[w[0]].st[w[1]]
            rv = st["rv"]
            srcs = P.origins(f, rv["a"]) if rv["r"] == "use" else [{"k": "bin"}] if rv["r"] == "bin" else []
            if rv["r"] == "use" and rv["a"].get("k") == "const":
                consts.append((w, rv["a"]["c"].get("v")))
            elif any(s_["k"] == "bin" for s_ in srcs) or rv["r"] == "bin":
                incs.append(w)
        # the key-changed edge: comparison of self.key with the key parameter
        kc = [b for b in P.switch_blocks(f) if any(s_["k"] == "call" and re.search(r"::(ne|eq)$", s_["callee"]) for s_ in K.cond_sources(f, b.idx))]
        ctx.floor(R, "VersionsDeterminer key-change test", len(kc), 1)
        # the restart may be written `let versions = if tombstones.is_empty() { 1 } else { 2 }; .. self.count = versions`
        restart_vals = set(v for _w, v in consts)
        via_local = False
        for w in cw:
            st = f.blocks[w[0]].st[w[1]]
            if st["rv"]["r"] == "use" and st["rv"]["a"].get("k") in ("copy", "move"):
                srcs_ = P.origins(f, st["rv"]["a"])
                if srcs_ and all(s_["k"] == "const" for s_ in srcs_):
                    restart_vals |= {s_.get("v") for s_ in srcs_}
                    via_local = True
        ctx.check(R, f, "count-restarts", (sorted(v for _w, v in consts) == [1, 2] and len(incs) >= 2) or (via_local and restart_vals == {1, 2} and len(incs) >= 1),
                  "on a new key the count restarts at 1 (value) or 2 (tombstoned); on the same key it is incremented",
                  "VersionsDeterminer no longer restarts its count per key (constant stores %s, increments %d)" % (sorted(v for _w, v in consts), len(incs)))
        # the deciding entry: new key without tombstones -> retained unconditionally
        tt = [t_ for t_ in (P.switch_table(f) or []) if t_[1] == ("const", 1)]
        if not tt and via_local:
            # no constant-true path, but the restart value 1 is compared with a NonZero number: `1 <= number.get()` always holds
            le = [s_ for s_ in P.origins(f, {"k": "copy", "pl": {"l": 0, "p": []}}) if s_["k"] == "bin" and s_["op"] == "Le"]
            nz = any(x["k"] == "call" and re.search(r"NonZero.*::get$", x["callee"]) for s_ in le for x in P.origins(f, s_["st"]["rv"]["b"]))
            lhs_count = any(x["k"] == "field" and x["f"] == "count" for s_ in le for x in P.origins(f, s_["st"]["rv"]["a"]))
            one_on_empty = False
            for b in f.blocks:
                for i, st in enumerate(b.st):
                    if st["s"] == "=" and st["rv"].get("r") == "use" and st["rv"]["a"].get("k") == "const" and st["rv"]["a"]["c"].get("v") == 1 and f.locals[st["lhs"]["l"]] in ("u64", "usize"):
                        if K.guarded_by_call(f, (b.idx, i), r"::is_empty$", label="sw:1") is not None:
                            one_on_empty = True
            tt = [1] if (le and nz and lhs_count and one_on_empty) else []
        ctx.check(R, f, "newest-live-retained", bool(tt), "the first version of a key with no tombstone above it is retained unconditionally (a constant true path)",
                  "no path of VersionsDeterminer::retain returns true unconditionally: the entry that decides a key's current value can be dropped")
        # every other path compares count with the configured number
        cmp_ok = any(s_["k"] == "bin" and s_["op"] == "Le" for s_ in P.origins(f, {"k": "copy", "pl": {"l": 0, "p": []}}))
        ctx.check(R, f, "count-vs-number", cmp_ok, "otherwise retained iff count <= number", "the retention test is no longer count <= number")


# ------------------------------------------------------------------------------------------------
# C05.10 a policy combinator passes everything on to its children

def c0510(ctx):
    R = "C05.10"
    ctx.declare(R, "a policy combinator (any / all) forwards every method of the Determiner trait to every child: a method it inherits as a "
                   "do-nothing default never reaches a stateful child (a version counter inside any(..) / all(..) would count across keys)")
    T = "sst::gc::Determiner"
    methods = set()
    for (tr, name), fns in ctx.prog.trait_impls.items():
        if tr == T:
            methods.add(name)
    for k in ctx.prog.fns:
        if k.startswith(T + "::") and "{closure" not in k:
            methods.add(k[len(T) + 2:])
    combs = []
    for imp in ctx.prog.impls:
        if imp.get("trait") != T:
            continue
        adt = ctx.prog.adts.get(imp["self"])
        if adt and any("dyn sst::gc::Determiner" in fld[1] for v in adt["variants"] for fld in v["fields"]):
            combs.append(imp)
    ctx.floor(R, "Determiner trait methods", len(methods), 1)
    ctx.floor(R, "policy combinators", len(combs), 2)
    for imp in sorted(combs, key=lambda i: i["self"]):
        have = dict(imp["fns"])
        for m in sorted(methods):
            f = ctx.prog.fns.get(have.get(m)) if m in have else None
            if f is None:
                ctx.check(R, imp["self"], "forwards:" + m, False, "",
                          "%s does not define Determiner::%s and inherits the default: its children never see the call" % (imp["self"], m))
                continue
            calls = [p_ for p_ in P.call_points(f, r"sst::gc::Determiner::%s$" % re.escape(m)) if P.term_at(f, p_).get("rk") == "virtual"]
            heads = [h for h in P.call_points(f, r"Iterator>::next$") if P.reach(f, P.after(f, h), [h])]
            q = None
            for h in heads:
                q = q or P.reach(f, P.after(f, h), [h], avoid=set(calls))
            if not calls and not heads:
                # the loop written as an iterator adaptor that visits every element (`for_each`, `fold`, ..) with a closure that passes the
                # call on, on every path
                vis = [p_ for p_ in P.call_points(f, r"Iterator>?::(for_each|fold|try_for_each|try_fold)$") if not K.DROPPING_ADAPTERS.search(P.term_at(f, p_).get("ga") or "")]
                cl = [g for g in ctx.prog.closures_of(f) if [p_ for p_ in P.call_points(g, r"sst::gc::Determiner::%s$" % re.escape(m)) if P.term_at(g, p_).get("rk") == "virtual"]]
                if vis and len(cl) == 1 and P.must_pass(cl[0], P.call_points(cl[0], r"sst::gc::Determiner::%s$" % re.escape(m)), goals=P.return_points(cl[0])) is None:
                    ctx.ok(R, f, "%s::%s passes the call to every child through an iterator adaptor" % (imp["self"].rsplit("::", 1)[-1], m))
                    continue
            ctx.check(R, f, "forwards:" + m, bool(calls) and bool(heads) and q is None, "%s::%s calls every child's %s" % (imp["self"].rsplit("::", 1)[-1], m, m),
                      "%s::%s does not pass the call on to every child" % (imp["self"], m), path=q)


# ------------------------------------------------------------------------------------------------
# C05.7 the output files of a compaction are handed on in the order they were written

def c057(ctx):
    R = "C05.7"
    ctx.declare(R, "the multi-builder returns its output files in creation order (= ascending key order: it is fed a sorted stream), because "
                   "compaction_finish installs them into the level in the order returned and a level must stay sorted by key")
    n = 0
    bad = []
    for f in sorted(ctx.prog.fns.values(), key=lambda f: f.key):
        if f.crate != "sst" or "SstMultiBuilder" not in (f.impl_self or f.skey):
            continue
        for b, t in f.calls():
            if not t["args"]:
                continue
            srcs = P.origins(f, t["args"][0])
            if not any(s_["k"] == "field" and s_["f"] == "paths" and s_["owner"].endswith("SstMultiBuilder") for s_ in srcs):
                continue
            ck = callee_skey(t) or ""
            # only mutators matter: &mut receivers of Vec / slice methods
            if not re.search(r"^alloc::vec::Vec::|^alloc::slice::|^core::slice::", ck):
                continue
            ty = f.locals[t["args"][0]["pl"]["l"]] if t["args"][0].get("k") in ("copy", "move") else ""
            if not ty.startswith("&mut") and "&mut" not in ty:
                continue
            n += 1
            name = ck.rsplit("::", 1)[-1]
            ok = name in ("push", "reserve", "deref_mut", "as_mut_slice", "len", "is_empty")
            if not ok:
                bad.append((f, P.term_pt(f, b.idx), name))
    ctx.floor(R, "mutations of SstMultiBuilder.paths", n, 1)
    for (f, pt, name) in bad:
        ctx.violate(R, f, "paths-reordered", "SstMultiBuilder.paths is changed by `%s`, not only appended to: the outputs are named 0.sst, 1.sst, .., 10.sst and any "
                    "re-ordering (a lexicographic sort puts 10 before 2) installs them out of key order -- lookups then skip files" % name, pt=pt)
    if not bad:
        ctx.ok(R, "sst::SstMultiBuilder", "paths is only ever appended to (%d mutation sites)" % n)
    # and the consumer keeps that order: compaction_finish hands the paths, in order, to the version
    g = ctx.fn(R, "lsmtk::tree::LsmTree::compaction_finish")
    if g:
        srt = [p_ for p_ in P.call_points(g, r"(alloc|core)::slice::(<impl \[T\]>::)?(sort\w*|reverse)$")]
        ctx.check(R, g, "finish-keeps-order", not srt, "compaction_finish does not reorder the outputs", "compaction_finish reorders the outputs of the multi-builder")


# ------------------------------------------------------------------------------------------------
# C05.8 the multi-builder writes every entry into a file it later seals and reports

def c058(ctx):
    R = "C05.8"
    ctx.declare(R, "every builder the multi-builder opens is recorded in `paths` and sealed before it is let go; put/del forward their entry to the current builder")
    MB = "sst::SstMultiBuilder::"
    SEAL = r"<sst::SstBuilder as sst::Builder>::seal$"
    n = 0
    for key in (MB + "split_hint", MB + "get_builder", "<sst::SstMultiBuilder as sst::Builder>::seal"):
        f = ctx.fn(R, key)
        if not f:
            continue
        takes = [p for p in P.call_points(f, r"core::option::Option::take$") if "builder" in K.arg_field_names(f, p, 0)]
        seals = P.call_points(f, SEAL)
        for pt in takes:
            n += 1
            # a taken builder is either sealed or (None) there was nothing to seal: the only way past `take` without `seal` is the None arm
            none_edges = set()
            for b in P.switch_blocks(f):
                for s_ in K.cond_sources(f, b.idx):
                    if s_["k"] == "call" and s_.get("pt") == pt:
                        none_edges.add((b.idx, "sw:0"))
            byp = P.reach(f, P.after(f, pt), P.return_points(f), avoid=set(seals) | set(P.error_points(f)) | set(P.call_points(f, r"core::option::unwrap_failed$|core::panicking::")),
                          avoid_edges=none_edges)
            ctx.check(R, f, "taken-builder-sealed", bool(seals) and byp is None, "the builder taken out of self.builder is sealed on every path",
                      "a builder is taken out of the multi-builder and can be dropped unsealed: its entries never reach a complete file", pt=pt, path=byp)
    ctx.floor(R, "builder.take() sites", n, 3)
    f = ctx.fn(R, MB + "get_builder")
    if f:
        new = ctx.calls(R, f, r"sst::SstBuilder::new$")
        pu = ctx.calls(R, f, r"alloc::vec::Vec::push$", arg_pred=K.recv_is_field("paths"), what="paths.push")
        ctx.order_chain(R, f, [("paths.push(path)", pu), ("SstBuilder::new(path)", new)])
        for pt in new:
            a = K.root_local(f, P.term_at(f, pt)["args"][1])
            same = False
            for q in pu:
                for src in P.origins(f, P.term_at(f, q)["args"][1], through_calls=False):
                    if src["k"] == "call" and src["callee"].endswith("::clone") and K.ref_base(f, src["t"]["args"][0]) == a:
                        same = True
                if K.root_local(f, P.term_at(f, q)["args"][1]) == a:
                    same = True
            ctx.check(R, f, "recorded-path-is-opened", same, "the path recorded in `paths` is the path the new builder writes", "the path pushed to `paths` is not the path given to SstBuilder::new", pt=pt)
        # the builder handed back is the one stored
        fw = P.field_writes(f, r"SstMultiBuilder$", "builder")
        ctx.check(R, f, "stores-new-builder", any(any(c.endswith("SstBuilder::new") for c in P.origin_calls(f, f.blocks[w[0]].st[w[1]]["rv"].get("a") or (f.blocks[w[0]].st[w[1]]["rv"].get("ops") or [None])[0]))
                                                  for w in fw if w[1] < len(f.blocks[w[0]].st)),
                  "the new builder becomes self.builder", "the builder created by get_builder is not stored in self.builder")
    for m, argn in (("put", 4), ("del", 3)):
        f = ctx.fn(R, "<sst::SstMultiBuilder as sst::Builder>::" + m)
        if not f:
            continue
        gb = ctx.calls(R, f, MB + "get_builder$")
        fw_ = ctx.calls(R, f, r"<sst::SstBuilder as sst::Builder>::%s$" % m)
        ctx.order_chain(R, f, [("get_builder", gb), ("SstBuilder::" + m, fw_)])
        ctx.must_pass(R, f, "SstBuilder::" + m, fw_)
        for pt in fw_:
            a = P.term_at(f, pt)["args"]
            ok = all(any(q["k"] == "param" and q["i"] == i + 1 for q in P.origins(f, a[i], through_calls=False)) for i in range(1, argn))
            ctx.check(R, f, "forwards-arguments", ok and any(c.endswith("get_builder") for c in P.origin_calls(f, a[0])),
                      "%s forwards key, timestamp%s to the builder get_builder returned" % (m, ", value" if m == "put" else ""),
                      "SstMultiBuilder::%s does not forward its own arguments to the current builder" % m, pt=pt)


# ------------------------------------------------------------------------------------------------
# C05.9 the multi-builder cuts its outputs only between two different keys

def c059(ctx):
    R = "C05.9"
    ctx.declare(R, "compaction outputs are cut only between two different keys (or when a table is full): a level never holds the versions of one "
                   "key in two files, so no compaction can carry the newer ones below the older ones")
    f = ctx.fn(R, "sst::SstMultiBuilder::get_builder")
    if not f:
        return
    seals = [p_ for p_ in P.call_points(f, r"sst::SstBuilder as sst::Builder>::seal$")]
    ctx.floor(R, "get_builder rotations", len(seals), 1)
    full_edges, differ_edges = set(), set()
    for b in P.switch_blocks(f):
        srcs = P.switch_cond_sources(f, b.idx)
        negs = sum(1 for x in srcs if x["k"] == "un" and x["op"] == "Not")
        for s_ in srcs:
            if s_["k"] == "bin" and s_["op"] in ("Ge", "Gt"):
                named = [c.get("named", "") for c in P.origin_consts(f, s_["st"]["rv"]["b"])]
                if any(n.endswith("TABLE_FULL_SIZE") for n in named):
                    full_edges.add((b.idx, "sw:0" if negs % 2 else "sw:1"))
            elif s_["k"] == "call" and re.search(r"::(ne|eq)$", s_["callee"]) and len(s_["t"]["args"]) == 2:
                a0, a1 = s_["t"]["args"]
                f0 = {x["f"] for x in P.origins(f, a0) if x["k"] == "field"}
                f1 = {x["f"] for x in P.origins(f, a1) if x["k"] == "field"}
                p0 = any(x["k"] == "param" and x["i"] >= 2 for x in P.origins(f, a0))
                p1 = any(x["k"] == "param" and x["i"] >= 2 for x in P.origins(f, a1))
                if ("last_key" in f0 and p1) or ("last_key" in f1 and p0):
                    differ = s_["callee"].endswith("ne")
                    if negs % 2:
                        differ = not differ
                    differ_edges.add((b.idx, "sw:1" if differ else "sw:0"))
    # the entry methods reach a cut through get_builder(key) only: any other function of the multi-builder that seals the current output
    # (split_hint is one: its one outside caller fires in front of the first version of a key) is not called on behalf of an entry
    cutters = {g.skey for g in ctx.prog.fns.values() if g.crate == "sst" and g.skey.startswith("sst::SstMultiBuilder::") and
               P.call_points(g, r"sst::SstBuilder as sst::Builder>::seal$")}
    for m in ("put", "del"):
        e = ctx.fn(R, "<sst::SstMultiBuilder as sst::Builder>::" + m)
        if not e:
            continue
        bad = [P.term_pt(e, b.idx) for b, t in e.calls() if (callee_skey(t) or "") in cutters and not (callee_skey(t) or "").endswith("::get_builder")]
        ctx.check(R, e, "entry-cuts-through-get_builder-only", not bad, "%s reaches a cut only through get_builder(key)" % m,
                  "SstMultiBuilder::%s calls a function that seals the current output without comparing the incoming key with the builder's last key: "
                  "an output can be cut between two versions of one key" % m, pt=bad[0] if bad else None)
    for p_ in seals:
        q = P.reach(f, P.ENTRY, [p_], avoid_edges=full_edges | differ_edges)
        ctx.check(R, f, "cut-between-keys", q is None and bool(full_edges | differ_edges),
                  "an output is sealed and a new one started only where the incoming key differs from the builder's last key, or the table is full",
                  "SstMultiBuilder::get_builder starts a new output whenever the current one reaches the target size, also between two versions of one "
                  "key: the level then holds [.. K(newer)] [K(older) ..], and a trivial move or compaction that takes the first file alone puts the "
                  "newer versions of K beneath the older ones -- a point read stops at the older one", pt=p_, path=q)
