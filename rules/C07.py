"""C07 — a scan cursor is a stable, memory-safe snapshot: ownership/escape structure."""
import re

from blue import prim as P
from blue.facts import callee_skey, strip_generics
from . import common as K
from . import C03, C08

EXPLANATION = (
    "C07 structural clauses: (C07.1) only the last owner frees: a Drop impl that reaches a free sink (Box::from_raw, close) "
    "either belongs to the shared pointee itself (no Arc field: it runs when the last handle goes) or, if it belongs to a "
    "handle type holding an Arc, the free is guarded by a uniqueness test (strong_count / get_mut / try_unwrap); the "
    "skiplist and its iterator are handles onto the same Arc'd head, cloned by iter(); (C07.2) the cursor returned by "
    "range_scan owns the VersionRef that pins the snapshot's SSTs (ESCAPE); (C07.3) every scan pipeline, including each "
    "memtable cursor, has the pruning stage with the captured timestamp, which screens later writes (C03.1 rules); "
    "(C07.4) SST and block cursors own their data: no field of Sst, SstCursor, Block, BlockCursor is a reference (the "
    "compile-time 'static witness W3 runs in the thorough tier).  who-frees/GUARDED/ESCAPE/type facts over resolved MIR.")
NOT_DECIDED = "which schedules actually free memory under a live cursor; the rules remove the possibility structurally or report it"
ASSUMPTIONS = ["Arc drops its pointee exactly once, when the last strong reference goes"]

FREE_SINK = r"alloc::boxed::Box.*::from_raw$|sst::file_manager::State::close_file$|^libc::(\w+::)*close$|alloc::alloc::dealloc$"
UNIQ = r"alloc::sync::Arc.*::(strong_count|get_mut|try_unwrap|into_inner|is_unique)$"
CRATES = ("skipfree", "listfree", "sst", "sync42", "lsmtk")


def uniq_guarded(f, pt):
    for bb, lab, srcs in K.guards(f, pt):
        if any(s["k"] == "call" and re.search(UNIQ, s["callee"]) for s in srcs):
            return True
    for g in K.compare_guards(f, pt):
        calls = P.origin_calls(f, g["a"]) | P.origin_calls(f, g["b"])
        if any(re.search(UNIQ, c) for c in calls):
            return True
    return False


def rules(ctx):
    from . import C06
    C06.c063(ctx)     # the scan's components (mem, imm, version, timestamp) are captured in one critical section
    C06.c065(ctx)     # the timestamp a scan captures covers only batches that are completely inserted, together with all earlier ones
    c071(ctx)
    C08.c085(ctx, R="C07.2")
    C08.c084(ctx)      # the orphan scan (which ignores reference counts) never runs while a cursor can pin a file
    C08.c082(ctx)      # a file leaves sst/ only when its last reference is released
    C03.c031_store(ctx)
    C03.c031_leaves(ctx)
    from . import C11
    C11.c114(ctx)      # the pruning stage branches on `timestamp <= snapshot` after every step: a write that lands under a live scan is screened
    c074(ctx)


def adt_fields(ctx, ty):
    a = ctx.prog.adts.get(strip_generics(ty))
    if not a:
        return []
    return [(n, t) for v in a["variants"] for (n, t, _p) in v["fields"]]


def c071(ctx):
    R = "C07.1"
    ctx.declare(R, "memory shared through an Arc is freed only by the last owner")
    n = 0
    for f in sorted(ctx.prog.fns.values(), key=lambda f: f.key):
        if f.crate not in CRATES or not (f.impl_trait or "").endswith("ops::drop::Drop") or f.name != "drop":
            continue
        # sinks reachable from this drop within its crate (depth 3)
        reach = ctx.prog.reach([f.key], crates={f.crate}, depth=3)
        sinks = []
        for k in reach:
            g = ctx.prog.fns.get(k)
            if g:
                for pt in P.call_points(g, FREE_SINK):
                    sinks.append((g, pt))
        if not sinks:
            continue
        n += 1
        self_ty = strip_generics(f.impl_self or "")
        arc_fields = [(nm, t) for nm, t in adt_fields(ctx, self_ty) if "alloc::sync::Arc<" in t]
        if not arc_fields:
            ctx.ok(R, f, "%s owns what it frees (no Arc field: it is the pointee / sole owner)" % self_ty, [s[1] for s in sinks if s[0] is f][:2])
            continue
        # a handle type with shared ownership: every path from drop's entry to a sink must pass a uniqueness guard
        for g, pt in sinks:
            if g is f:
                ok = uniq_guarded(f, pt)
            else:
                calls_to_g = [p for p in [P.term_pt(f, b.idx) for b, t in f.calls()] if g.key in ctx.prog.targets(P.term_at(f, p)) or
                              any(g.key in ctx.prog.reach([k], crates={f.crate}, depth=2) for k in ctx.prog.targets(P.term_at(f, p)))]
                ok = bool(calls_to_g) and all(uniq_guarded(f, p) for p in calls_to_g)
            if ok:
                ctx.ok(R, f, "%s holds %s and frees only behind a uniqueness test" % (self_ty, [a for a, _ in arc_fields]), [pt] if g is f else [])
            else:
                ctx.violate(R, f, "unguarded free of shared nodes",
                            "%s holds a shared %s (other handles are created by cloning it) but its Drop frees through %s without testing that it is the "
                            "last owner: a surviving handle reads freed memory" % (self_ty, [t for _a, t in arc_fields][0], P.short(callee_skey(P.term_at(g, pt)))),
                            pt=pt if g is f else None)
    ctx.floor(R, "Drop impls that free", n, 4)
    # a `strong_count == k` test with k >= 2 says `only the registry and I hold this`: the registry hands out further clones under its
    # lock, so the test and the free it allows are one critical section of that lock -- otherwise an open can slip in between them
    nreg = 0
    for f in sorted(ctx.prog.fns.values(), key=lambda f: f.key):
        if f.crate not in CRATES or not (f.impl_trait or "").endswith("ops::drop::Drop") or f.name != "drop":
            continue
        for p_ in P.call_points(f, r"alloc::sync::Arc.*::strong_count$"):
            dest = P.term_at(f, p_)["dest"]["l"]
            ks = []
            for b in f.blocks:
                for st in b.st:
                    if st["s"] == "=" and st["rv"]["r"] == "bin" and st["rv"]["op"] in ("Eq", "Ne"):
                        a_, b_ = st["rv"]["a"], st["rv"]["b"]
                        if K.root_local(f, a_) == dest and b_.get("k") == "const" and isinstance(b_["c"].get("v"), int):
                            ks.append(b_["c"]["v"])
            if not ks or max(ks) < 2:
                continue
            nreg += 1
            h = P.held(ctx.prog, f)
            locks = h.locks_at(p_, must=True)
            ctx.check(R, f, "count-test-under-registry-lock", bool(locks),
                      "the `strong_count == %d` test is made with %s held, the lock under which the registry clones the Arc" % (max(ks), sorted(locks)),
                      "%s tests `strong_count == %d` (the registry and this handle) without holding the registry's lock: an open can clone the Arc "
                      "between the test and the close, and the handle it returns then refers to an unregistered descriptor" % (strip_generics(f.impl_self or ""), max(ks)),
                      pt=p_)
    ctx.floor(R, "Drop impls that test `only the registry and I`", nreg, 1)
    # the skiplist and its iterator are handles onto the same Arc'd head, and iter() clones that Arc
    sl = dict(adt_fields(ctx, "skipfree::SkipList"))
    it = dict(adt_fields(ctx, "skipfree::SkipListIterator"))
    ok = "head" in sl and "head" in it and sl["head"] == it["head"] and sl["head"].startswith("alloc::sync::Arc<")
    ctx.check(R, "skipfree::SkipList", "shared-head", ok, "SkipList.head and SkipListIterator.head are the same Arc type (%s)" % sl.get("head"),
              "SkipList and SkipListIterator no longer share one Arc'd head")
    f = ctx.fn(R, "skipfree::SkipList::iter")
    if f:
        n2 = 0
        for b in f.blocks:
            for i, st in enumerate(b.st):
                rv = st.get("rv", {})
                if rv.get("r") == "agg" and strip_generics(rv.get("adt", "")) == "skipfree::SkipListIterator":
                    n2 += 1
                    if "head" not in rv["fields"]:
                        ctx.check(R, f, "iter-clones-head", False, "", "the iterator is built without a `head` field holding a clone of the list's Arc", pt=(b.idx, i))
                        continue
                    o = rv["ops"][rv["fields"].index("head")]
                    ctx.check(R, f, "iter-clones-head", K.origin_chain(f, o, ["Clone>::clone", ".head"]) or
                              (any(s["k"] == "call" and s["callee"].endswith("Clone>::clone") for s in P.origins(f, o)) and ".head" in K.src_names(f, o)),
                              "iter() puts Arc::clone(&self.head) into the iterator", "the iterator does not hold a clone of the list's Arc", pt=(b.idx, i))
        ctx.floor(R, "SkipListIterator construction", n2, 1)
    # pointee of the Arc is the type whose Drop frees
    head_ty = (sl.get("head") or "")
    m = re.match(r"alloc::sync::Arc<(.*)>$", head_ty)
    pointee = strip_generics(m.group(1)) if m else ""
    droppers = {strip_generics(g.impl_self or "") for g in ctx.prog.fns.values() if g.crate == "skipfree" and (g.impl_trait or "").endswith("ops::drop::Drop")}
    ctx.check(R, "skipfree", "pointee-frees", pointee in droppers and "skipfree::SkipList" not in droppers and "skipfree::SkipListIterator" not in droppers,
              "the Arc's pointee (%s) is the only skipfree type with a Drop impl" % pointee,
              "skipfree Drop impls are on %s; the Arc's pointee is %s" % (sorted(droppers), pointee))


OWNING = ["sst::Sst", "sst::SstCursor", "sst::block::Block", "sst::block::BlockCursor", "sst::file_manager::FileHandle",
          "lsmtk::kvs::memtable::MemTableCursor", "lsmtk::kvs::memtable::SkipListIteratorWrapper", "skipfree::SkipListIterator"]


def c074(ctx):
    R = "C07.4"
    ctx.declare(R, "cursors own their data: no borrowed field")
    for ty in OWNING:
        fs = adt_fields(ctx, ty)
        if not fs:
            ctx.violate(R, ty, "anchor", "type %s not found" % ty, kind="anchor-missing")
            continue
        refs = [(n, t) for n, t in fs if t.startswith("&") or re.search(r"[<( ,]&", t)]
        ctx.check(R, ty, "no-borrow", not refs, "%s has no reference-typed field (%d fields)" % (ty, len(fs)),
                  "%s borrows: %s" % (ty, refs))
    # block bytes and file descriptors are held through Arc
    b = dict(adt_fields(ctx, "sst::block::Block"))
    ctx.check(R, "sst::block::Block", "arc-bytes", b.get("bytes", "").startswith("alloc::sync::Arc<"), "Block.bytes is an Arc (cursors share, never borrow)",
              "Block.bytes is no longer an Arc: %s" % b.get("bytes"))
    fh = dict(adt_fields(ctx, "sst::file_manager::FileHandle"))
    ctx.check(R, "sst::file_manager::FileHandle", "arc-file", fh.get("file", "").startswith("alloc::sync::Arc<"), "FileHandle.file is an Arc<File>",
              "FileHandle.file is no longer an Arc: %s" % fh.get("file"))
