"""C12 — the log: durability chain, reader gates, writer/reader frame tables, split protocol, poisoning."""
import re

from blue import prim as P
from blue.facts import callee_skey, strip_generics
from . import common as K
from . import C02, C09

EXPLANATION = (
    "C12 structural clauses: append returns only after the covering fdatasync (C02.1 rules, re-evaluated here); the frame "
    "CRC gate and the header size bounds (C09.1/C09.3 rules for the log reader); (C12.1) the set of discriminants the "
    "writer stores in Header equals the set the reader accepts, and a FIRST frame is followed by true_up < next_frame < "
    "the SECOND comparison; (C12.2) append_split writes header(first) < payload(first) < true_up < header(second) < "
    "payload(second) and _append checks size/rollover before any write; (C12.3) every failure exit of "
    "ConcurrentLogBuilder::append after the queue was entered passes poison.store(true); (C12.4) R-ERR and explicit-panic "
    "audit over the log reader.  ORDER/GUARDED/ORIGIN over resolved MIR.")
NOT_DECIDED = ("boundary arithmetic for every batch size, the prefix property under every truncation point, exactly-once "
               "under all interleavings (queue structure: C18)")
ASSUMPTIONS = ["crc32c::crc32c is a CRC-32C of its argument", "fdatasync makes earlier writes to the descriptor durable"]

LOG = "sst::log::"


def rules(ctx):
    C02.c021(ctx)
    c12_reader_gates(ctx)
    c121(ctx)
    c122(ctx)
    c123(ctx)
    c124(ctx)
    c125(ctx)
    c126(ctx)
    c127(ctx)
    C09.c096(ctx)
    # "each batch exactly once and whole" under concurrent appends rests on the coalescing queue handing every input to the core once
    from . import C18
    C18.c181(ctx)


def c12_reader_gates(ctx):
    # the log-reader halves of C09.1 / C09.3
    R = "C09.1"
    f = ctx.fn(R, LOG + "LogIterator::next_frame")
    if f:
        oks = [p for p in P.ok_points(f) if C09._ok_is_some(f, p)]
        ctx.floor(R, f.skey + " Ok(Some(header)) exits", len(oks), 1)
        for pt in oks:
            g = K.equal_edge_guard(f, pt, K.has("crc32c()"), K.has(".crc32c"))
            ctx.check(R, f, "crc-gate:frame", g is not None, "Ok(Some(header)) is dominated by the equal edge of crc32c(buffer) vs header.crc32c",
                      "a frame is handed out without its CRC having compared equal", pt=pt)
        # the frame buffer is sized by the header produced by next_header (validated producer)
        for pt in P.call_points(f, r"alloc::vec::Vec::resize$"):
            srcs, _ = P.value_slice(f, P.term_at(f, pt)["args"][1])
            ctx.check("C09.3", f, "alloc resize", any(s["k"] == "call" and s["callee"].endswith("LogIterator::next_header") for s in srcs),
                      "the frame buffer is sized from the header returned by next_header", "frame buffer size does not come from next_header", pt=pt)
    C09.c093_header(ctx)


def header_discriminants(fn):
    """(point, const source) for every `Header { discriminant: <const> }` aggregate in fn."""
    out = []
    for b in fn.blocks:
        for i, st in enumerate(b.st):
            if st["s"] != "=":
                continue
            rv = st["rv"]
            if rv.get("r") == "agg" and strip_generics(rv.get("adt", "")) == "sst::log::Header" and "discriminant" in rv.get("fields", []):
                o = rv["ops"][rv["fields"].index("discriminant")]
                for c in P.origin_consts(fn, o):
                    out.append(((b.idx, i), c))
    return out


def discr_compares(fn):
    """Comparisons one operand of which reads Header.discriminant and the other is a constant:
    [(point, op, const source)]."""
    out = []
    for b in fn.blocks:
        for i, st in enumerate(b.st):
            if st["s"] != "=":
                continue
            rv = st["rv"]
            if rv.get("r") == "bin" and rv["op"] in ("Eq", "Ne"):
                na, nb = K.src_names(fn, rv["a"]), K.src_names(fn, rv["b"])
                for x, y, oy in ((na, nb, rv["b"]), (nb, na, rv["a"])):
                    if ".discriminant" in x:
                        for c in P.origin_consts(fn, oy):
                            out.append(((b.idx, i), rv["op"], c))
    return out


def c121(ctx):
    R = "C12.1"
    ctx.declare(R, "the frame kinds the writer emits are exactly the kinds the reader accepts; FIRST is completed by SECOND")
    written = {}
    for name in ("LogBuilder::_append", "LogBuilder::append_split"):
        f = ctx.fn(R, LOG + name)
        if f:
            for pt, c in header_discriminants(f):
                written[c.get("named", str(c.get("v")))] = c.get("v")
    ctx.floor(R, "discriminants written", len(written), 3)
    nx = ctx.fn(R, LOG + "LogIterator::next")
    if not nx:
        return
    # the function that assembles a batch from frames: LogIterator::next itself, or the helper it calls for that
    cands = [g for g in ctx.prog.fns.values() if g.skey.startswith(LOG + "LogIterator::") and len(P.call_points(g, LOG + r"LogIterator::next_frame$")) >= 2]
    rd = nx if nx in cands else (sorted(cands, key=lambda g: g.skey)[0] if cands else nx)
    if rd is not nx:
        ctx.check(R, nx, "assembles-through", any(rd.key in ctx.prog.targets(t) for _b, t in nx.calls()), "LogIterator::next assembles batches through %s" % rd.skey,
                  "LogIterator::next does not call the frame-assembling function %s" % rd.skey)
    tests = K.value_tests(rd, lambda fn_, o_: ".discriminant" in K.src_names(fn_, o_))
    val = lambda n_: (ctx.prog.consts.get("sst::log::" + n_) or {}).get("v")
    accepted = sorted({t_["value"] for t_ in tests})
    ctx.check(R, rd, "tables", set(written.values()) == set(accepted) and len(set(written.values())) == len(written),
              "writer discriminants %s == reader discriminants %s, all distinct" % (sorted(written), accepted),
              "writer stores discriminants %s but the reader tests for %s" % (sorted(written.items()), accepted))
    # FIRST: true_up < next_frame(2nd) < SECOND test, all on the FIRST-equal edge
    first_t = [t_ for t_ in tests if t_["value"] == val("HEADER_FIRST")]
    second_t = [t_ for t_ in tests if t_["value"] == val("HEADER_SECOND")]
    whole_t = [t_ for t_ in tests if t_["value"] == val("HEADER_WHOLE")]
    first_cmp = [t_["pt"] for t_ in first_t]
    second_cmp = [t_["pt"] for t_ in second_t]
    second_eq = {e_ for t_ in second_t for e_ in t_["eq_edges"]}
    whole_eq = {e_ for t_ in whole_t for e_ in t_["eq_edges"]}
    tu = ctx.calls(R, rd, LOG + r"LogIterator::true_up$")
    nf = ctx.calls(R, rd, LOG + r"LogIterator::next_frame$", floor=2)
    nf2 = [p for p in nf if not P.order(rd, tu, [p])]
    ctx.check(R, rd, "second-frame", bool(nf2) and bool(first_cmp) and bool(second_cmp), "a second next_frame follows true_up on the FIRST edge",
              "no second frame is read after a FIRST frame")
    if nf2 and first_cmp and second_cmp:
        ctx.order_chain(R, rd, [("discriminant == HEADER_FIRST", first_cmp), ("true_up", tu), ("next_frame (second)", nf2),
                                ("discriminant != HEADER_SECOND", second_cmp)])
        # ... and true_up is reached only on the FIRST-equal edge
        for p_ in tu:
            q = P.reach(rd, P.ENTRY, [p_], avoid_edges={e_ for t_ in first_t for e_ in t_["eq_edges"]})
            ctx.check(R, rd, "first-edge", q is None, "the second frame is read only for a FIRST frame", "the second-frame path is reachable for a frame that is not FIRST", pt=p_, path=q)
    if tu and second_cmp:
        c121_first_needs_second(ctx, rd, tu, second_eq)
    # the buffered entries are handed out only after a WHOLE or a FIRST+SECOND pair: next_from_buffer at the end is reached
    # only through the WHOLE-equal edge or through the SECOND test
    nb = P.call_points(rd, LOG + r"LogIterator::next_from_buffer$")
    tail = [p for p in nb if not P.order(rd, nf, [p])]
    # a helper reports `a batch is ready` by Ok(true): those exits are hand-outs too
    for p in P.ok_points(rd):
        st_ = rd.blocks[p[0]].st[p[1]]
        o_ = st_["rv"]["ops"][0] if st_["rv"].get("ops") else None
        if o_ is not None and o_.get("k") == "const" and o_["c"].get("ty") == "bool" and o_["c"].get("v") == 1:
            tail.append(p)
    ctx.floor(R, "hand-out points of the frame assembler", len(tail), 1)
    for pt in tail:
        p1 = P.reach(rd, P.ENTRY, [pt], avoid_edges=whole_eq | second_eq)
        ctx.check(R, rd, "hand-out", p1 is None, "entries of a frame are handed out only for WHOLE or after the SECOND check",
                  "buffered entries can be handed out for a frame that is neither WHOLE nor a completed FIRST+SECOND", pt=pt, path=p1)
        # after a FIRST frame the hand-out is reached only through the equal edge of the SECOND test
        starts = [q for n in nf2 for q in P.after(rd, n)]
        p2 = P.reach(rd, starts, [pt], avoid_edges=second_eq)
        ctx.check(R, rd, "second-gate", p2 is None and bool(second_cmp),
                  "after a FIRST frame the entries are handed out only on the equal edge of discriminant == HEADER_SECOND",
                  "a FIRST frame can be completed by a frame that is not SECOND", pt=pt, path=p2)


def c121_first_needs_second(ctx, rd, tu, second_eq):
    """Once a FIRST frame has been read, the only way not to fail is a SECOND frame: an end of input there is a cut inside a batch, which the
    reader cannot tell from `the writer died before the second frame` and must report."""
    R = "C12.1"
    starts = [q for t_ in tu for q in P.after(rd, t_)]
    for p in P.ok_points(rd):
        q = P.reach(rd, starts, [p], avoid_edges=second_eq) if starts else None
        ctx.check(R, rd, "first-without-second-is-an-error", q is None and bool(starts), "after a FIRST frame no success exit is reached except through the SECOND frame",
                  "after a FIRST frame the reader can return success without having read its SECOND frame (an end of input there is answered `log ended`): "
                  "a log cut between the two frames of a split batch replays without error, minus that batch", pt=p, path=q)


def _equal_edges(fn, cmp_pts):
    """Edges of the switches on the given Eq/Ne comparison statements that are taken when equal."""
    out = set()
    for b in P.switch_blocks(fn):
        for s in K.cond_sources(fn, b.idx):
            if s["k"] == "bin" and s["pt"] in set(cmp_pts):
                eq_lab = "sw:1" if s["op"] == "Eq" else "sw:0"
                out.add((b.idx, eq_lab))
    return out


def c122(ctx):
    R = "C12.2"
    ctx.declare(R, "a split record is written header/payload/pad/header/payload; nothing is written before the size checks")
    f = ctx.fn(R, LOG + "LogBuilder::append_split")
    if f:
        wh = ctx.calls(R, f, LOG + r"LogBuilder::write_header$", floor=2)
        wr = ctx.calls(R, f, LOG + r"LogBuilder::write$", floor=2)
        tu = ctx.calls(R, f, LOG + r"LogBuilder::true_up$", floor=1)

        def disc_of(pt):
            t = P.term_at(f, pt)
            names = set()
            for s in P.origins(f, t["args"][1]):
                if s["k"] == "agg" and s.get("adt") == "sst::log::Header":
                    rv = s["st"]["rv"]
                    o = rv["ops"][rv["fields"].index("discriminant")]
                    names |= {c.get("named", "").rsplit("::", 1)[-1] for c in P.origin_consts(f, o)}
            return names
        wh1 = [p for p in wh if "HEADER_FIRST" in disc_of(p)]
        wh2 = [p for p in wh if "HEADER_SECOND" in disc_of(p)]

        def range_of(pt):
            t = P.term_at(f, pt)
            out = set()
            for s in P.origins(f, t["args"][1]):
                if s["k"] == "call" and s["callee"].endswith("::index"):
                    m = re.search(r"core::ops::range::(\w+)<", s["t"].get("ga", ""))
                    if m:
                        out.add(m.group(1))
            return out
        wr1 = [p for p in wr if "RangeTo" in range_of(p)]
        wr2 = [p for p in wr if "RangeFrom" in range_of(p)]
        # the true_up between the halves (there is an earlier one on the tiny-roundup path)
        tu_mid = [p for p in tu if wr1 and not P.order(f, wr1, [p])]
        ok = all((wh1, wh2, wr1, wr2, tu_mid))
        ctx.check(R, f, "sites", ok, "found header(first), payload(first), true_up, header(second), payload(second)",
                  "append_split no longer has the five write steps (first=%s second=%s w1=%s w2=%s pad=%s)" % (wh1, wh2, wr1, wr2, tu_mid))
        if ok:
            ctx.order_chain(R, f, [("write_header(FIRST)", wh1), ("write(first half)", wr1), ("true_up(nb)", tu_mid),
                                   ("write_header(SECOND)", wh2), ("write(second half)", wr2)])
            ctx.must_pass(R, f, "write(second half)", wr2, extra_avoid=P.call_points(f, LOG + r"LogBuilder::_append$"))
    f = ctx.fn(R, LOG + "LogBuilder::_append")
    if f:
        ck = ctx.calls(R, f, r"sst::check_table_size$")
        writes = P.call_points(f, LOG + r"LogBuilder::(write_header|write|append_split|true_up)$")
        ctx.floor(R, f.skey + " write sites", len(writes), 3)
        ctx.order_chain(R, f, [("check_table_size", ck), ("any write", writes)])
        for pt in writes:
            g = [x for x in K.compare_guards(f, pt) if ".rollover_size" in (K.src_names(f, x["a"]) | K.src_names(f, x["b"])) and not x["holds"]]
            ctx.check(R, f, "rollover-gate", bool(g), "write is dominated by the failing edge of new_offset > rollover_size",
                      "a write is reachable without the rollover-size check", pt=pt)
    f = ctx.fn(R, LOG + "LogBuilder::append")
    if f:
        ap = ctx.calls(R, f, LOG + r"LogBuilder::_append$")
        for pt in ap:
            g = K.guarded_by_call(f, pt, r"Vec::is_empty$", label="sw:0")
            ctx.check(R, f, "empty-gate", g is not None, "_append is reached only for a non-empty batch",
                      "an empty batch can be appended (the reader treats an empty frame as an error)", pt=pt)


def c123(ctx):
    R = "C12.3"
    ctx.declare(R, "a failed write or sync poisons the concurrent builder before the error is returned")
    f = ctx.fn(R, LOG + "ConcurrentLogBuilder::append")
    if not f:
        return
    dw = P.call_points(f, r"WorkCoalescingQueue::do_work$")
    st = ctx.calls(R, f, r"core::sync::atomic::Atomic(Bool)?(::<bool>)?::store$", arg_pred=K.recv_is_field("poison"), what="poison.store", floor=2)
    errs = [p for p in P.error_points(f) if dw and not P.order(f, dw, [p])]
    ctx.floor(R, f.skey + " error exits after the queue", len(errs), 2)
    for pt in errs:
        bad = P.order(f, st, [pt])
        ctx.check(R, f, "poison-before-err", not bad, "the error exit is preceded by poison.store(true)",
                  "an error exit after the queue was entered does not poison the builder", pt=pt,
                  path=bad[0][1] if bad else None)
    for pt in st:
        cs = K.arg_consts(f, pt, 1)
        ctx.check(R, f, "poison-value", any(c.get("v") == 1 for c in cs), "poison.store stores true", "poison.store does not store true", pt=pt)


def c124(ctx):
    R = "C12.4"
    ctx.declare(R, "no error is lost or becomes a panic in the log reader and replay")
    entries = [LOG + "LogIterator::<std::fs::File>::new", LOG + "LogIterator::next", LOG + "log_to_builder", LOG + "log_to_setsum",
               LOG + "truncate_final_partial_frame"]
    fns = K.reach_fns(ctx, entries, ("sst",), rule=R, stop=C09.STOP)
    n = K.r_err(ctx, R, fns, {})
    from .C09_exc import PANIC_EXC
    exc = {k: v for k, v in PANIC_EXC.items() if any(f.skey == k[0] for f in fns)}
    K.panic_audit(ctx, R + "p", fns, exc)
    ctx.floor(R, "R-ERR sites in the log reader", n, 25)
    from .C09_exc import BOUNDS_EXC
    ctx.declare(R + "b", "log bytes are never indexed beyond the length a dominating comparison established for that same buffer")
    bexc = {k: v for k, v in BOUNDS_EXC.items() if any(f.skey == k[0] for f in fns)}
    nb, pb = K.bounds_audit(ctx, R + "b", fns, bexc, elem=r"^u8$")
    ctx.floor(R + "b", "byte-buffer index / slice sites in the log reader", nb, 2)


# ------------------------------------------------------------------------------------------------
# C12.5 an error leaves no bytes of the failed batch behind: a later poll cannot hand out part of it

def c126(ctx):
    R = "C12.6"
    ctx.declare(R, "the reader accepts every frame size the writer can produce: the constant the reader bounds header.size with is at least "
                   "the constant the writer's batch-size gate admits")
    w = ctx.fn(R, "sst::log::check_batch_size")
    r = ctx.fn(R, "sst::log::LogIterator::next_header")
    if not w or not r:
        return
    admit = []
    for b in P.switch_blocks(w):
        for s_ in K.cond_sources(w, b.idx):
            if s_["k"] == "bin" and s_["op"] in ("Gt", "Ge"):
                c = s_["st"]["rv"]["b"]
                if c.get("k") == "const" and "v" in c.get("c", {}):
                    admit.append(c["c"]["v"] - (1 if s_["op"] == "Ge" else 0))
    ctx.floor(R, "check_batch_size: size gates", len(admit), 1)
    oks = [p for p in P.ok_points(r) if C09._ok_is_some(r, p)]
    ctx.floor(R, "next_header: Ok(Some) exits", len(oks), 1)
    if not admit:
        return
    wmax = max(admit)
    for p in oks:
        d = [(x["op"], K.src_names(r, x["a"]), K.src_names(r, x["b"]), x["holds"]) for x in K.compare_guards(r, p)]
        vals = [int(n[1:]) - (1 if op == "Ge" else 0) for op, a, b, h in d if op in ("Gt", "Ge") and ".size" in a and not h for n in b if re.fullmatch(r"#\d+", n)]
        ctx.check(R, r, "reader-bound-covers-writer", bool(vals) and min(vals) >= wmax,
                  "the reader's frame-size bound (%s) is at least the largest batch the writer admits (%d)" % (min(vals) if vals else None, wmax),
                  "next_header rejects frames larger than %s but the writer admits batches of up to %d bytes (check_batch_size), and a batch that starts on a block "
                  "boundary is framed whole: an intact, acknowledged log is reported corrupt" % (min(vals) if vals else None, wmax), pt=p)


def c127(ctx):
    R = "C12.7"
    ctx.declare(R, "a log whose write failed takes no more batches: a failed write can leave part of a frame in the file, and whatever is appended and "
                   "acknowledged afterwards sits behind that torn frame, where no reader reaches it")
    LB = r"log::LogBuilder$"
    ap = ctx.fn(R, LOG + "LogBuilder::append")
    if not ap:
        return
    # the flag: a bool field of LogBuilder that append reads before it writes anything
    inner = P.call_points(ap, r"sst::log::LogBuilder::_append$|sst::log::LogBuilder::(write|write_header|append_split)$")
    ctx.floor(R, "LogBuilder::append: calls that write", len(inner), 1)
    flags = set()
    for pt in inner:
        for bb, lab, srcs in K.guards(ap, pt):
            for x in srcs:
                if x["k"] == "field" and re.search(LB, strip_generics(x.get("owner", ""))) and x.get("ty", "bool") == "bool":
                    flags.add(x["f"])
    ctx.check(R, ap, "failure-refuses-appends", bool(flags), "append writes only while the builder's failure flag (%s) is clear" % ", ".join(sorted(flags)),
              "LogBuilder::append writes without asking whether an earlier write of this builder failed: after a write error in the middle of a frame "
              "later batches are accepted and acknowledged behind the torn frame (ConcurrentLogBuilder's own `poison` flag is written and never read)",
              pt=inner[0] if inner else None)
    # every write of the builder records its failure in that flag
    n = 0
    for f in sorted(ctx.prog.fns.values(), key=lambda f: f.key):
        if f.crate != "sst" or not f.skey.startswith("sst::log::LogBuilder::"):
            continue
        for pt in P.call_points(f, r"BufWriter.* as std::io::Write>::(write_all|write|flush)$|std::io::Write::write_all$"):
            n += 1
            if not flags:
                continue
            ws = [w for fl in flags for w in P.field_writes(f, LB, fl)]
            # some store of the flag is taken on an edge that depends on the result of this very call (directly, or through a wrapper
            # such as io_result_with_context that is handed the result)
            def depends(srcs):
                for x in srcs:
                    if x["k"] != "call":
                        continue
                    if x["pt"] == pt:
                        return True
                    if any(y["k"] == "call" and y["pt"] == pt for a in x["t"]["args"] for y in P.origins(f, a)):
                        return True
                return False
            q = None if any(depends(srcs) for w in ws for _bb, _lab, srcs in K.guards(f, w)) else [("no store of the failure flag depends on this call", pt)]
            ctx.check(R, f, "failure-recorded", q is None, "a failed %s sets the failure flag before the error is returned" % P.short(callee_skey(P.term_at(f, pt))),
                      "%s can return the error of a failed write without recording it in the builder" % f.skey, pt=pt)
    ctx.floor(R, "LogBuilder: writes to the output", n, 2)
    # a frame is written piece by piece through LogBuilder::write: once a piece is out, nothing may refuse the next one without marking the
    # builder -- every error exit of the piece writer passes a store of the failure flag (size and rollover gates sit in _append, before
    # the first piece)
    w = ctx.fn(R, LOG + "LogBuilder::write")
    if w and flags:
        ws = [x for fl in flags for x in P.field_writes(w, LB, fl)]
        for e in P.error_points(w):
            q = P.reach(w, P.ENTRY, [e], avoid=set(ws))
            ctx.check(R, w, "no-refusal-between-pieces", q is None, "every error exit of the piece writer marks the builder as failed",
                      "LogBuilder::write can refuse a piece of a frame (an error that is not a recorded write failure): the pieces already written -- a "
                      "FIRST frame, padding, a SECOND header -- stay in the log, and later batches are acknowledged behind them", pt=e, path=q)


def c125(ctx):
    R = "C12.5"
    ctx.declare(R, "LogIterator::next hands out entries only from a batch that assembled and verified completely: every error exit that follows "
                   "a read into the batch buffer clears the buffer first")
    f = ctx.fn(R, LOG + "LogIterator::next")
    if not f:
        return
    # functions that may leave unverified bytes in LogIterator.buffer: those that resize it, and their callers inside the iterator
    dirty = set()
    fns = [g for g in ctx.prog.fns.values() if g.skey.startswith(LOG + "LogIterator::")]
    for g in fns:
        for p_ in P.call_points(g, r"alloc::vec::Vec::resize$"):
            if "buffer" in K.arg_field_names(g, p_, 0):
                dirty.add(g.key)
    changed = True
    while changed:
        changed = False
        for g in fns:
            if g.key in dirty or g.key == f.key:
                continue
            if any(k_ in dirty for _b, t in g.calls() for k_ in ctx.prog.targets(t)):
                dirty.add(g.key)
                changed = True
    ctx.floor(R, "LogIterator functions that fill the batch buffer", len(dirty), 1)
    fills = [P.term_pt(f, b.idx) for b, t in f.calls() if any(k_ in dirty for k_ in ctx.prog.targets(t))]
    fills += [p_ for p_ in P.call_points(f, r"alloc::vec::Vec::resize$") if "buffer" in K.arg_field_names(f, p_, 0)]
    ctx.floor(R, "LogIterator::next: calls that fill the batch buffer", len(fills), 1)
    clears = [p_ for p_ in P.call_points(f, r"alloc::vec::Vec::(clear|truncate)$") if "buffer" in K.arg_field_names(f, p_, 0)]
    errs = P.error_points(f)
    for p_ in fills:
        q = P.reach(f, P.after(f, p_), errs, avoid=set(clears)) if errs else None
        ctx.check(R, f, "error-clears-the-batch", q is None and bool(errs),
                  "an error after this read reaches the caller only through buffer.clear()",
                  "LogIterator::next can return an error while the batch buffer still holds the bytes read so far (unverified, or the FIRST half of a "
                  "split batch): the next poll starts with `buffer_idx < buffer.len()` and hands out entries of the batch that failed", pt=p_, path=q)
