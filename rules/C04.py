"""C04 — setsum bookkeeping: presence and placement of every balance gate and accumulator."""
import re

from blue import prim as P
from blue.facts import callee_skey, strip_generics
from . import common as K

EXPLANATION = (
    "C04 structural clauses: (C04.1) compaction_finish commits (apply_manifest_compaction) only on the equal edge of "
    "input == output + discard; (C04.2) every store-manifest transaction carries 'I', 'O' and 'D' before it is applied; "
    "(C04.3) the tree's recomputed setsum is compared with the manifest's 'O' on open and asserted equal to the planned "
    "output before every install_version; (C04.4) every builder accumulates each entry into its setsum and seal stores "
    "that digest in the final block; log append and batch merge add the batch setsum; (C04.5) in GC every input entry is "
    "either rewritten or added to the discard setsum handed to compaction_finish; (C04.6) the verifier's balance gates "
    "exist, fail closed and dominate its Ok exit; (C04.7) the flush thread compares the sealed SST's setsum with the "
    "log's before ingesting; (C04.8) every file a transaction adds is opened and its entries accumulated; (C04.9) the replay of a garbage "
    "collection accepts only once the replayed collector is exhausted (a key the policy retains that is in no output is a loss, also behind "
    "the last output entry).  GUARDED/ORDER/ORIGIN + equality-gate table over resolved MIR.")
NOT_DECIDED = ("that the recorded sums are the right numbers for every history, and the rejection half (every single-entry "
               "tamper is caught): both are arithmetic over contents")
ASSUMPTIONS = ["setsum::Setsum's operators implement the multiset-hash algebra (C14)"]

TREE = "lsmtk::tree::LsmTree::"
KVS = "lsmtk::kvs::KeyValueStore::"
VER = "lsmtk::verifier::"


def rules(ctx):
    c041(ctx)
    c042(ctx)
    c043(ctx)
    c044(ctx)
    c045(ctx)
    c046(ctx)
    c047(ctx)
    c048(ctx)
    c049(ctx)
    c0410(ctx)
    from . import C13
    C13.c135(ctx)
    from . import C05
    C05.c053(ctx)   # every output that is summed into the edit's 'O' is also named by the edit (and every input removed)
    from . import C08
    C08.c087(ctx)   # the verifier accepts a history with a same-file compaction: what an edit adds back is not waited for in trash/


def gate_dominates(f, g, pt):
    """pt is reachable only through the equal edge of gate g."""
    return P.edge_dominates(f, g["bb"], g["equal_label"], pt)


def c041(ctx):
    R = "C04.1"
    ctx.declare(R, "a compaction is committed only if input == output + discard")
    f = ctx.fn(R, TREE + "compaction_finish")
    if not f:
        return
    am = ctx.calls(R, f, TREE + "apply_manifest_compaction$")
    gates = K.equality_gates(f)
    # name-free: input = parameter 5, discard = parameter 6, output = an accumulator of from_digest(stat(path).setsum)
    g = K.find_gate_sig(gates, {"p5"}, {"p6", "acc"})
    ctx.check(R, f, "balance-gate", g is not None and g["fails_closed"],
              "input_setsum is compared with output_setsum + discard_setsum and inequality leads only to error returns",
              "the input == output + discard comparison is missing or no longer fails closed")
    if g:
        for pt in am:
            ctx.check(R, f, "gate-dominates", gate_dominates(f, g, pt), "apply_manifest_compaction is reached only on the equal edge",
                      "apply_manifest_compaction is reachable without the balance check having passed", pt=pt)
        # output_setsum accumulates the setsum of every linked output: add_assign in the link loop
        aa = [p for p in P.call_points(f, r"setsum::Setsum as core::ops::arith::AddAssign>::add_assign$")]
        hl = P.call_points(f, r"std::fs::hard_link$")
        ctx.check(R, f, "output-accumulates", bool(aa) and bool(hl) and all(P.reach(f, P.after(f, a), hl) is not None for a in aa),
                  "output_setsum += setsum of each output inside the link loop", "output_setsum no longer accumulates every linked output")
        # the value passed on as discard is the one that was balanced
        for pt in am:
            ctx.check(R, f, "discard-forwarded", "p6" in K.sig(f, P.term_at(f, pt)["args"][2]),
                      "the balanced discard_setsum is what apply_manifest_compaction records",
                      "apply_manifest_compaction is given a discard other than the balanced one", pt=pt)


STORE_APPLY_FNS = [KVS + "open", TREE + "open", KVS + "recover_one", TREE + "apply_manifest_ingest", TREE + "apply_manifest_compaction"]


def c042(ctx):
    R = "C04.2"
    ctx.declare(R, "every store-manifest transaction records input, output and discard setsums")
    callers = {sk for sk, (f, pts) in K.callers_of(ctx, r"mani::Manifest::apply$", crates=("lsmtk",)).items()
               if not sk.startswith("lsmtk::verifier::")}
    ctx.floor(R, "functions applying store-manifest edits", len(callers), 5)
    missing = set(STORE_APPLY_FNS) - callers
    ctx.check(R, "lsmtk", "apply-callers", not missing, "the store manifest is edited by %s (each checked for I/O/D below)" % sorted(callers),
              "anchored store-manifest writers no longer call Manifest::apply: %s" % sorted(missing))
    for key in sorted(callers | set(STORE_APPLY_FNS)):
        f = ctx.fn(R, key)
        if not f:
            continue
        ap = P.call_points(f, r"mani::Manifest::apply$")
        infos = P.call_points(f, r"mani::Edit::info$")
        for a in ap:
            have = {}
            for ip in infos:
                for c in K.arg_consts(f, ip, 1):
                    if "v" in c:
                        have.setdefault(chr(c["v"]), []).append(ip)
            for ch in "IOD":
                pts = have.get(ch, [])
                bad = P.order(f, pts, [a]) if pts else [(a, None)]
                ctx.check(R, f, "info-%s" % ch, not bad, "Edit::info('%s', ..) precedes Manifest::apply on every path" % ch,
                          "Manifest::apply is reachable without the edit carrying '%s'" % ch, pt=a)
    # recovery replays one log at a time and each replay's edit starts from the manifest's *current* output: 'I' is mani.info('O') read
    # in the function that writes the edit, not a running value handed in by the caller (a log whose table is already listed applies no
    # edit and must not advance the chain)
    f = ctx.fn(R, "lsmtk::kvs::KeyValueStore::recover_one")
    if f:
        n_i = 0
        for ip in P.call_points(f, r"mani::Edit::info$"):
            cs = [chr(c["v"]) for c in K.arg_consts(f, ip, 1) if "v" in c]
            if cs != ["I"]:
                continue
            n_i += 1
            src, todo, seen = [], [P.term_at(f, ip)["args"][2]], set()
            for _depth in range(6):         # through hexdigest / from_hexdigest / and_then / unwrap_or_default
                nxt = []
                for o_ in todo:
                    for x in P.origins(f, o_):
                        src.append(x)
                        if x["k"] == "call" and x["pt"] not in seen and not x["callee"].endswith("mani::Manifest::info"):
                            seen.add(x["pt"])
                            nxt.extend(x["t"]["args"])
                todo = nxt
            from_mani = any(x["k"] == "call" and x["callee"].endswith("mani::Manifest::info") and
                            any(c.get("v") == ord("O") for c in K.arg_consts(f, x["pt"], 1)) for x in src)
            from_param = any(x["k"] == "param" and x["i"] >= 1 and "Manifest" not in f.locals[x["i"]] and "LsmtkOptions" not in f.locals[x["i"]] for x in src)
            ctx.check(R, f, "recovery-I-is-manifest-O", from_mani and not from_param, "the replay's 'I' is the manifest's current 'O'",
                      "recover_one takes the input setsum of its edit from its caller instead of reading the manifest's current 'O': a log that was "
                      "already installed (no edit applied) still advances the caller's running value, and the next log's edit does not start from the "
                      "previous output -- the store refuses to open and the verifier rejects the history", pt=ip)
        ctx.floor(R, "recover_one: 'I' records", n_i, 1)
    # the three values are the ones computed: O = I - D in the two tree functions
    for name in ("apply_manifest_ingest", "apply_manifest_compaction"):
        f = ctx.fn(R, TREE + name)
        if not f:
            continue
        for ip in P.call_points(f, r"mani::Edit::info$"):
            cs = [chr(c["v"]) for c in K.arg_consts(f, ip, 1) if "v" in c]
            if cs == ["O"]:
                sg = K.sig(f, P.term_at(f, ip)["args"][2])
                ctx.check(R, f, "O-is-output", "c:compute_setsum" in sg and bool(sg & {"p2", "p3"}),
                          "'O' records tree_setsum - discard (the planned output)", "'O' no longer records the planned output setsum", pt=ip)
            if cs == ["I"]:
                sg = K.sig(f, P.term_at(f, ip)["args"][2])
                ctx.check(R, f, "I-is-tree", "c:compute_setsum" in sg and not (sg & {"p2", "p3"}), "'I' records the current tree setsum", "'I' no longer records the tree setsum", pt=ip)


def c043(ctx):
    R = "C04.3"
    ctx.declare(R, "the tree's recomputed setsum must agree with the manifest before a version is used or installed")
    f = ctx.fn(R, TREE + "from_manifest")
    if f:
        gates = K.equality_gates(f, None)
        g = K.find_gate_sig(gates, {"c:compute_setsum"}, {"info:O"})
        ctx.check(R, f, "open-gate", g is not None and g["fails_closed"], "version_setsum is compared with mani_setsum and inequality fails the open",
                  "the tree-vs-manifest setsum comparison on open is missing or no longer fails closed")
        if g:
            for pt in P.ok_points(f):
                ctx.check(R, f, "open-gate-dominates", gate_dominates(f, g, pt), "Ok(db) is reached only on the equal edge",
                          "from_manifest can succeed without the setsum comparison", pt=pt)
            cs = P.call_points(f, r"lsmtk::tree::Version::compute_setsum$")
            inf = P.call_points(f, r"mani::Manifest::info$", arg_pred=K.const_arg(1, ord("O")))
            ctx.check(R, f, "open-gate-operands", bool(cs) and bool(inf), "the operands are compute_setsum() and mani.info('O')",
                      "the compared values are not the recomputed tree setsum and the manifest's 'O'")
    for name, planned in (("apply_manifest_ingest", "output_setsum"), ("apply_manifest_compaction", "output_setsum"), ("apply_moving_compaction", "tree_setsum1")):
        f = ctx.fn(R, TREE + name)
        if not f:
            continue
        iv = ctx.calls(R, f, TREE + "install_version$")
        gates = K.equality_gates(f)
        g = None
        for x in gates:
            # both operands are recomputed tree setsums; for ingest/compaction the planned side also carries the discard parameter
            if "c:compute_setsum" in x["sa"] and "c:compute_setsum" in x["sb"] and x["fails_closed"]:
                if name == "apply_moving_compaction" or ((x["sa"] | x["sb"]) & {"p2", "p3"}):
                    g = x
        ctx.check(R, f, "install-assert", g is not None, "the new version's compute_setsum() is asserted equal to %s" % planned,
                  "the recomputed setsum of the new version is no longer checked against %s" % planned)
        if g:
            for pt in iv:
                ctx.check(R, f, "assert-dominates-install", gate_dominates(f, g, pt), "install_version is reached only when the assertion held",
                          "install_version is reachable without the setsum assertion", pt=pt)
            # one operand is compute_setsum of the *new* version
            cs = P.call_points(f, r"lsmtk::tree::Version::compute_setsum$")
            newv = [p for p in cs if any(s_["k"] == "call" and s_["callee"].endswith(("Version::ingest", "Version::apply_compaction")) for s_ in P.origins(f, P.term_at(f, p)["args"][0]))]
            ctx.check(R, f, "assert-on-new-version", bool(newv) and not P.order(f, newv, [g["pt"]]),
                      "compute_setsum(new_version) feeds the assertion", "the assertion does not recompute the new version's setsum")


ACC = r"sst::setsum::Setsum::(put|del|insert)$"


def c044(ctx):
    R = "C04.4"
    ctx.declare(R, "every entry written is accumulated into the writer's setsum, and the digest written is that accumulator")
    pairs = [
        ("<sst::SstBuilder as sst::Builder>::put", r"sst::setsum::Setsum::put$"),
        ("<sst::SstBuilder as sst::Builder>::del", r"sst::setsum::Setsum::del$"),
        ("<sst::log::WriteBatch as sst::Builder>::put", r"sst::setsum::Setsum::put$"),
        ("<sst::log::WriteBatch as sst::Builder>::del", r"sst::setsum::Setsum::del$"),
    ]
    for key, pat in pairs:
        f = ctx.fn(R, key)
        if f:
            pts = ctx.calls(R, f, pat, arg_pred=K.recv_is_field("setsum"), what=pat + " on self.setsum")
            ctx.must_pass(R, f, pat.split("::")[-1].rstrip("$") + " on self.setsum", pts)
            for pt in pts:
                t = P.term_at(f, pt)
                params = set()
                for a in t["args"][1:]:
                    params |= {s["i"] for s in P.origins(f, a) if s["k"] == "param"}
                need = {2, 3, 4} if key.endswith("put") else {2, 3}
                ctx.check(R, f, "acc-args", need <= params, "the accumulated entry is (key, timestamp%s) as given" % (", value" if key.endswith("put") else ""),
                          "the setsum is not fed the function's own key/timestamp/value parameters", pt=pt)
    f = ctx.fn(R, "sst::log::LogBuilder::append")
    if f:
        aa = ctx.calls(R, f, r"AddAssign>::add_assign$", arg_pred=K.recv_is_field("setsum"), what="self.setsum +=")
        ap = ctx.calls(R, f, r"sst::log::LogBuilder::_append$")
        ctx.must_pass(R, f, "self.setsum += batch.setsum", aa)
        for pt in aa:
            ctx.check(R, f, "adds-batch-setsum", ".setsum" in K.src_names(f, P.term_at(f, pt)["args"][1]) and "param2" in K.src_names(f, P.term_at(f, pt)["args"][1]),
                      "what is added is write_batch.setsum", "the builder setsum is not advanced by the batch's setsum", pt=pt)
    f = ctx.fn(R, "sst::log::WriteBatch::merge")
    if f:
        aa = ctx.calls(R, f, r"AddAssign>::add_assign$", arg_pred=K.recv_is_field("setsum"), what="self.setsum +=")
        ex = ctx.calls(R, f, r"Vec.*::extend_from_slice$")
        ctx.must_pass(R, f, "self.setsum += wb.setsum", aa)
        ctx.must_pass(R, f, "buffer.extend_from_slice", ex)
    f = ctx.fn(R, "<sst::SstBuilder as sst::Builder>::seal")
    if f:
        n = 0
        for b in f.blocks:
            for i, st in enumerate(b.st):
                rv = st.get("rv", {})
                if rv.get("r") == "agg" and strip_generics(rv.get("adt", "")) == "sst::FinalBlock":
                    n += 1
                    o = rv["ops"][rv["fields"].index("setsum")]
                    ctx.check(R, f, "final-block-setsum", K.origin_chain(f, o, ["Setsum::digest", ".setsum"]),
                              "FinalBlock.setsum = builder.setsum.digest()", "FinalBlock.setsum is not the builder's accumulated digest", pt=(b.idx, i))
        ctx.floor(R, "FinalBlock aggregate in seal", n, 1)
    f = ctx.fn(R, "sst::log::ConcurrentLogBuilder::seal")
    g = ctx.fn(R, "<sst::log::LogBuilder as sst::Builder>::seal")
    if g:
        oks = P.ok_points(g)
        for pt in oks:
            st = g.blocks[pt[0]].st[pt[1]]
            ctx.check(R, g, "seal-returns-setsum", ".setsum" in K.src_names(g, st["rv"]["ops"][0]), "LogBuilder::seal returns self.setsum",
                      "LogBuilder::seal does not return the accumulated setsum", pt=pt)


def loop_head(f, pat):
    return P.call_points(f, pat)


def c045(ctx):
    R = "C04.5"
    ctx.declare(R, "what garbage collection drops is exactly what is added to the discard setsum it reports")
    f = ctx.fn(R, TREE + "perform_garbage_collection")
    if not f:
        return
    put = P.call_points(f, r"sst::SstMultiBuilder as sst::Builder>::(put|del)$")
    ins = P.call_points(f, r"sst::setsum::Setsum::insert$")
    aa = P.call_points(f, r"setsum::Setsum as core::ops::arith::AddAssign>::add_assign$")
    ctx.floor(R, "rewrite sites", len(put), 2)
    ctx.floor(R, "discard accumulation sites", min(len(ins), len(aa)), 1)
    # the loop: head = the cursor.next() call that can reach itself again
    nx = [p for p in P.call_points(f, r"MergingCursor.* as sst::Cursor>::next$|sst::Cursor::next$") if P.reach(f, P.after(f, p), [p])]
    ctx.floor(R, "main loop head (cursor.next)", len(nx), 1)
    for n in nx:
        p = P.reach(f, P.after(f, n), [n], avoid=set(put) | set(aa) | set(P.error_points(f)))
        ctx.check(R, f, "every-entry-accounted", p is None, "every loop iteration either rewrites the entry or adds it to discard",
                  "an input entry can be skipped without being rewritten or accounted in discard", pt=n, path=p)
    ctx.order_chain(R, f, [("Setsum::insert(kvr)", ins), ("discard += setsum", aa)], cycles=True)
    for pt in ins:
        ctx.check(R, f, "insert-current", any(c.endswith("::key_value") for c in P.origin_calls(f, P.term_at(f, pt)["args"][1])), "the entry inserted into the discard is the current kvr",
                  "the discarded setsum is not computed from the current entry", pt=pt)
    cf = ctx.calls(R, f, TREE + "compaction_finish$")
    for pt in cf:
        ctx.check(R, f, "discard-reported", "acc" in K.sig(f, P.term_at(f, pt)["args"][5]), "compaction_finish receives the accumulated discard",
                  "compaction_finish is not given the accumulated discard", pt=pt)
        ctx.check(R, f, "input-reported", "c:compaction_setup" in K.sig(f, P.term_at(f, pt)["args"][4]) or any(c.endswith("compaction_setup") for c in P.origin_calls(f, P.term_at(f, pt)["args"][4])), "compaction_finish receives compaction_setup's input setsum",
                  "compaction_finish is not given the input setsum", pt=pt)
    g = ctx.fn(R, TREE + "perform_compaction")
    if g:
        for pt in ctx.calls(R, g, TREE + "compaction_finish$"):
            names = K.src_names(g, P.term_at(g, pt)["args"][5])
            ctx.check(R, g, "no-discard", "default()" in names and "acc" not in K.sig(g, P.term_at(g, pt)["args"][5]),
                      "a plain compaction reports Setsum::default() as discard", "a plain compaction reports a non-empty discard", pt=pt)
    h = ctx.fn(R, TREE + "compaction_setup")
    if h:
        aa = ctx.calls(R, h, r"setsum::Setsum as core::ops::arith::AddAssign>::add_assign$")
        op = ctx.calls(R, h, TREE + "open_sst$")
        nx = [p for p in P.call_points(h, r"Iterator>::next$") if P.reach(h, P.after(h, p), op)]
        for n in nx:
            p = P.reach(h, P.after(h, n), [n], avoid=set(aa) | set(P.error_points(h)))
            ctx.check(R, h, "input-accumulates", p is None, "every input's setsum is added to the input accumulator",
                      "an input can be opened without being added to the input setsum", pt=n, path=p)


def c046(ctx):
    R = "C04.6"
    ctx.declare(R, "the verifier's balance gates exist, fail closed, and guard its verdict")
    f = ctx.fn(R, VER + "LsmVerifier::verify_one")
    if f:
        gates = K.equality_gates(f, None)
        closed = [g for g in gates if g["fails_closed"]]
        # name-free operand signatures: 'I'/'O'/'D' = setsum_from_info(<char>, ..); p3 = the accumulated setsum passed in;
        # the recomputed discard is an accumulator of +/- Setsum::from_hexdigest over the edit's rmed/added strings
        want = [("first edit continues acc", dict(a={"info:O"}, b={"p3"}, not_a={"info:I", "info:D"}, not_ga="Option")),
                ("edit continues acc", dict(a={"info:I"}, b={"p3"}, not_a={"info:O", "info:D"})),
                ("I == O + D", dict(a={"info:I"}, b={"info:O", "info:D"}, not_a={"info:O"})),
                ("recomputed discard", dict(a={"info:D"}, b={"acc<-+from_hexdigest", "acc<--from_hexdigest"})),
                ("final output", dict(a={"info:O"}, b={"p3"}, ga="Option"))]
        for name, kw in want:
            ctx.check(R, f, "gate:" + name, K.find_gate_sig(closed, **kw) is not None, "gate `%s` exists and inequality leads only to error returns" % name,
                      "the verifier gate `%s` is missing or no longer fails closed" % name)
        fin = K.find_gate_sig(closed, {"info:O"}, {"p3"}, ga="Option")
        if fin:
            for pt in P.ok_points(f):
                ctx.check(R, f, "final-gate-dominates", gate_dominates(f, fin, pt), "Ok is returned only when the accumulated setsum equals the last output",
                          "verify_one can return Ok without the final output comparison", pt=pt)
        vg = ctx.calls(R, f, VER + "LsmVerifier::verify_gc$")
        for pt in vg:
            g1 = [g for g in gates if "info:D" in (g["sa"] | g["sb"]) and not g["fails_closed"] and P.edge_dominates(f, g["bb"], g["differ_label"], pt)]
            g2 = [g for g in K.compare_guards(f, pt) if g["op"] == "Gt" and "count()" in K.src_names(f, g["a"]) and g["holds"]]
            ctx.check(R, f, "verify_gc-guard", bool(g1) and bool(g2), "verify_gc runs when discard != default and the edit removed files",
                      "verify_gc is no longer run for every edit with a non-empty discard and removed files", pt=pt)
        # the state the final gate checks is refreshed by *every* edit, the fragment's first (roll-up) edit included: a fragment that
        # holds only its roll-up (a session that opened and closed without a transaction) must still verify
        if fin:
            heads = [h for h in P.call_points(f, r"ManifestIterator as core::iter::traits::iterator::Iterator>::next$|Iterator>::next$")
                     if P.reach(f, P.after(f, h), [h]) and any(c.endswith("ManifestIterator::open") for c in P.origin_calls(f, P.term_at(f, h)["args"][0]))]
            ctx.floor(R, "verify_one edit loop", len(heads), 1)
            gl = None
            for op in fin["t"]["args"][:2]:
                for l_ in K.base_locals(f, op):
                    if "Option<" in f.locals[l_] and "Setsum" in f.locals[l_]:
                        ws = [pt_ for (pt_, kind, _p) in P.defs(f).of(l_) if kind in ("assign", "call")]
                        if any(P.reach(f, P.after(f, h), [w]) is not None and P.reach(f, P.after(f, w), [h]) is not None for h in heads for w in ws):
                            gl = (l_, ws)
            ctx.check(R, f, "final-gate-state", gl is not None, "the final gate compares a per-fragment Option<Setsum> that the edit loop assigns",
                      "the local compared by the final output gate is not assigned in the edit loop")
            if gl:
                for h in heads:
                    q = P.reach(f, P.after(f, h), [h], avoid=set(gl[1]) | set(P.error_points(f)))
                    ctx.check(R, f, "every-edit-updates-last-output", q is None,
                              "every edit that passes its checks records its output setsum for the final gate (the roll-up edit too)",
                              "an edit can pass through the loop without recording its output setsum: a fragment holding only such edits (e.g. just "
                              "its roll-up) fails the final gate although the history is fault-free", pt=h, path=q)
    f = ctx.fn(R, VER + "LsmVerifier::verify_gc")
    if f:
        gates = K.equality_gates(f, None)
        g = K.find_gate_sig([x for x in gates if x["fails_closed"]], {"acc"}, {"p3"})
        ctx.check(R, f, "gate:gc discard", g is not None, "computed_discard is compared with the recorded discard and inequality is an error",
                  "verify_gc no longer compares the recomputed discard")
        if g:
            for pt in P.ok_points(f):
                ctx.check(R, f, "gc-gate-dominates", gate_dominates(f, g, pt), "Ok only when the recomputed discard matched",
                          "verify_gc can return Ok without the discard comparison", pt=pt)
        strs = set()
        for pt in P.error_points(f):
            pass
        for b, t in f.calls():
            if (callee_skey(t) or "").endswith("lsmtk::corruption") or (callee_skey(t) or "").endswith("lsmtk::logic_error"):
                for c in P.origin_consts(f, t["args"][0]):
                    if "str" in c:
                        strs.add(c["str"])
        for s in ("data loss", "data construction", "garbage collection has bad discard"):
            ctx.check(R, f, "error:" + s, s in strs, "the `%s` error exit exists" % s, "the `%s` check was removed from verify_gc" % s)
    f = ctx.fn(R, VER + "ManifestVerifier::verify")
    if f:
        gates = [g for g in K.equality_gates(f, None) if g["fails_closed"]]
        for name, kw in (("edit continues acc", dict(a={"info:I"}, b={"acc", "info:O"}, not_a={"info:O", "info:D"}, not_b={"info:D"})),
                         ("I == O + D", dict(a={"info:I"}, b={"info:O", "info:D"}, not_a={"info:O"})),
                         ("recomputed discard", dict(a={"info:D"}, b={"acc<-+from_hexdigest", "acc<--from_hexdigest"}))):
            ctx.check(R, f, "gate:" + name, K.find_gate_sig(gates, **kw) is not None, "gate `%s` exists and fails closed" % name,
                      "ManifestVerifier gate `%s` is missing or no longer fails closed" % name)


def c047(ctx):
    R = "C04.7"
    ctx.declare(R, "a flushed memtable is ingested only if the SST's setsum equals the log's")
    f = ctx.fn(R, KVS + "_memtable_thread")
    if not f:
        return
    gates = [g for g in K.equality_gates(f) if g["fails_closed"]]
    g = None
    for x in gates:
        for a, b in ((x["sa"], x["sb"]), (x["sb"], x["sa"])):
            if any(t.startswith("C:") and "SstBuilder" in t and t.endswith("::seal") for t in a) and any(t.startswith("C:") and "ConcurrentLogBuilder::seal" in t for t in b):
                g = x
    ctx.check(R, f, "flush-gate", g is not None, "got_setsum (sealed sst) is compared with imm_setsum (sealed log); inequality is an error",
              "the memtable-vs-log setsum comparison is missing or no longer fails closed")
    if g:
        for pt in P.call_points(f, TREE + "_ingest$"):
            ctx.check(R, f, "flush-gate-dominates", gate_dominates(f, g, pt), "_ingest is reached only on the equal edge",
                      "the sst can be ingested without its setsum matching the log's", pt=pt)
    f = ctx.fn(R, KVS + "recover_one")
    if f:
        # the recovered sst is named (linked, recorded) by the setsum read back from its own metadata
        for pt in P.call_points(f, r"^lsmtk::SST_FILE$"):
            ctx.check(R, f, "recover-name", K.origin_chain(f, P.term_at(f, pt)["args"][1], ["Setsum::from_digest", "Sst::metadata"]),
                      "the recovered sst is named by the setsum in its own metadata", "the recovered sst's name is not its metadata setsum", pt=pt)


# ------------------------------------------------------------------------------------------------
# C04.8 rejection half: the verifier looks inside the files a transaction adds

def c048(ctx):
    R = "C04.8"
    ctx.declare(R, "the verifier can only reject an altered compaction / GC output if it derives that file's setsum from the file's entries: "
                   "for every added file of a transaction it opens the file and accumulates its entries")
    f = ctx.fn(R, VER + "LsmVerifier::verify_one")
    if not f:
        return
    # the loop over edit.added(): its iterator originates in mani::Edit::added
    heads = [h for h in P.call_points(f, r"Iterator>::next$")
             if P.reach(f, P.after(f, h), [h]) and any(c.endswith("mani::Edit::added") for c in P.origin_calls(f, P.term_at(f, h)["args"][0]))]
    ctx.floor(R, "verify_one loop over the added files", len(heads), 1)
    opens = []
    g = ctx.prog.callgraph()
    for b, t in f.calls():
        pt = P.term_pt(f, b.idx)
        reach_open = False
        for k in ctx.prog.targets(t):
            seen, work = set(), [k]
            while work and not reach_open:
                x = work.pop()
                if x in seen or len(seen) > 40:
                    continue
                seen.add(x)
                fx = ctx.prog.fns.get(x)
                if fx is None or fx.crate != "lsmtk":
                    continue
                if fx.skey.endswith("LsmVerifier::get_cursor"):
                    reach_open = True
                work += list(g.get(x, ()))
        if reach_open or (callee_skey(t) or "").endswith("LsmVerifier::get_cursor"):
            opens.append(pt)
    # the fragment's first edit (the roll-up: files added and verified by earlier fragments) may be exempt: edges on which a boolean
    # flag still has the value it was given before the edit loop
    from blue import bounds as B
    bf = B.BF(ctx.prog, f)
    outer = [h for h in P.call_points(f, r"Iterator>::next$")
             if P.reach(f, P.after(f, h), [h]) and any(c.endswith("ManifestIterator::open") for c in P.origin_calls(f, P.term_at(f, h)["args"][0]))]
    first_edges = set()
    for b in P.switch_blocks(f):
        for lab, _s in b.succs:
            for (x, op, y) in bf.edge_facts(b.idx, lab):
                if op == "==" and x[0] == "pl" and not x[2] and y[0] == "c" and f.locals[x[1]] == "bool":
                    ds = [(pt_, p_) for (pt_, kind, p_) in P.defs(f).of(x[1]) if kind == "assign" and p_["rv"]["r"] == "use" and p_["rv"]["a"].get("k") == "const"]
                    init = [p_["rv"]["a"]["c"].get("v") for (pt_, p_) in ds if not any(P.reach(f, P.after(f, h_), [pt_]) is not None for h_ in outer)]
                    if len(ds) >= 2 and init and all(int(bool(v)) == y[1] for v in init):
                        first_edges.add((b.idx, lab))
    for h in heads:
        body_opens = [o for o in opens if P.reach(f, P.after(f, h), [o], avoid=[h]) is not None and P.reach(f, P.after(f, o), [h]) is not None]
        # one iteration = from the Some edge of this next() back to it
        some = []
        dl = P.term_at(f, h)["dest"]["l"]
        for b in P.switch_blocks(f):
            d_ = b.term["discr"]
            if d_.get("k") in ("copy", "move") and any(kind == "assign" and p_["rv"]["r"] == "discr" and p_["rv"]["pl"]["l"] == dl
                                                        for (_pt, kind, p_) in P.defs(f).of(d_["pl"]["l"])):
                some += [(s_, 0) for lab, s_ in b.succs if lab == "sw:1"]
        q = P.reach(f, some, [h], avoid=set(body_opens) | set(P.error_points(f)), avoid_edges=first_edges) if (body_opens and some) else [h[0]]
        ctx.check(R, f, "added-contents-recomputed", bool(body_opens) and q is None,
                  "every added file is opened and its entries accumulated while the transaction is verified",
                  "the setsum of an added file is taken from its name in the manifest only (files are opened just to replay a garbage collection, which "
                  "compares keys, not values): an output rewritten with one entry altered, dropped or duplicated under the same name is accepted", pt=h)


def c049(ctx):
    R = "C04.9"
    ctx.declare(R, "the GC replay accepts only when the replayed collector has nothing left to retain: a retained key that is in no output is data loss, "
                   "wherever it sorts")
    f = ctx.fn(R, VER + "LsmVerifier::verify_gc")
    if not f:
        return
    # locals holding the collector's answer: destinations of GarbageCollector::next (through `?`)
    answers = set()
    for b, t in f.calls():
        if re.search(r"sst::gc::GarbageCollector::next$", callee_skey(t) or ""):
            answers.add(t["dest"]["l"])
    ctx.floor(R, "calls of the replayed collector's next()", len(answers), 2)

    def from_collector(local):
        for s_ in P.origins(f, {"k": "copy", "pl": {"l": local, "p": []}}):
            if s_["k"] == "call" and re.search(r"sst::gc::GarbageCollector::next$", s_["callee"]):
                return True
        return False
    oks = P.ok_points(f)
    ctx.floor(R, "Ok exits of verify_gc", len(oks), 1)
    for pt in oks:
        exhausted = False
        for bb, lab in P.guards_of(f, pt):
            d = f.blocks[bb].term["discr"]
            if d.get("k") not in ("copy", "move"):
                continue
            for (_p, kind, p_) in P.defs(f).of(d["pl"]["l"]):
                if kind == "assign" and p_["rv"]["r"] == "discr" and f.locals[p_["rv"]["pl"]["l"]].startswith("core::option::Option<") and from_collector(p_["rv"]["pl"]["l"]) and lab == "sw:0":
                    exhausted = True
        ctx.check(R, f, "collector-exhausted", exhausted, "Ok is returned only on the None edge of the collector's next answer",
                  "verify_gc can accept while the replayed collector still has a key to retain: once the outputs are exhausted every remaining input "
                  "entry is booked as discard without asking the policy, so a collection that lost the last keys it had to keep (and recorded them as "
                  "discard) is accepted", pt=pt)


def c0410(ctx):
    R = "C04.10"
    ctx.declare(R, "a file name enters the tree at most once: an ingest adds `+X` to the manifest only after hard_link created sst/X -- the atomic "
                   "step that refuses a second, concurrent ingest of the same contents (the manifest is a set: it would list X once and sum it twice)")
    f = ctx.fn(R, TREE + "_ingest")
    if not f:
        return
    hl = ctx.calls(R, f, r"^std::fs::hard_link$")
    ami = ctx.calls(R, f, TREE + "apply_manifest_ingest$")
    for h in hl:
        dest = P.term_at(f, h)["dest"]["l"]
        ok_edges = set()
        for b in P.switch_blocks(f):
            d = b.term["discr"]
            if d.get("k") not in ("copy", "move"):
                continue
            for (_p, kind, p_) in P.defs(f).of(d["pl"]["l"]):
                if kind == "assign" and p_["rv"]["r"] == "discr":
                    srcs = P.origins(f, {"k": "copy", "pl": {"l": p_["rv"]["pl"]["l"], "p": []}})
                    if any(x["k"] == "call" and x["pt"] == h for x in srcs) or p_["rv"]["pl"]["l"] == dest:
                        ok_edges.add((b.idx, "sw:0"))
        q = P.reach(f, P.after(f, h), ami, avoid=set(P.error_points(f)), avoid_edges=ok_edges)
        ctx.check(R, f, "added-only-if-created", q is None and bool(ok_edges),
                  "the manifest edit is reached only on the Ok edge of hard_link",
                  "LsmTree::_ingest goes on to the manifest edit also when hard_link failed (AlreadyExists tolerated): two concurrent ingests of "
                  "byte-identical files are then both admitted, the manifest lists the name once while input/output sums count it twice, and the "
                  "next open fails the tree-vs-manifest comparison", pt=h, path=q)
