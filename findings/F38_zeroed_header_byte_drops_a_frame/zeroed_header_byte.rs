extern crate sst;

use std::io::Cursor;

use sst::Builder;
use sst::log::{LogBuilder, LogIterator, LogOptions, WriteBatch};

const BLOCK_SIZE: usize = 1 << 20;

fn replay(bytes: &[u8]) -> (Vec<(Vec<u8>, u64)>, Result<(), String>) {
    let mut log = LogIterator::from_reader(LogOptions::default(), Cursor::new(bytes)).unwrap();
    let mut out = Vec::new();
    loop {
        match log.next() {
            Ok(Some(kvr)) => out.push((kvr.key.to_vec(), kvr.timestamp)),
            Ok(None) => return (out, Ok(())),
            Err(err) => return (out, Err(format!("{err:?}"))),
        }
    }
}

fn log_with_filler(filler_len: usize) -> (Vec<u8>, usize, usize) {
    let mut bytes = Vec::new();
    let before_tiny;
    let after_tiny;
    {
        let mut log = LogBuilder::from_write(LogOptions::default(), &mut bytes).unwrap();
        let big = vec![7u8; 32_000];
        for i in 0..32u64 {
            log.put(b"big", 100 + i, &big).unwrap();
        }
        let filler = vec![9u8; filler_len];
        log.put(b"filler", 3, &filler).unwrap();
        before_tiny = log.approximate_size();
        log.del(b"k", 4).unwrap();
        after_tiny = log.approximate_size();
        log.put(b"after", 5, b"after-value").unwrap();
        log.flush().unwrap();
        log.seal().unwrap();
    }
    (bytes, before_tiny, after_tiny)
}

#[test]
fn zeroed_header_size_byte_near_block_end() {
    // Find a filler length that puts the tiny frame wholly inside the last 23 bytes of block 0.
    let mut found = None;
    for filler_len in 22_000..25_000usize {
        let (bytes, before, after) = log_with_filler(filler_len);
        if before < BLOCK_SIZE && BLOCK_SIZE - before <= 20 && after <= BLOCK_SIZE && after > before {
            found = Some((bytes, before, after));
            break;
        }
    }
    let (bytes, before, after) = found.expect("no filler length found");
    eprintln!("tiny frame occupies {before}..{after}, block boundary {BLOCK_SIZE}");
    let (healthy, end) = replay(&bytes);
    assert_eq!(Ok(()), end);
    assert_eq!(35, healthy.len());
    // One byte of damage:  the frame's header-size byte becomes zero.
    let mut damaged = bytes.clone();
    assert_ne!(0, damaged[before]);
    damaged[before] = 0;
    let (got, end) = replay(&damaged);
    eprintln!("damaged replay: {} entries, end={end:?}", got.len());
    if end.is_ok() {
        assert_eq!(healthy, got, "one zeroed byte silently dropped an entry");
    }
}
