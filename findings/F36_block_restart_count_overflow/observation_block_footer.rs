//! OBSERVATION (fails on the UNCHANGED tree; not part of the seed).
//! Place at sst/tests/observation_block_footer.rs and run
//!   cargo test -p sst --offline -j 6 --test observation_block_footer
//!
//! Block::new trusts the restart count in the last four bytes of a block.  A file whose index
//! block claims more restarts than fit, with the checksums that cover it brought up to date (the
//! final block that holds the index block's checksum has no checksum of its own), makes
//! Sst::new panic instead of returning an error.

use std::fs::{read, remove_file, write};
use std::path::PathBuf;

use sst::block::Block;
use sst::{Builder, Sst, SstBuilder, SstOptions};

fn varint(buf: &[u8], pos: &mut usize) -> u64 {
    let mut x = 0u64;
    let mut shift = 0;
    loop {
        let b = buf[*pos];
        *pos += 1;
        x |= ((b & 0x7f) as u64) << shift;
        if b & 0x80 == 0 {
            return x;
        }
        shift += 7;
    }
}

#[test]
fn block_new_with_oversized_restart_count() {
    // A sealed empty block is [82, 4, 0,0,0,0, 93, 1,0,0,0]; claim 1000 restarts instead of 1.
    let bytes = vec![82, 4, 0, 0, 0, 0, 93, 0xe8, 3, 0, 0];
    let r = std::panic::catch_unwind(|| Block::new(bytes).map(|_| ()));
    assert!(r.is_ok(), "Block::new panicked on a bad restart count");
}

#[test]
fn sst_open_with_oversized_restart_count_in_index_block() {
    let path = PathBuf::from(env!("CARGO_TARGET_TMPDIR")).join("observation_block_footer.sst");
    if path.exists() {
        remove_file(&path).unwrap();
    }
    let mut builder = SstBuilder::new(SstOptions::default(), &path).unwrap();
    builder.put(b"alpha", 1, b"one").unwrap();
    builder.put(b"beta", 1, b"two").unwrap();
    builder.seal().unwrap();
    Sst::<sst::file_manager::FileHandle>::new(SstOptions::default(), &path).expect("pristine opens");

    let mut file = read(&path).unwrap();
    let len = file.len();
    let final_block_offset = u64::from_le_bytes(file[len - 8..].try_into().unwrap()) as usize;
    // The final block is a bare FinalBlock message; it starts with field 16 (message).
    let mut pos = final_block_offset;
    let tag16 = varint(&file, &mut pos);
    assert_eq!((16 << 3) | 2, tag16);
    let _mlen = varint(&file, &mut pos);
    assert_eq!((13 << 3) as u64, varint(&file, &mut pos));
    let start = varint(&file, &mut pos) as usize;
    assert_eq!((14 << 3) as u64, varint(&file, &mut pos));
    let limit = varint(&file, &mut pos) as usize;
    assert_eq!(((15 << 3) | 5) as u64, varint(&file, &mut pos));
    let crc_pos = pos;
    // index block entry: tag(10, bytes) varint-len payload.
    let mut p = start;
    let _tag = varint(&file, &mut p);
    let plen = varint(&file, &mut p) as usize;
    assert_eq!(limit, p + plen);
    let old_crc = u32::from_le_bytes(file[crc_pos..crc_pos + 4].try_into().unwrap());
    assert_eq!(old_crc, crc32c::crc32c(&file[p..limit]));
    // The damage: the restart count becomes 0x00ffffff, and the checksum is brought up to date.
    file[limit - 3] = 0xff;
    file[limit - 2] = 0xff;
    file[limit - 4] = 0xff;
    let new_crc = crc32c::crc32c(&file[p..limit]);
    file[crc_pos..crc_pos + 4].copy_from_slice(&new_crc.to_le_bytes());
    write(&path, &file).unwrap();

    let r = std::panic::catch_unwind(|| {
        Sst::<sst::file_manager::FileHandle>::new(SstOptions::default(), &path).map(|_| ())
    });
    assert!(r.is_ok(), "opening the damaged sst panicked");
    assert!(r.unwrap().is_err(), "opening the damaged sst succeeded");
}
