//! F28 (C20 / C06): lsmtk integration test -- copy to lsmtk/tests/.  Before 5a4d29c the put queued behind an oversize (refused) batch never
//! returned in some rounds: "round 130: the put queued behind the failed write never returned".

//! A write that fails after it linked into the wait list leaves without waking the new head.
use std::sync::mpsc;
use std::sync::Arc;
use std::time::Duration;

use arrrg::CommandLine;
use lsmtk::{KeyValueStore, LsmtkOptions, WriteBatch};

#[test]
fn writer_behind_a_failed_write_returns() {
    let root = format!("{}/failed_write", env!("CARGO_TARGET_TMPDIR"));
    let _ = std::fs::remove_dir_all(&root);
    let (o, _) = LsmtkOptions::from_arguments_relaxed("x", &["--path", &root]);
    let kvs = Arc::new(KeyValueStore::open(o).expect("open"));
    for round in 0..300u32 {
        // T1: a batch that is too large for one log frame: it fails inside write(), after linking.
        let k1 = Arc::clone(&kvs);
        let (tx1, rx1) = mpsc::channel();
        std::thread::spawn(move || {
            let mut wb = WriteBatch::default();
            for i in 0..70_000u32 {
                wb.put(format!("big-{round}-{i:08}").as_bytes(), b"0123456789");
            }
            let _ = tx1.send(k1.write(wb).is_err());
        });
        // T2: an ordinary put that queues behind it.
        let k2 = Arc::clone(&kvs);
        let (tx2, rx2) = mpsc::channel();
        std::thread::spawn(move || {
            std::thread::sleep(Duration::from_micros(200 * (round as u64 % 150)));
            let _ = tx2.send(k2.put(format!("small-{round}").as_bytes(), b"v").is_ok());
        });
        let failed = rx1.recv_timeout(Duration::from_secs(20)).expect("the oversize write returns");
        assert!(failed, "the oversize batch is refused");
        match rx2.recv_timeout(Duration::from_secs(5)) {
            Ok(ok) => assert!(ok),
            Err(_) => panic!("round {round}: the put queued behind the failed write never returned"),
        }
    }
}
