use std::ops::Bound;
use std::path::{Path, PathBuf};
use arrrg::CommandLine;
use lsmtk::{LsmTree, LsmtkOptions};
use sst::{Builder, Cursor, SstBuilder, SstOptions};

fn options(root: &Path) -> LsmtkOptions {
    let root = root.join("db");
    let (options, _) = LsmtkOptions::from_arguments("seed", &["--path", root.to_string_lossy().as_ref()]);
    options
}
fn build(dir: &Path, name: &str, ops: &[(&str, u64, &str)]) -> PathBuf {
    let path = dir.join(name);
    let mut b = SstBuilder::new(SstOptions::default(), &path).unwrap();
    for (k, ts, v) in ops { b.put(k.as_bytes(), *ts, v.as_bytes()).unwrap(); }
    b.seal().unwrap();
    path
}
fn scan(tree: &LsmTree) -> Vec<String> {
    let mut c = tree.range_scan::<&str>(&Bound::Unbounded, &Bound::Unbounded).unwrap();
    c.seek_to_first().unwrap();
    let mut out = vec![];
    loop { c.next().unwrap(); match c.key() { Some(k) => out.push(String::from_utf8(k.key.to_vec()).unwrap()), None => break } }
    out
}
#[test]
fn obs() {
    let dir = std::env::temp_dir().join(format!("lsmtk_obs_{}", std::process::id()));
    let _ = std::fs::remove_dir_all(&dir);
    std::fs::create_dir_all(&dir).unwrap();
    let ssts = vec![
        build(&dir, "x.sst", &[("a", 1, "a1"), ("z", 5, "z5")]),
        build(&dir, "y.sst", &[("b", 3, "b3"), ("y", 4, "y4")]),
        build(&dir, "t.sst", &[("a", 9, "a9"), ("z", 9, "z9")]),
    ];
    let tree = LsmTree::open(options(&dir)).unwrap();
    for s in &ssts { tree.ingest(s).unwrap(); }
    let before = scan(&tree);
    drop(tree);
    let tree = LsmTree::open(options(&dir)).unwrap();
    let after = scan(&tree);
    println!("before {before:?} after {after:?}");
    for k in ["a","b","y","z"] { println!("{k} {:?}", tree.get(k.as_bytes()).unwrap().map(|v| String::from_utf8(v).unwrap())); }
    assert_eq!(before, after);
    assert_eq!(vec!["a","b","y","z"], after);
}
