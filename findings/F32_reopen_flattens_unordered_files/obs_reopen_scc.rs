//! Observation on the UNCHANGED tree (run with the seed patch reverted):  after a clean reopen a
//! compaction output whose timestamp range straddles that of a newer, key-overlapping file in the
//! level above is put in the same level as that file, ordered by first key, and shadows it.
//!
//! Goes in lsmtk/tests/obs_reopen_scc.rs.

use std::path::{Path, PathBuf};
use std::sync::Arc;
use std::time::{Duration, Instant};

use arrrg::CommandLine;
use sst::{Builder, SstBuilder, SstOptions};

use lsmtk::{LsmTree, LsmtkOptions, SST_ROOT};

fn build_sst(dir: &Path, name: &str, entries: &[(&str, u64, &[u8])]) -> PathBuf {
    std::fs::create_dir_all(dir).expect("create staging dir");
    let path = dir.join(name);
    let mut builder = SstBuilder::new(SstOptions::default(), &path).expect("sst builder");
    for (key, timestamp, value) in entries.iter() {
        builder.put(key.as_bytes(), *timestamp, value).expect("sst put");
    }
    builder.seal().expect("sst seal");
    path
}

fn copy_dir(src: &Path, dst: &Path) {
    std::fs::create_dir_all(dst).unwrap();
    for entry in std::fs::read_dir(src).unwrap() {
        let entry = entry.unwrap();
        let to = dst.join(entry.file_name());
        if entry.file_type().unwrap().is_dir() {
            copy_dir(&entry.path(), &to);
        } else if entry.file_name() != "LOCKFILE" {
            std::fs::copy(entry.path(), to).unwrap();
        }
    }
}

fn listing(root: &str) -> Vec<String> {
    let mut v: Vec<String> = std::fs::read_dir(SST_ROOT(root))
        .unwrap()
        .filter_map(|e| e.ok())
        .map(|e| e.file_name().to_string_lossy().to_string())
        .collect();
    v.sort();
    v
}

fn quiesce(root: &str) -> Vec<String> {
    let deadline = Instant::now() + Duration::from_secs(30);
    let mut last = listing(root);
    let mut since = Instant::now();
    loop {
        std::thread::sleep(Duration::from_millis(20));
        let now = listing(root);
        if now != last {
            last = now;
            since = Instant::now();
        } else if since.elapsed() > Duration::from_millis(700) {
            return last;
        }
        assert!(Instant::now() < deadline);
    }
}

#[test]
fn reopen_keeps_latest() {
    let root = std::env::temp_dir().join(format!("obs_reopen_scc_{}", std::process::id()));
    let _ = std::fs::remove_dir_all(&root);
    let root = root.to_string_lossy().to_string();
    let staging = PathBuf::from(format!("{root}.staging"));
    let _ = std::fs::remove_dir_all(&staging);
    let (options, _) = LsmtkOptions::from_arguments_relaxed("obs", &["--path", &root]);

    let big = vec![b'x'; 8192];
    let tree = Arc::new(LsmTree::open(options.clone()).unwrap_or_else(|err| panic!("{err}")));
    let compactor = Arc::clone(&tree);
    std::thread::spawn(move || {
        let r = compactor.compaction_thread();
        eprintln!("compaction thread exit: {r:?}");
    });

    // Four flush-like files, strictly increasing timestamps.
    let f1 = build_sst(&staging, "f1.sst", &[("b", 1, b"b1"), ("l", 1, b"l-OLD")]);
    let y = build_sst(&staging, "y.sst", &[("l", 2, b"l-NEW"), ("z", 2, b"z2")]);
    let f3 = build_sst(&staging, "f3.sst", &[("a", 3, &big), ("c", 3, &big)]);
    let g = build_sst(&staging, "g.sst", &[("x", 4, &big), ("xx", 4, &big)]);

    tree.ingest(&f1).unwrap_or_else(|err| panic!("{err}"));
    quiesce(&root);
    tree.ingest(&y).unwrap_or_else(|err| panic!("{err}"));
    quiesce(&root);
    tree.ingest(&f3).unwrap_or_else(|err| panic!("{err}"));
    let before = quiesce(&root);
    eprintln!("before g: {before:?}");
    tree.ingest(&g).unwrap_or_else(|err| panic!("{err}"));
    let after = quiesce(&root);
    eprintln!("after g: {after:?}");
    assert_eq!(Some(b"l-NEW".to_vec()), tree.get(b"l").unwrap(), "before reopen");

    // Clean reopen.  The first handle cannot be dropped because its (idle) compaction thread never
    // returns and the manifest stays locked, so reopen a copy of the quiescent directory:  LsmTree
    // does no work on drop, so the copy is byte-for-byte what a clean close leaves behind.
    let root2 = format!("{root}.copy");
    let _ = std::fs::remove_dir_all(&root2);
    copy_dir(Path::new(&root), Path::new(&root2));
    let (options2, _) = LsmtkOptions::from_arguments_relaxed("obs", &["--path", &root2]);
    let reopened = match LsmTree::open(options2) {
        Ok(t) => t,
        Err(err) => panic!("reopen: {err}"),
    };
    assert_eq!(Some(b"l-NEW".to_vec()), reopened.get(b"l").unwrap(), "after reopen");
}
