//! F26 (C12): polling a LogIterator again after an error must not yield entries of the batch that failed.
//! sst integration test: copy to sst/tests/.  Before the fix a log cut inside a 3-entry batch answered
//! Err(UnexpectedEof), then Ok(k1), Ok(k2), then an unpack error.
use sst::log::{LogBuilder, LogIterator, LogOptions, WriteBatch};
use sst::Builder;

#[test]
fn no_entries_of_a_failed_batch() {
    let dir = std::env::temp_dir().join(format!("log_poll_after_error_{}", std::process::id()));
    let _ = std::fs::remove_dir_all(&dir);
    std::fs::create_dir_all(&dir).unwrap();
    let path = dir.join("log");
    let mut log = LogBuilder::new(LogOptions::default(), &path).unwrap();
    let mut wb = WriteBatch::default();
    wb.put(b"a1", 1, b"whole batch one").unwrap();
    log.append(&wb).unwrap();
    let mut wb = WriteBatch::default();
    wb.put(b"k1", 2, b"value one").unwrap();
    wb.put(b"k2", 2, b"value two").unwrap();
    wb.put(b"k3", 2, b"value three").unwrap();
    log.append(&wb).unwrap();
    log.seal().unwrap();
    let bytes = std::fs::read(&path).unwrap();
    std::fs::write(&path, &bytes[..bytes.len() - 5]).unwrap();
    let mut iter = LogIterator::new(LogOptions::default(), &path).unwrap();
    let mut seen = vec![];
    let mut errors = 0;
    for _ in 0..8 {
        match iter.next() {
            Ok(Some(kvr)) => seen.push(String::from_utf8_lossy(kvr.key).to_string()),
            Ok(None) => break,
            Err(_) => errors += 1,
        }
    }
    println!("seen {seen:?}, {errors} errors");
    assert_eq!(vec!["a1".to_string()], seen, "entries of the torn batch were handed out after the error");
    assert!(errors >= 1);
}
