//! Witness for finding F11 (C11): ConcatenatingCursor::seek(k) must position at the first entry >= k of the
//! concatenation.  With children [a, b, c] ++ [x, y, z], seek("m") must land on x.
use sst::block::{BlockBuilder, BlockBuilderOptions};
use sst::concat_cursor::ConcatenatingCursor;
use sst::{Builder, Cursor};

fn block(keys: &[&str]) -> sst::block::BlockCursor {
    let mut b = BlockBuilder::new(BlockBuilderOptions::default());
    for k in keys {
        b.put(k.as_bytes(), 1, b"v").unwrap();
    }
    b.seal().unwrap().cursor()
}

fn main() {
    let mut failures = 0;
    for (children, target, expect) in [
        (vec![vec!["a", "b", "c"], vec!["x", "y", "z"]], "m", Some("x")),
        (vec![vec!["a", "b", "c"], vec!["x", "y", "z"]], "b", Some("b")),
        (vec![vec!["a", "b", "c"], vec!["x", "y", "z"]], "y", Some("y")),
        (vec![vec!["a", "b"], vec!["m", "n"], vec!["x", "y"]], "o", Some("x")),
        (vec![vec!["a", "b"], vec!["m", "n"], vec!["x", "y"]], "c", Some("m")),
        (vec![vec!["a", "b"], vec!["m", "n"], vec!["x", "y"]], "zz", None),
    ] {
        let cursors: Vec<_> = children.iter().map(|c| block(c)).collect();
        let mut cat = ConcatenatingCursor::new(cursors).unwrap();
        cat.seek(target.as_bytes()).unwrap();
        let got = cat.key().map(|k| String::from_utf8_lossy(k.key).to_string());
        let ok = got.as_deref() == expect;
        println!("{children:?}.seek({target:?}) -> {got:?} (expected {expect:?}) {}", if ok { "ok" } else { "WRONG" });
        if !ok {
            failures += 1;
        }
    }
    if failures > 0 {
        println!("FAIL: {failures} seeks landed on the wrong entry");
        std::process::exit(1);
    }
    println!("PASS");
}
