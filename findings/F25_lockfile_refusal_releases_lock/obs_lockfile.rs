//! Observation on the UNCHANGED tree (not part of the seed).  To run, copy to
//! utilz/tests/obs_lockfile.rs and `cargo test -p utilz --offline -j 6 --test obs_lockfile`.
//!
//! A second, refused, attempt to take the lock inside the process that already holds it opens and
//! then closes a second descriptor on the lock file.  POSIX record locks are dropped when *any*
//! descriptor for the file is closed, so the refused attempt silently releases the kernel lock and
//! another process can then take it while the first still believes it is exclusive.

use std::process::Command;

use utilz::lockfile::Lockfile;

const ENV: &str = "OBS_LOCKFILE_CHILD";

fn child_can_lock(path: &str) -> bool {
    let out = Command::new(std::env::current_exe().unwrap())
        .args(["--exact", "child", "--nocapture"])
        .env(ENV, path)
        .output()
        .unwrap();
    let stdout = String::from_utf8_lossy(&out.stdout);
    if stdout.contains("CHILD:LOCKED") {
        true
    } else if stdout.contains("CHILD:REFUSED") {
        false
    } else {
        panic!("child did not report: {stdout}");
    }
}

#[test]
fn child() {
    if let Ok(path) = std::env::var(ENV) {
        match Lockfile::lock(path).unwrap() {
            Some(_) => println!("CHILD:LOCKED"),
            None => println!("CHILD:REFUSED"),
        }
    }
}

#[test]
fn refused_second_attempt_keeps_the_first_lock() {
    let path = format!("{}/obs_lockfile.LOCKFILE", env!("CARGO_TARGET_TMPDIR"));
    let held = Lockfile::lock(&path).unwrap();
    assert!(held.is_some());
    assert!(!child_can_lock(&path), "sanity: lock excludes another process");
    // Same process asks again (e.g. a second Manifest::open of the same root) and is refused.
    assert!(Lockfile::lock(&path).unwrap().is_none());
    // The first lock is still held as far as this process is concerned ...
    assert!(held.is_some());
    // ... so another process must still be excluded.
    assert!(
        !child_can_lock(&path),
        "another process obtained the lock while this process still holds it"
    );
}
