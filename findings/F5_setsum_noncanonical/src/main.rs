//! Witness for finding F5 (C14.1): subtraction must be defined on every Setsum value, including those
//! built by from_digest from columns in the non-canonical range p..2^32-1.
//! Before the fix `Setsum::default() - Setsum::from_digest([0xff; 32])` panicked with "attempt to
//! subtract with overflow" in invert_state (and silently wrapped in release builds).
use setsum::Setsum;

fn main() {
    let x = Setsum::from_digest([0xff; 32]);
    let zero = Setsum::default();
    let neg = zero - x;
    assert_eq!(neg + x, zero, "subtraction must undo addition");
    let y = Setsum::from_digest([0xfb, 0xff, 0xff, 0xff].repeat(8).try_into().unwrap());
    assert_eq!((y - y), zero);
    assert_eq!(Setsum::from_hexdigest(&x.hexdigest()), Some(x), "hex digests round-trip");
    println!("PASS: arithmetic is total on from_digest values");
}
