//! Witness for finding F9 (C15.2): decoding arbitrary bytes must return a value or an error, never panic.
//! `[10, 4, 8, 5, 16, 7]` is field 1 (length 4) holding TWO enum fields (8 5 and 16 7).  A nested enum
//! message stops after its first field, and before the fix `message<M>::unpack` asserted that nothing
//! was left inside the length prefix: `assert_eq!(0, empty.len())` panicked.
use buffertk::Unpackable;
use prototk_derive::Message;

#[derive(Clone, Debug, Message)]
enum Inner {
    #[prototk(1, uint64)]
    A(u64),
    #[prototk(2, uint64)]
    B(u64),
}

impl Default for Inner {
    fn default() -> Self {
        Inner::A(0)
    }
}

#[derive(Clone, Debug, Default, Message)]
struct Outer {
    #[prototk(1, message)]
    inner: Inner,
}

fn main() {
    let bytes: &[u8] = &[10, 4, 8, 5, 16, 7];
    match <Outer as Unpackable>::unpack(bytes) {
        Ok((v, rest)) => println!("PASS: decoded {v:?}, {} bytes left", rest.len()),
        Err(e) => println!("PASS: rejected with an error: {e:?}"),
    }
}
