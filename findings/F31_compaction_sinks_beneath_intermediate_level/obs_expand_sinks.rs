//! Observation on the UNCHANGED tree (run with the seed patch reverted):  expand_compaction adds a
//! lower-level file that is fully inside the expanded key range to a compaction even though a file
//! of an intermediate level that only partially overlaps the range (and therefore stays where it
//! is) holds older versions of the same keys.  The newer versions sink below the older ones.
//!
//! Goes in lsmtk/tests/obs_expand_sinks.rs.

use std::path::{Path, PathBuf};
use std::sync::Arc;
use std::time::{Duration, Instant};

use arrrg::CommandLine;
use sst::{Builder, SstBuilder, SstOptions};

use lsmtk::{LsmTree, LsmtkOptions, SST_ROOT};

fn build_sst(dir: &Path, name: &str, entries: &[(&str, u64, &[u8])]) -> PathBuf {
    std::fs::create_dir_all(dir).expect("create staging dir");
    let path = dir.join(name);
    let mut builder = SstBuilder::new(SstOptions::default(), &path).expect("sst builder");
    for (key, timestamp, value) in entries.iter() {
        builder.put(key.as_bytes(), *timestamp, value).expect("sst put");
    }
    builder.seal().expect("sst seal");
    path
}

fn listing(root: &str) -> Vec<String> {
    let mut v: Vec<String> = std::fs::read_dir(SST_ROOT(root))
        .unwrap()
        .filter_map(|e| e.ok())
        .map(|e| e.file_name().to_string_lossy().to_string())
        .collect();
    v.sort();
    v
}

fn quiesce(root: &str) -> Vec<String> {
    let deadline = Instant::now() + Duration::from_secs(30);
    let mut last = listing(root);
    let mut since = Instant::now();
    loop {
        std::thread::sleep(Duration::from_millis(20));
        let now = listing(root);
        if now != last {
            last = now;
            since = Instant::now();
        } else if since.elapsed() > Duration::from_millis(700) {
            return last;
        }
        assert!(Instant::now() < deadline);
    }
}

#[test]
fn expand_keeps_latest() {
    let root = std::env::temp_dir().join(format!("obs_expand_sinks_{}", std::process::id()));
    let _ = std::fs::remove_dir_all(&root);
    let root = root.to_string_lossy().to_string();
    let staging = PathBuf::from(format!("{root}.staging"));
    let _ = std::fs::remove_dir_all(&staging);
    let (options, _) = LsmtkOptions::from_arguments_relaxed("obs", &["--path", &root]);

    let v20k = vec![b'y'; 4 * 1024];
    let v100k = vec![b'x'; 30 * 1024];
    let v50k = vec![b'p'; 12 * 1024];
    let tree = Arc::new(LsmTree::open(options.clone()).unwrap_or_else(|err| panic!("{err}")));
    let compactor = Arc::clone(&tree);
    std::thread::spawn(move || {
        let r = compactor.compaction_thread();
        eprintln!("compaction thread exit: {r:?}");
    });

    // Flush-like files, strictly increasing timestamps, ingested one at a time with the
    // compaction thread idle in between.
    let y = build_sst(&staging, "y.sst", &[("e", 1, &v20k), ("k", 1, &v20k)]); // -> L15
    let w = build_sst(&staging, "w.sst", &[("b", 2, b"b2"), ("f", 2, b"f2")]); // -> L14
    let w2 = build_sst(&staging, "w2.sst", &[("k", 3, b"k-OLD"), ("m", 3, b"m3")]); // -> L14
    let x = build_sst(&staging, "x.sst", &[("a", 4, &v100k), ("c", 4, &v100k)]); // -> L13
    let x2 = build_sst(&staging, "x2.sst", &[("d", 5, b"d5"), ("k", 5, b"k-NEW")]); // -> L13
    let p = build_sst(&staging, "p.sst", &[("dd", 6, &v50k), ("de", 6, &v50k)]); // -> L12

    for f in [&y, &w, &w2, &x, &x2] {
        tree.ingest(f).unwrap_or_else(|err| panic!("{err}"));
        quiesce(&root);
        eprintln!("{:?}", listing(&root));
    }
    assert_eq!(Some(b"k-NEW".to_vec()), tree.get(b"k").unwrap(), "before p");
    tree.ingest(&p).unwrap_or_else(|err| panic!("{err}"));
    quiesce(&root);
    eprintln!("{:?}", listing(&root));
    assert_eq!(Some(b"k-NEW".to_vec()), tree.get(b"k").unwrap(), "after p");
}
