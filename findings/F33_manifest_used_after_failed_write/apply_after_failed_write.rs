//! F33 (C13 / C02): mani integration test -- copy to mani/tests/.  A write that fails part-way (here: the file-size limit, the same shape as a
//! full disk or an exceeded quota) leaves the first lines of the edit in MANIFEST without their separator.  `Manifest` records the error in
//! `poison` but never looks at it again: the next `apply` appends right behind the torn edit, and on reopen the reader delivers the torn
//! lines and the next edit as ONE edit -- part of an edit whose `apply` returned Err is applied.
//!
//! Before the repair: "reopened: {a, b, x}" (a comes from the failed edit, whose other half -- b's removal, c -- is missing).
use std::collections::BTreeSet;

use mani::{Edit, Manifest, ManifestOptions};

const RLIMIT_FSIZE: i32 = 1;
const SIGXFSZ: i32 = 25;
const SIG_IGN: usize = 1;

#[repr(C)]
struct Rlimit {
    cur: u64,
    max: u64,
}

unsafe extern "C" {
    fn setrlimit(resource: i32, rlim: *const Rlimit) -> i32;
    fn signal(signum: i32, handler: usize) -> usize;
}

fn limit_file_size(bytes: u64) {
    let lim = Rlimit { cur: bytes, max: u64::MAX };
    assert_eq!(0, unsafe { setrlimit(RLIMIT_FSIZE, &lim) });
}

#[test]
fn a_failed_apply_leaves_nothing_behind_for_the_next_one() {
    // With SIGXFSZ ignored, a write past the limit is cut short and the following one fails with EFBIG.
    unsafe { signal(SIGXFSZ, SIG_IGN) };
    let root = std::env::temp_dir().join(format!("f33_{}", std::process::id()));
    let _ = std::fs::remove_dir_all(&root);
    let mut mani = Manifest::open(ManifestOptions::default(), &root).expect("open");
    let mut e0 = Edit::default();
    e0.add("b").unwrap();
    // Enough other strings that the size-ratio rollover stays out of the picture.
    for i in 0..64 {
        e0.add(&format!("filler-{i:032}")).unwrap();
    }
    mani.apply(e0).expect("first edit");
    let size = std::fs::metadata(root.join("MANIFEST")).unwrap().len();
    // The failing edit: remove b, add a, add c.  Lines are written "-b", "+a", "+c", separator; each is 8 hex digits + 2 + newline = 11
    // bytes.  Allow the file to grow by exactly two lines.
    let mut e1 = Edit::default();
    e1.rm("b").unwrap();
    e1.add("a").unwrap();
    e1.add("c").unwrap();
    limit_file_size(size + 22);
    let failed = mani.apply(e1);
    limit_file_size(u64::MAX);
    println!("failed apply: {:?}", failed.as_ref().map_err(|e| e.to_string().lines().next().unwrap_or("").to_string()));
    assert!(failed.is_err(), "the write was cut short");
    // The caller carries on (an ingest is retried once space has been freed).
    let mut e2 = Edit::default();
    e2.add("x").unwrap();
    let second = mani.apply(e2);
    println!("apply after the failure: {:?}", second.as_ref().map_err(|e| e.to_string().lines().next().unwrap_or("").to_string()));
    drop(mani);
    match Manifest::open(ManifestOptions::default(), &root) {
        Ok(reopened) => {
            let strs: BTreeSet<String> = reopened.strs().filter(|s| !s.starts_with("filler-")).map(|s| s.to_string()).collect();
            println!("reopened: {strs:?}");
            // Acceptable: {b} (neither later edit), {b, x} is not reachable (e1 precedes e2), {a, c, x} / {a, c} (both whole).
            let whole: [BTreeSet<String>; 3] = [
                ["b"].iter().map(|s| s.to_string()).collect(),
                ["a", "c"].iter().map(|s| s.to_string()).collect(),
                ["a", "c", "x"].iter().map(|s| s.to_string()).collect(),
            ];
            assert!(whole.contains(&strs), "part of the failed edit was applied: {strs:?}");
        }
        Err(err) => {
            println!("reopen failed explicitly: {}", err.to_string().lines().next().unwrap_or(""));
        }
    }
    assert!(second.is_err(), "a manifest whose last write failed keeps accepting edits");
}
