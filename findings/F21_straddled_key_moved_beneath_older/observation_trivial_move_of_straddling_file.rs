//! Observation for SEED C01_a5 (NOT part of the seeded change; probes the pristine tree).
//!
//! `find_trivial_move_for_one_sst` only asks whether the next level overlaps the candidate file.
//! It does not ask whether the candidate's *siblings on its own level* share its boundary key.
//! When a compaction has cut one key's versions across several files of a level, the first of
//! those files (the one with the newest versions) can be moved down on its own, leaving the
//! older versions of the key above the newer ones.
//!
//! Run with:  cargo test -p lsmtk --offline -j 6 --test observation_trivial_move_of_straddling_file

use std::collections::BTreeMap;
use std::path::{Path, PathBuf};
use std::sync::Arc;
use std::time::{Duration, Instant};

use arrrg::CommandLine;
use sst::{Builder, SstBuilder, SstOptions};

use lsmtk::{LsmTree, LsmtkOptions};

fn test_root(name: &str) -> String {
    let path = PathBuf::from(env!("CARGO_TARGET_TMPDIR"))
        .join(format!("seed_{name}_{}", std::process::id()));
    if path.exists() {
        std::fs::remove_dir_all(&path).expect("could not prepare for test");
    }
    String::from(path.to_string_lossy())
}

fn options(root: &str) -> LsmtkOptions {
    // NOTE:  arrrg insists on the canonical argument order.
    let args = [
        "--sst-target-file-size",
        "4096",
        "--sst-minimum-file-size",
        "4096",
        "--path",
        root,
        "--max-compaction-files",
        "8",
    ];
    let (options, free) = LsmtkOptions::from_arguments("USAGE: seed [OPTIONS]", &args);
    assert!(free.is_empty());
    options
}

fn sst_listing(root: &str) -> Vec<String> {
    let mut names: Vec<String> = std::fs::read_dir(PathBuf::from(root).join("sst"))
        .expect("sst dir should list")
        .map(|e| e.expect("dirent").file_name().to_string_lossy().to_string())
        .collect();
    names.sort();
    names
}

fn quiesce(root: &str) {
    let deadline = Instant::now() + Duration::from_secs(60);
    let mut last = sst_listing(root);
    let mut stable_since = Instant::now();
    while Instant::now() < deadline {
        std::thread::sleep(Duration::from_millis(50));
        let now = sst_listing(root);
        if now != last {
            last = now;
            stable_since = Instant::now();
        } else if stable_since.elapsed() > Duration::from_millis(500) {
            return;
        }
    }
    panic!("tree did not quiesce");
}

fn padded(tag: String, len: usize) -> Vec<u8> {
    let mut v = tag.into_bytes();
    v.push(b':');
    while v.len() < len {
        v.push(b'.');
    }
    v
}

// The hot key sorts BEFORE every other key, so the bottom level has a hole under it.
const HOT: &[u8] = b"key-0-hot";

type Entry = (Vec<u8>, u64, Vec<u8>);

fn build_sst(dir: &Path, name: &str, entries: &mut [Entry]) -> PathBuf {
    entries.sort_by(|a, b| a.0.cmp(&b.0).then(b.1.cmp(&a.1)));
    let path = dir.join(name);
    let mut builder = SstBuilder::new(SstOptions::default(), &path).expect("builder should open");
    for (key, timestamp, value) in entries.iter() {
        builder
            .put(key, *timestamp, value)
            .expect("put should succeed");
    }
    builder.seal().expect("seal should succeed");
    path
}

fn base_key(i: usize) -> Vec<u8> {
    format!("key-{}", i + 1).into_bytes()
}

#[test]
fn first_straddling_file_moves_down_alone() {
    let root = test_root("observation_trivial_move");
    let tree = Arc::new(LsmTree::open(options(&root)).expect("tree should open"));
    let tree_p = Arc::clone(&tree);
    let _compaction = std::thread::spawn(move || {
        let _ = tree_p.compaction_thread();
    });
    let staging = PathBuf::from(&root).join("staging");
    std::fs::create_dir(&staging).expect("staging dir");
    let mut model: BTreeMap<Vec<u8>, Vec<u8>> = BTreeMap::new();
    let mut ingest = |name: &str, entries: &mut [Entry]| {
        let path = build_sst(&staging, name, entries);
        tree.ingest(&path).expect("ingest should succeed");
        entries.sort_by_key(|e| e.1);
        for (key, _, value) in entries.iter() {
            model.insert(key.clone(), value.clone());
        }
        quiesce(&root);
    };

    // Nine old, narrow files, all above the hot key.
    for i in 0..9usize {
        let mut entries = vec![(
            base_key(i),
            1 + i as u64,
            padded(format!("base-{i}"), 100),
        )];
        ingest(&format!("base{i}.sst"), &mut entries);
    }

    // Two flushes from the time the key was hot, three overwrites each, amid ordinary traffic.
    let mut ts = 100u64;
    for flush in 0..2usize {
        let mut entries = vec![];
        for i in 0..9usize {
            ts += 1;
            entries.push((
                base_key(i),
                ts,
                padded(format!("flush-{flush}-{i}"), 100 + flush),
            ));
        }
        for _ in 0..3 {
            ts += 1;
            entries.push((
                HOT.to_vec(),
                ts,
                padded(format!("hot-ts-{ts}"), 1500 + flush),
            ));
        }
        ingest(&format!("hot{flush}.sst"), &mut entries);
    }

    // One more flush of ordinary traffic that does not touch the hot key.
    let mut entries = vec![];
    for i in 0..9usize {
        ts += 1;
        entries.push((base_key(i), ts, padded(format!("cold-{i}"), 600)));
    }
    ingest("cold.sst", &mut entries);
    quiesce(&root);

    for (key, value) in model.iter() {
        let got = tree.get(key).expect("get should succeed");
        assert_eq!(
            Some(String::from_utf8_lossy(&value[..12]).to_string()),
            got.as_ref()
                .map(|g| String::from_utf8_lossy(&g[..12]).to_string()),
            "key {} does not read as its last write",
            String::from_utf8_lossy(key),
        );
    }
    let _ = std::fs::remove_dir_all(&root);
}
