//! Witness for finding F12 (C11): a BoundsCursor never yields a key outside its bounds.
//! Data a, m, x, y with bounds (Unbounded, Included("m")): after seek("y") (past the end bound) a prev()
//! must land on m, the last key in range.  Before the fix prev() checked only the start bound and
//! returned x, a key beyond the end bound.
use std::ops::Bound;

use sst::block::{BlockBuilder, BlockBuilderOptions};
use sst::bounds_cursor::BoundsCursor;
use sst::{Builder, Cursor};

fn main() {
    let mut b = BlockBuilder::new(BlockBuilderOptions::default());
    for k in ["a", "m", "x", "y"] {
        b.put(k.as_bytes(), 1, b"v").unwrap();
    }
    let cursor = b.seal().unwrap().cursor();
    let mut bc = BoundsCursor::new(cursor, &Bound::<Vec<u8>>::Unbounded, &Bound::Included(b"m".to_vec())).unwrap();
    bc.seek(b"y").unwrap();
    assert!(bc.key().is_none(), "y is beyond the end bound");
    bc.prev().unwrap();
    let got = bc.key().map(|k| String::from_utf8_lossy(k.key).to_string());
    println!("seek(y); prev() -> {got:?}");
    let mut walk = vec![];
    let mut cur = got.clone();
    while let Some(k) = cur {
        walk.push(k);
        bc.prev().unwrap();
        cur = bc.key().map(|k| String::from_utf8_lossy(k.key).to_string());
    }
    println!("backward walk: {walk:?}");
    if walk != ["m", "a"] {
        println!("FAIL: expected [m, a]");
        std::process::exit(1);
    }
    println!("PASS");
}
