//! F29 (C19): cf_rrr::BitVector::rank(len) for lengths that are a multiple of the block size (23 * 63 = 1449 bits).
//! scrunch integration test: copy to scrunch/tests/.  Before the fix rank(1449) and rank(2898) answered None.
use scrunch::bit_vector::cf_rrr::BitVector as CfRrr;
use scrunch::bit_vector::BitVector;
use scrunch::bit_vector::ReferenceBitVector;
use scrunch::builder::Builder;

#[test]
fn rank_of_every_index_agrees_with_the_reference() {
    for len in [1usize, 62, 63, 64, 504, 1448, 1449, 1450, 2898, 4347] {
        for pat in 0..3usize {
            let bits: Vec<bool> = (0..len).map(|i| match pat { 0 => i % 3 == 0, 1 => true, _ => false }).collect();
            let mut exp_buf = vec![];
            let mut b = Builder::new(&mut exp_buf);
            ReferenceBitVector::construct(&bits, &mut b).unwrap();
            drop(b);
            let exp = ReferenceBitVector::parse(exp_buf.as_slice()).unwrap().0;
            let mut got_buf = vec![];
            let mut b = Builder::new(&mut got_buf);
            CfRrr::construct(&bits, &mut b).unwrap();
            drop(b);
            let got = CfRrr::parse(got_buf.as_slice()).unwrap().0;
            for index in 0..=len + 1 {
                assert_eq!(exp.rank(index), got.rank(index), "len {len} pattern {pat} rank({index})");
            }
        }
    }
}
