//! Witness for finding F14 (C16.4): descending (Direction::Reverse) variable-length elements that are prefixes of
//! one another sort in ASCENDING order.  `reverse_encoding` inverts the seven data bits of every byte but keeps the
//! continuation bit, so when two encodings first differ in a byte whose data bits are equal (the shorter value ends
//! there, the longer one continues with zero bits) the shorter one still sorts first.
use prototk::FieldNumber;
use tuple_key::{Direction, TupleKey};

fn enc(s: &str, dir: Direction) -> Vec<u8> {
    let mut tk = TupleKey::default();
    tk.extend_with_key(FieldNumber::must(1), s.to_string(), dir);
    tk.as_bytes().to_vec()
}

fn main() {
    let mut bad = 0;
    for (x, y) in [("a", "a\0"), ("a", "a\0b"), ("abcdefg", "abcdefgh"), ("", "\0")] {
        assert!(x < y);
        let (fx, fy) = (enc(x, Direction::Forward), enc(y, Direction::Forward));
        let (rx, ry) = (enc(x, Direction::Reverse), enc(y, Direction::Reverse));
        let fwd_ok = fx < fy;
        let rev_ok = rx > ry;
        println!("{:?} < {:?}: forward {} ({:02x?} vs {:02x?}); descending {} ({:02x?} vs {:02x?})",
                 x, y, if fwd_ok { "ok" } else { "WRONG" }, fx, fy, if rev_ok { "ok" } else { "WRONG" }, rx, ry);
        if !fwd_ok || !rev_ok {
            bad += 1;
        }
    }
    if bad > 0 {
        println!("FAIL: {bad} pairs are ordered wrongly");
        std::process::exit(1);
    }
    println!("PASS");
}
