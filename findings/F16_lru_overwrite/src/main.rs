//! F16 (C18): overwriting a key in sync42's LRU did not refresh its recency.
//!   insert(1); insert(2); insert(1); insert(3) at a two-entry capacity evicted key 1 (just written) instead of key 2,
//!   and an overwrite that grows the cache past its capacity evicted the very entry it had just written.
//! Prints what the cache answers; before the fix both lookups of key 1 answered None.
use sync42::lru::LeastRecentlyUsedCache;

fn main() {
    let lru = LeastRecentlyUsedCache::<u64, u64>::new(16);
    lru.insert(1, 10);
    lru.insert(2, 20);
    lru.insert(1, 11);
    lru.insert(3, 30);
    println!("after insert(1) insert(2) insert(1) insert(3): lookup(1) = {:?}, lookup(2) = {:?}", lru.lookup(&1), lru.lookup(&2));
    let lru = LeastRecentlyUsedCache::<u64, String>::new(10);
    lru.insert(1, "aaaaa".to_string());
    lru.insert(2, "bbbbb".to_string());
    lru.insert(1, "cccccccc".to_string());
    println!("after growing key 1 past the capacity: lookup(1) = {:?}", lru.lookup(&1));
}
