//! Witness for finding F13 (C15.2b): decoding arbitrary bytes must return a value or an error, never panic.
//! Every ID type made with `generate_id_prototk!` (lsmtk::CompactionID, rpc_pb::{TraceID, ClientID, HostID}, ...)
//! decodes `tag, length v, v bytes`.  The decoder checked `rem.len() >= v` and then took `rem[..16]` whatever
//! v was ("TODO(rescrv): Have an error if v != 16"): `[10, 1, 0xff]` (length 1) panicked with
//! "range end index 16 out of range for slice of length 1".
use buffertk::Unpackable;
use one_two_eight::{generate_id, generate_id_prototk};

generate_id! {WitnessID, "witness:"}
generate_id_prototk! {WitnessID}

fn main() {
    for bytes in [&[10u8, 1, 0xff][..], &[10, 0][..], &[10, 15, 1, 2, 3, 4, 5, 6, 7, 8, 9, 10, 11, 12, 13, 14, 15][..]] {
        match <WitnessID as Unpackable>::unpack(bytes) {
            Ok((v, rest)) => println!("PASS: decoded {v:?}, {} bytes left", rest.len()),
            Err(e) => println!("PASS: rejected with an error: {}", format!("{e:?}").lines().next().unwrap_or("")),
        }
    }
}
