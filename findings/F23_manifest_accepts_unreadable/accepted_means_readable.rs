//! F23 (C13): whatever an Edit accepts and Manifest::apply acknowledges must be readable on the next open.
//! mani integration test: copy to mani/tests/.  Before the fix every case below was accepted, apply returned Ok,
//! and the next Manifest::open failed ("unhandled case", "not ascii", "crc32c failure") or, for info key '+', read an add.
use std::fs::remove_dir_all;
use std::path::{Path, PathBuf};

use mani::{Edit, Manifest, ManifestOptions};

fn fresh(name: &str) -> PathBuf {
    let path = Path::new(env!("CARGO_TARGET_TMPDIR")).join(format!("accepted_means_readable_{name}"));
    if path.exists() {
        remove_dir_all(&path).unwrap();
    }
    path
}

/// Returns None if the edit refused the input, otherwise the strings (and info 'k') read back after a reopen.
fn reopen_after(name: &str, f: impl FnOnce(&mut Edit) -> Result<(), handled::SError>) -> Option<Result<(Vec<String>, Option<String>), String>> {
    let root = fresh(name);
    let mut mani = Manifest::open(ManifestOptions::default(), &root).unwrap();
    let mut edit = Edit::default();
    edit.add("ordinary string").unwrap();
    if f(&mut edit).is_err() {
        return None;
    }
    mani.apply(edit).expect("apply returned Ok");
    drop(mani);
    Some(match Manifest::open(ManifestOptions::default(), &root) {
        Ok(mani) => Ok((mani.strs().map(String::from).collect(), mani.info('k').map(String::from))),
        Err(err) => Err(format!("{err:?}")),
    })
}

#[test]
fn empty_string_round_trips() {
    let got = reopen_after("empty", |e| e.add(""));
    assert_eq!(Some(Ok((vec!["".to_string(), "ordinary string".to_string()], None))), got);
}

#[test]
fn empty_info_round_trips() {
    let got = reopen_after("empty_info", |e| e.info('k', ""));
    assert_eq!(Some(Ok((vec!["ordinary string".to_string()], Some("".to_string())))), got);
}

#[test]
fn non_ascii_is_refused_or_round_trips() {
    match reopen_after("non_ascii", |e| e.add("caf\u{e9}")) {
        None => {}
        Some(got) => assert_eq!(Ok((vec!["caf\u{e9}".to_string(), "ordinary string".to_string()], None)), got),
    }
}

#[test]
fn trailing_cr_is_refused_or_round_trips() {
    match reopen_after("cr", |e| e.add("dos\r")) {
        None => {}
        Some(got) => assert_eq!(Ok((vec!["dos\r".to_string(), "ordinary string".to_string()], None)), got),
    }
}

#[test]
fn info_key_plus_is_refused_or_stays_an_info() {
    match reopen_after("plus", |e| e.info('+', "smuggled")) {
        None => {}
        Some(got) => assert_eq!(Ok((vec!["ordinary string".to_string()], None)), got),
    }
}

#[test]
fn info_key_minus_is_refused_or_stays_an_info() {
    match reopen_after("minus", |e| e.info('-', "ordinary string")) {
        None => {}
        Some(got) => assert_eq!(Ok((vec!["ordinary string".to_string()], None)), got),
    }
}
