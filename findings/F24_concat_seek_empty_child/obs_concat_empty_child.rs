//! Observation on the unchanged tree (not part of the seed):  the concatenating cursor's seek
//! treats an empty child like a child whose keys are all less than the sought key and moves the
//! binary search to the right of it, even when the answer lives in a child to the left.

extern crate sst;

use sst::concat_cursor::ConcatenatingCursor;
use sst::reference::ReferenceBuilder;
use sst::Cursor;

#[test]
fn seek_left_of_an_empty_child() {
    let mut tables = vec![];
    let mut builder = ReferenceBuilder::default();
    builder.put(b"A", 0, b"a").unwrap();
    builder.put(b"B", 0, b"b").unwrap();
    tables.push(builder.seal().unwrap());
    tables.push(ReferenceBuilder::default().seal().unwrap());
    let mut builder = ReferenceBuilder::default();
    builder.put(b"E", 0, b"e").unwrap();
    builder.put(b"F", 0, b"f").unwrap();
    tables.push(builder.seal().unwrap());
    let cursors = tables.iter().map(|t| t.cursor()).collect();
    let mut cursor = ConcatenatingCursor::new(cursors).unwrap();
    cursor.seek(b"A").unwrap();
    assert_eq!(b"A".as_slice(), cursor.key().unwrap().key);
}

/// Every seek target against every arrangement of up to four children drawn from {empty, one, two entries}.
#[test]
fn seek_agrees_with_the_concatenation_for_all_small_arrangements() {
    let keys: Vec<Vec<u8>> = (b'A'..=b'H').map(|c| vec![c]).collect();
    // shapes: number of entries per child
    let shapes: Vec<Vec<usize>> = {
        let mut out = vec![];
        for n in 1..=4usize {
            let mut idx = vec![0usize; n];
            loop {
                out.push(idx.clone());
                let mut i = 0;
                while i < n {
                    idx[i] += 1;
                    if idx[i] <= 2 { break; }
                    idx[i] = 0;
                    i += 1;
                }
                if i == n { break; }
            }
        }
        out
    };
    for shape in shapes {
        let mut tables = vec![];
        let mut all: Vec<Vec<u8>> = vec![];
        let mut next = 0usize;
        for &cnt in shape.iter() {
            let mut builder = ReferenceBuilder::default();
            for _ in 0..cnt {
                // leave gaps: use every other key
                let k = keys[next].clone();
                next += 1;
                if next >= keys.len() { break; }
                builder.put(&k, 0, b"v").unwrap();
                all.push(k);
            }
            tables.push(builder.seal().unwrap());
        }
        for target in (b'@'..=b'I').map(|c| vec![c]) {
            let cursors = tables.iter().map(|t| t.cursor()).collect();
            let mut cursor = ConcatenatingCursor::new(cursors).unwrap();
            cursor.seek(&target).unwrap();
            let want = all.iter().find(|k| k.as_slice() >= target.as_slice());
            let got = cursor.key().map(|k| k.key.to_vec());
            assert_eq!(want.cloned(), got, "shape {shape:?} seek {:?}", target);
        }
    }
}
