//! F27 (C15): a struct-like enum variant that gained a field must still decode for a reader one version behind.
//! prototk integration test: copy to prototk/tests/.  Before the fix the old reader answered unknown-discriminant.
use buffertk::{stack_pack, Unpacker};
use prototk_derive::Message;

#[derive(Clone, Debug, Default, Message, PartialEq)]
enum New {
    #[prototk(1, message)]
    #[default]
    Nothing,
    #[prototk(2, message)]
    A {
        #[prototk(1, uint64)]
        x: u64,
        #[prototk(2, string)]
        y: String,
    },
}

#[derive(Clone, Debug, Default, Message, PartialEq)]
enum Old {
    #[prototk(1, message)]
    #[default]
    Nothing,
    #[prototk(2, message)]
    A {
        #[prototk(1, uint64)]
        x: u64,
    },
}

#[test]
fn old_reader_skips_the_new_field_of_a_variant() {
    let buf = stack_pack(New::A { x: 7, y: "added later".to_string() }).to_vec();
    let got: Result<Old, _> = Unpacker::new(&buf).unpack::<handled::SError, Old>();
    println!("{got:?}");
    assert_eq!(Old::A { x: 7 }, got.expect("the unknown field is skipped"));
}
