//! F37 (C12 / C02): sst integration test -- copy to sst/tests/.  A write that fails inside an append (here: a writer that accepts part of a
//! frame and then fails once) leaves a torn frame in the log.  LogBuilder did not remember the failure -- and ConcurrentLogBuilder's `poison`
//! flag is written and never read -- so later appends are accepted, acknowledged, and written behind the torn frame, where no reader reaches them.
//!
//! Before the repair: "reader failed after 882 of 1470 acknowledged entries".
//! Observations on the unchanged tree (not part of the seed).  Lives in sst/tests/obs_c12_a10.rs.

use std::io::Cursor;

use sst::Builder;
use sst::log::{LogBuilder, LogIterator, LogOptions, WriteBatch};
use sst::setsum::Setsum;

// O1:  WriteBatch::put folds the entry into the setsum before the size check that can reject it.
// O3:  a write error in the middle of a split frame leaves the builder usable; batches appended
// (and acknowledged) afterwards sit behind a first frame that has no second frame.
struct Flaky {
    data: Vec<u8>,
    budget: usize,
    failed: bool,
}

impl std::io::Write for Flaky {
    fn write(&mut self, buf: &[u8]) -> std::io::Result<usize> {
        if !self.failed && self.data.len() + buf.len() > self.budget {
            let take = self.budget - self.data.len();
            if take == 0 {
                self.failed = true;
                return Err(std::io::Error::other("transient failure"));
            }
            self.data.extend_from_slice(&buf[..take]);
            return Ok(take);
        }
        self.data.extend_from_slice(buf);
        Ok(buf.len())
    }

    fn flush(&mut self) -> std::io::Result<()> {
        Ok(())
    }
}

impl sst::log::Write for Flaky {
    fn fsync(&mut self) -> Result<(), sst::SError> {
        Ok(())
    }
}

fn batch(tag: &str, bytes: usize) -> (WriteBatch, Vec<Vec<u8>>) {
    let mut wb = WriteBatch::default();
    let mut keys = Vec::new();
    let mut idx = 0;
    while wb.approximate_size() < bytes {
        let key = format!("{tag}-{idx:08}").into_bytes();
        wb.put(&key, 1, &[b'v'; 1000]).unwrap();
        keys.push(key);
        idx += 1;
    }
    (wb, keys)
}

#[test]
fn o3_write_error_inside_a_split_frame() {
    use arrrg::CommandLine;
    // A small write buffer so that the pieces of a frame reach the writer one by one.
    let (options, _) = LogOptions::from_arguments_relaxed("", &["--write-buffer", "4096"]);
    let flaky = Flaky {
        data: Vec::new(),
        // Fail once, just past the 1 MiB boundary:  after the first frame and the padding.
        budget: (1 << 20) + 4,
        failed: false,
    };
    let mut log = LogBuilder::from_write(options.clone(), flaky).unwrap();
    let mut expected = Vec::new();
    let mut outcomes = Vec::new();
    for i in 0..6 {
        let (wb, keys) = batch(&format!("b{i}"), 300_000);
        match log.append(&wb) {
            Ok(()) => {
                expected.extend(keys);
                outcomes.push("ok");
            }
            Err(_) => outcomes.push("err"),
        }
    }
    let (_, flaky) = log.seal().unwrap();
    println!("outcomes: {outcomes:?}");
    let mut iter = LogIterator::from_reader(options, Cursor::new(flaky.data)).unwrap();
    let mut got = Vec::new();
    loop {
        match iter.next() {
            Ok(Some(kvr)) => got.push(kvr.key.to_vec()),
            Ok(None) => break,
            // A torn tail may be reported as an error -- but only after every acknowledged entry has been read.
            Err(_) if got == expected => break,
            Err(err) => panic!(
                "outcomes {outcomes:?}: reader failed after {} of {} acknowledged entries: {err:?}",
                got.len(),
                expected.len()
            ),
        }
    }
    assert!(expected == got);
}
