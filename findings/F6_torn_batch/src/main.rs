//! Witness for finding F6 (C06.5): a batch {a=i, z=i} must become visible atomically.
//! Before the fix readers used the sequence-number *allocation* counter as their snapshot timestamp,
//! so a scan could include a batch that was still being inserted and see a=i together with z=i-1.
use std::ops::Bound;
use std::sync::atomic::{AtomicBool, Ordering};
use std::sync::Arc;

use arrrg::CommandLine;
use lsmtk::{KeyValueStore, LsmtkOptions, WriteBatch};
use sst::Cursor;

fn main() {
    let dir = std::env::temp_dir().join(format!("f6-{}", std::process::id()));
    let _ = std::fs::remove_dir_all(&dir);
    let path = dir.to_string_lossy().to_string();
    let (options, _) = LsmtkOptions::from_arguments_relaxed("f6", &["--path", &path]);
    let kvs = Arc::new(KeyValueStore::open(options).expect("open"));
    // filler keys that sort between "a" and "z" make a scan take long enough to overlap a write
    let mut wb = WriteBatch::with_capacity(1000);
    for i in 0..20_000u32 {
        wb.put(format!("m{i:08}").as_bytes(), b"filler");
        if i % 1000 == 999 {
            kvs.write(std::mem::take(&mut wb)).expect("filler");
        }
    }
    let stop = Arc::new(AtomicBool::new(false));
    let writers: Vec<_> = (0..2)
        .map(|w| {
            let k = Arc::clone(&kvs);
            let s = Arc::clone(&stop);
            std::thread::spawn(move || {
                let mut i = 0u64;
                while !s.load(Ordering::Relaxed) {
                    i += 1;
                    let v = format!("{w}:{i}");
                    let mut wb = WriteBatch::with_capacity(2);
                    wb.put(b"a", v.as_bytes());
                    wb.put(b"z", v.as_bytes());
                    k.write(wb).expect("write");
                }
            })
        })
        .collect();
    let deadline = std::time::Instant::now() + std::time::Duration::from_secs(20);
    let mut scans = 0u64;
    let mut torn = None;
    while std::time::Instant::now() < deadline && torn.is_none() {
        let mut cursor = kvs.range_scan::<Vec<u8>>(&Bound::Unbounded, &Bound::Unbounded).expect("scan");
        cursor.seek_to_first().unwrap();
        cursor.next().unwrap();
        let (mut a, mut z) = (None, None);
        while let Some(kvr) = cursor.key_value() {
            if kvr.key == b"a" {
                a = kvr.value.map(|v| v.to_vec());
            }
            if kvr.key == b"z" {
                z = kvr.value.map(|v| v.to_vec());
            }
            cursor.next().unwrap();
        }
        scans += 1;
        if a != z {
            torn = Some((a, z));
        }
    }
    stop.store(true, Ordering::Relaxed);
    for w in writers {
        let _ = w.join();
    }
    let _ = std::fs::remove_dir_all(&dir);
    match torn {
        Some((a, z)) => {
            println!(
                "FAIL: scan {scans} saw a torn batch: a={:?} z={:?}",
                a.map(|v| String::from_utf8_lossy(&v).to_string()),
                z.map(|v| String::from_utf8_lossy(&v).to_string())
            );
            std::process::exit(1);
        }
        None => {
            println!("PASS: {scans} scans, every one saw a == z");
            std::process::exit(0);
        }
    }
}
