//! F35 (C13 / C02): mani integration test -- copy to mani/tests/.  `_apply` changes the in-memory state, then opens the log with a plain `?`:
//! the one fallible step of `_apply` / `rollover` that is not routed through `poison`.  When that open fails (here: the descriptor limit),
//! `apply` returns Err, the handle stays usable, and the edit stays in memory: the next rollover writes it out.
//!
//! Before the repair: "reopened: {a, b, x}" -- `a` comes from the edit whose apply returned Err.
use std::collections::BTreeSet;

use mani::{Edit, Manifest, ManifestOptions};

const RLIMIT_NOFILE: i32 = 7;

#[repr(C)]
struct Rlimit {
    cur: u64,
    max: u64,
}

unsafe extern "C" {
    fn setrlimit(resource: i32, rlim: *const Rlimit) -> i32;
    fn getrlimit(resource: i32, rlim: *mut Rlimit) -> i32;
}

fn open_fds() -> u64 {
    std::fs::read_dir("/proc/self/fd").unwrap().count() as u64
}

#[test]
fn an_edit_whose_apply_failed_is_not_written_later() {
    let root = std::env::temp_dir().join(format!("f35_{}", std::process::id()));
    let _ = std::fs::remove_dir_all(&root);
    let mut mani = Manifest::open(ManifestOptions::default(), &root).expect("open");
    let mut e0 = Edit::default();
    e0.add("b").unwrap();
    mani.apply(e0).expect("first edit");
    // No descriptor left for the open inside apply.
    let mut old = Rlimit { cur: 0, max: 0 };
    assert_eq!(0, unsafe { getrlimit(RLIMIT_NOFILE, &mut old) });
    let held: Vec<std::fs::File> = Vec::new();
    let lim = Rlimit { cur: open_fds() - 1, max: old.max };
    assert_eq!(0, unsafe { setrlimit(RLIMIT_NOFILE, &lim) });
    let mut e1 = Edit::default();
    e1.add("a").unwrap();
    let failed = mani.apply(e1);
    assert_eq!(0, unsafe { setrlimit(RLIMIT_NOFILE, &old) });
    drop(held);
    println!("failed apply: {:?}", failed.as_ref().map_err(|e| e.to_string().lines().next().unwrap_or("").to_string()));
    assert!(failed.is_err(), "the log could not be opened");
    // The caller carries on.
    let mut e2 = Edit::default();
    e2.add("x").unwrap();
    let second = mani.apply(e2);
    println!("apply after the failure: {:?}", second.as_ref().map_err(|e| e.to_string().lines().next().unwrap_or("").to_string()));
    let rolled = mani.rollover();
    println!("rollover after the failure: {:?}", rolled.as_ref().map_err(|e| e.to_string().lines().next().unwrap_or("").to_string()));
    drop(mani);
    let reopened = Manifest::open(ManifestOptions::default(), &root).expect("reopen");
    let strs: BTreeSet<String> = reopened.strs().map(|s| s.to_string()).collect();
    println!("reopened: {strs:?}");
    assert!(!strs.contains("a"), "an edit whose apply returned Err is in the manifest: {strs:?}");
}
