//! Observation probe (pristine tree): a death inside rollover after the hard link leaves MANIFEST and
//! MANIFEST.N as the same file.  The next open links the same content again as MANIFEST.N+1, and
//! `Manifest::verify` then reports that N+1 does not start with the roll-up of N.

use std::os::unix::process::ExitStatusExt;
use std::path::PathBuf;
use std::process::Command;

use mani::{Edit, Manifest, ManifestOptions};

const CHILD_ENV: &str = "OBS_VERIFY_CHILD";

#[repr(C)]
struct Rlimit {
    cur: u64,
    max: u64,
}

unsafe extern "C" {
    fn setrlimit(resource: i32, rlim: *const Rlimit) -> i32;
}

#[test]
fn child() {
    let Some(root) = std::env::var_os(CHILD_ENV) else {
        return;
    };
    let mut mani = Manifest::open(ManifestOptions::default(), PathBuf::from(root)).unwrap();
    let mut edit = Edit::default();
    for i in 0..10 {
        edit.add(&format!("sst/{:064x}.sst", i)).unwrap();
    }
    mani.apply(edit).unwrap();
    let mut edit = Edit::default();
    edit.rm(&format!("sst/{:064x}.sst", 3)).unwrap();
    mani.apply(edit).unwrap();
    let lim = Rlimit {
        cur: 100,
        max: u64::MAX,
    };
    assert_eq!(0, unsafe { setrlimit(1, &lim) });
    let _ = mani.rollover();
    std::process::exit(3);
}

#[test]
fn verify_after_crash_in_rollover() {
    if std::env::var_os(CHILD_ENV).is_some() {
        return;
    }
    let root = std::env::temp_dir().join(format!("obs_verify_after_crash_{}", std::process::id()));
    if root.exists() {
        std::fs::remove_dir_all(&root).unwrap();
    }
    let out = Command::new(std::env::current_exe().unwrap())
        .args(["child", "--exact", "--nocapture", "--test-threads=1"])
        .env(CHILD_ENV, &root)
        .output()
        .unwrap();
    assert_eq!(Some(25), out.status.signal());
    {
        let _mani = Manifest::open(ManifestOptions::default(), &root).unwrap();
    }
    let mut names: Vec<String> = std::fs::read_dir(&root)
        .unwrap()
        .map(|d| d.unwrap().file_name().to_string_lossy().to_string())
        .collect();
    names.sort();
    eprintln!("directory: {names:?}");
    let errs: Vec<_> = Manifest::verify(ManifestOptions::default(), &root).collect();
    for err in errs.iter() {
        eprintln!("verify: {err:?}");
    }
    std::fs::remove_dir_all(&root).unwrap();
    assert!(errs.is_empty(), "verify reported {} error(s)", errs.len());
}
