//! F20 (C02): a batch that writes one key twice.  lsmtk integration test: copy to lsmtk/tests/ in a scratch worktree and run
//! `cargo test -p lsmtk --offline --test dup_key_batch -- --nocapture`.  Before e21c210 the first test printed
//!   write -> Err("PANIC")   (skiplist assertion, after the batch was durable in the log)
//!   reopen -> Err("(error (phase sst) (code sort-order) ...)")   -- the store could not be reopened at all
//! and the second test aborted.

use arrrg::CommandLine;
use lsmtk::{KeyValueStore, LsmtkOptions, WriteBatch};

fn opts(root: &str) -> LsmtkOptions {
    let (o, _) = LsmtkOptions::from_arguments_relaxed("x", &["--path", root]);
    o
}

#[test]
fn batch_with_repeated_key() {
    let root = format!("{}/dupkey", env!("CARGO_TARGET_TMPDIR"));
    let _ = std::fs::remove_dir_all(&root);
    {
        let kvs = KeyValueStore::open(opts(&root)).expect("open");
        let mut wb = WriteBatch::default();
        wb.put(b"k", b"first");
        wb.put(b"k", b"second");
        let res = std::panic::catch_unwind(std::panic::AssertUnwindSafe(|| kvs.write(wb)));
        println!("write -> {:?}", res.as_ref().map(|r| r.as_ref().map_err(|e| e.to_string())).map_err(|_| "PANIC"));
    }
    let kvs = KeyValueStore::open(opts(&root));
    println!("reopen -> {:?}", kvs.as_ref().map(|_| ()).map_err(|e| e.to_string()));
    if let Ok(kvs) = kvs {
        let mut t = false;
        println!("load -> {:?}", kvs.load(b"k", &mut t).map_err(|e| e.to_string()));
    }
}

#[test]
fn last_write_of_a_batch_wins() {
    let root = format!("{}/dupkey2", env!("CARGO_TARGET_TMPDIR"));
    let _ = std::fs::remove_dir_all(&root);
    {
        let kvs = KeyValueStore::open(opts(&root)).expect("open");
        let mut wb = WriteBatch::default();
        wb.put(b"k", b"first");
        wb.put(b"j", b"other");
        wb.put(b"k", b"second");
        wb.del(b"d");
        wb.put(b"d", b"back");
        wb.put(b"e", b"gone");
        wb.del(b"e");
        kvs.write(wb).expect("write");
        let mut t = false;
        assert_eq!(Some(b"second".to_vec()), kvs.load(b"k", &mut t).unwrap());
        assert_eq!(Some(b"other".to_vec()), kvs.load(b"j", &mut t).unwrap());
        assert_eq!(Some(b"back".to_vec()), kvs.load(b"d", &mut t).unwrap());
        assert_eq!(None, kvs.load(b"e", &mut t).unwrap());
    }
    let kvs = KeyValueStore::open(opts(&root)).expect("reopen");
    let mut t = false;
    assert_eq!(Some(b"second".to_vec()), kvs.load(b"k", &mut t).unwrap());
    assert_eq!(None, kvs.load(b"e", &mut t).unwrap());
}
