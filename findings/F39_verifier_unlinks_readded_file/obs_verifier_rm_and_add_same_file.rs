//! Seed demonstration:  a compaction whose output already sits in the sst directory under its
//! content-addressed name must still leave manifest, files and contents in balance.
//!
//! Two ways to get there without any fault in the store's own code path:
//!
//! 1.  A garbage collection whose only discarded data is a file of lone tombstones:  the surviving
//!     output is entry-for-entry the other input, so it has the same setsum and the same name.
//! 2.  A compaction that is re-run after a crash that fell between linking the outputs and
//!     committing the manifest edit:  the second run produces the very same files.
//!
//! In both cases the manifest's recorded output setsum must equal the sum of the files it lists,
//! the manifest verifier must accept the history, and the store must reopen with all its data.

use std::collections::BTreeSet;
use std::fs;
use std::path::{Path, PathBuf};
use std::sync::Arc;
use std::time::{Duration, Instant};

use arrrg::CommandLine;
use mani::ManifestIterator;
use setsum::Setsum;
use sst::{Builder, SstBuilder, SstOptions};

use lsmtk::{LsmTree, LsmVerifier, LsmtkOptions, ManifestVerifier, MANI_ROOT, SST_FILE, SST_ROOT};

type Entry<'a> = (&'a [u8], u64, Option<&'a [u8]>);

fn fresh_root(name: &str) -> PathBuf {
    let root = std::env::temp_dir().join(format!("lsmtk_seed_{}_{}", name, std::process::id()));
    if root.exists() {
        fs::remove_dir_all(&root).unwrap();
    }
    root
}

fn options_for(root: &Path) -> LsmtkOptions {
    let (options, free) =
        LsmtkOptions::from_arguments_relaxed("seed", &["--path", root.to_str().unwrap()]);
    assert!(free.is_empty());
    assert_eq!(root.to_str().unwrap(), options.path());
    options
}

/// Build an sst outside the tree; returns its path and setsum.
fn build_sst(dir: &Path, name: &str, entries: &[Entry]) -> (PathBuf, Setsum) {
    fs::create_dir_all(dir).unwrap();
    let path = dir.join(name);
    let mut builder = SstBuilder::new(SstOptions::default(), &path).unwrap();
    for (key, ts, value) in entries {
        match value {
            Some(v) => builder.put(key, *ts, v).unwrap(),
            None => builder.del(key, *ts).unwrap(),
        }
    }
    let sst = builder.seal().unwrap();
    (path, sst.fast_setsum().into_inner())
}

/// Every fragment of the manifest, oldest first, the live file last.
fn manifest_fragments(root: &Path) -> Vec<PathBuf> {
    let mani_root = MANI_ROOT(root);
    let mut backups: Vec<u64> = fs::read_dir(&mani_root)
        .unwrap()
        .filter_map(|entry| mani::extract_backup(entry.unwrap().path()))
        .collect();
    backups.sort();
    let mut fragments: Vec<PathBuf> = backups
        .into_iter()
        .map(|idx| mani::BACKUP(&mani_root, idx))
        .collect();
    fragments.push(mani::MANIFEST(&mani_root));
    fragments
}

/// The committed state of the manifest:  the listed ssts, the recorded 'O', and whether any
/// transaction of any fragment removed a file (i.e. a compaction has committed).
fn read_manifest(root: &Path) -> (BTreeSet<String>, Option<String>, bool) {
    let mut strs = BTreeSet::new();
    let mut output = None;
    let mut saw_rm = false;
    for fragment in manifest_fragments(root) {
        // Each fragment opens with a snapshot of the state it continues from.
        strs.clear();
        for edit in ManifestIterator::open(fragment).unwrap() {
            let edit = edit.unwrap();
            for rmed in edit.rmed() {
                strs.remove(rmed);
                saw_rm = true;
            }
            for added in edit.added() {
                strs.insert(added.clone());
            }
            if let Some(o) = edit.get_info('O') {
                output = Some(o.clone());
            }
        }
    }
    (strs, output, saw_rm)
}

fn wait_for_compaction_commit(root: &Path) {
    let start = Instant::now();
    loop {
        let (_, _, saw_rm) = read_manifest(root);
        if saw_rm {
            break;
        }
        assert!(
            start.elapsed() < Duration::from_secs(30),
            "no compaction was committed within 30s; the scenario did not play out"
        );
        std::thread::sleep(Duration::from_millis(50));
    }
    // Let the compaction thread finish installing the version and retiring its inputs.
    std::thread::sleep(Duration::from_millis(500));
}

fn copy_dir(src: &Path, dst: &Path) {
    fs::create_dir_all(dst).unwrap();
    for entry in fs::read_dir(src).unwrap() {
        let entry = entry.unwrap();
        let to = dst.join(entry.file_name());
        if entry.file_type().unwrap().is_dir() {
            copy_dir(&entry.path(), &to);
        } else {
            fs::copy(entry.path(), &to).unwrap();
        }
    }
}

/// Check every clause we care about against a quiesced store rooted at `root`.
fn check_balanced(root: &Path, expect: &[(&[u8], &[u8])]) {
    let mut problems: Vec<String> = vec![];
    // 1.  Manifest 'O' equals the sum of the setsums of the listed files, and each listed file
    //     exists under its content-addressed name.
    let (strs, output, _) = read_manifest(root);
    let mut sum = Setsum::default();
    for s in strs.iter() {
        let setsum = Setsum::from_hexdigest(s).expect("manifest lists a valid digest");
        if !SST_FILE(root, setsum).exists() {
            problems.push(format!("manifest lists {s} but the file is missing"));
        }
        sum += setsum;
    }
    if Some(sum.hexdigest()) != output {
        problems.push(format!(
            "manifest 'O' is {output:?} but the ssts the manifest lists sum to {}",
            sum.hexdigest()
        ));
    }
    // 2.  The offline manifest verifier accepts the history the store itself produced.
    let verifier = ManifestVerifier::open().unwrap();
    for fragment in manifest_fragments(root) {
        if let Err(err) = verifier.verify(&fragment) {
            problems.push(format!(
                "verifier rejects {} of a history the store produced without faults: {err}",
                fragment.display()
            ));
        }
    }
    // 3.  A copy of the store (the original is still held open by the compaction thread) reopens
    //     and serves every key.
    let copy = root.with_extension("copy");
    if copy.exists() {
        fs::remove_dir_all(&copy).unwrap();
    }
    copy_dir(root, &copy);
    match LsmTree::open(options_for(&copy)) {
        Ok(reopened) => {
            for (key, value) in expect {
                let got = reopened.get(key).unwrap();
                if Some(value.to_vec()) != got {
                    problems.push(format!(
                        "key {:?} reads back {:?} after reopen",
                        String::from_utf8_lossy(key),
                        got.map(|v| v.len())
                    ));
                }
            }
        }
        Err(err) => problems.push(format!("store does not reopen: {err}")),
    };
    assert!(
        problems.is_empty(),
        "{} problem(s):\n{}",
        problems.len(),
        problems.join("\n")
    );
}

fn run_to_quiescence(root: &Path, ssts: &[PathBuf]) -> Arc<LsmTree> {
    let tree = Arc::new(LsmTree::open(options_for(root)).unwrap());
    // Ingest oldest first, with no compaction thread running:  everything sits in L0.
    for sst in ssts {
        tree.ingest(sst).unwrap();
    }
    tree
}

fn start_compaction(tree: &Arc<LsmTree>) {
    let tree = Arc::clone(tree);
    std::thread::spawn(move || {
        if let Err(err) = tree.compaction_thread() {
            eprintln!("compaction thread exited: {err}");
        }
    });
}

fn tombstone_keys() -> Vec<Vec<u8>> {
    (0..64).map(|i| format!("k2_{i:03}").into_bytes()).collect()
}


#[test]
fn obs_verifier_on_rm_and_add_of_same_file() {
    let _ = SST_ROOT("x");
    let root = fresh_root("obs");
    let scratch = root.with_extension("scratch");
    if scratch.exists() {
        fs::remove_dir_all(&scratch).unwrap();
    }
    let (a, a_setsum) = build_sst(
        &scratch,
        "a.sst",
        &[(b"k1", 1, Some(b"value1")), (b"k3", 1, Some(b"value3"))],
    );
    let keys = tombstone_keys();
    let b_entries: Vec<Entry> = keys.iter().map(|k| (k.as_slice(), 2, None)).collect();
    let (b, _) = build_sst(&scratch, "b.sst", &b_entries);
    let big = vec![b'x'; 4096];
    let (c, _) = build_sst(&scratch, "c.sst", &[(b"k2_010", 3, Some(&big))]);
    let tree = run_to_quiescence(&root, &[a, b, c]);
    start_compaction(&tree);
    wait_for_compaction_commit(&root);
    // more edits so that the fragment with the gc edit is no longer among the last two
    for i in 0..6u64 {
        let key = format!("z{i}");
        let (p, _) = build_sst(&scratch, &format!("z{i}.sst"), &[(key.as_bytes(), 10 + i, Some(b"v"))]);
        tree.ingest(&p).unwrap();
        std::thread::sleep(Duration::from_millis(100));
    }
    println!("fragments: {:?}", manifest_fragments(&root));
    println!("A = {}", a_setsum.hexdigest());
    check_balanced(&root, &[(b"k1", b"value1")]);
    let copy = root.with_extension("copy");
    let mut verifier = LsmVerifier::open(options_for(&copy)).unwrap();
    let res = verifier.verify();
    println!("verify: {:?}", res.as_ref().map_err(|e| e.to_string()));
    println!("A in sst: {}", SST_FILE(&copy, a_setsum).exists());
    res.unwrap();
}
