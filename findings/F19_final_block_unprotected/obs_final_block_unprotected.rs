//! Observation probe (NOT part of the seed; fails on the pristine tree too).
//! Goes in sst/tests/obs_final_block_unprotected.rs if you want to run it.
//!
//! The final block of an SST carries no checksum.  Flip one bit at a time in the final block and
//! report every flip after which open succeeds but metadata()/fast_setsum() differ from the
//! undamaged file.

extern crate sst;

use std::fs::{create_dir_all, read, remove_dir_all, write};

use sst::file_manager::FileHandle;
use sst::{Builder, Sst, SstBuilder, SstOptions};

#[test]
fn final_block_flips() {
    let dir = std::env::temp_dir().join(format!("obs_final_block_{}", std::process::id()));
    if dir.exists() {
        remove_dir_all(&dir).unwrap();
    }
    create_dir_all(&dir).unwrap();
    let pristine = dir.join("pristine.sst");
    let mut builder = SstBuilder::new(SstOptions::default(), &pristine).unwrap();
    for i in 0..200usize {
        builder
            .put(format!("key{i:05}").as_bytes(), 1000 + i as u64, b"value")
            .unwrap();
    }
    let sst = builder.seal().unwrap();
    let good_md = sst.metadata().unwrap();
    let good_setsum = sst.fast_setsum().hexdigest();
    drop(sst);
    let bytes = read(&pristine).unwrap();
    let mut fbo = [0u8; 8];
    fbo.copy_from_slice(&bytes[bytes.len() - 8..]);
    let fbo = u64::from_le_bytes(fbo) as usize;
    let mut silent = Vec::new();
    for offset in fbo..bytes.len() {
        for bit in 0..8 {
            let mut damaged = bytes.clone();
            damaged[offset] ^= 1 << bit;
            let path = dir.join("damaged.sst");
            write(&path, &damaged).unwrap();
            let res = std::panic::catch_unwind(|| {
                Sst::<FileHandle>::new(SstOptions::default(), &path)
                    .and_then(|sst| Ok((sst.metadata()?, sst.fast_setsum().hexdigest())))
            });
            match res {
                Err(_) => silent.push(format!("byte +{} bit {bit}: PANIC", offset - fbo)),
                Ok(Err(_)) => {}
                Ok(Ok((md, setsum))) => {
                    if md != good_md || setsum != good_setsum {
                        silent.push(format!(
                            "byte +{} bit {bit}: ts=[{}, {}] setsum_changed={}",
                            offset - fbo,
                            md.smallest_timestamp,
                            md.biggest_timestamp,
                            setsum != good_setsum
                        ));
                    }
                }
            }
        }
    }
    remove_dir_all(&dir).unwrap();
    eprintln!("final block is {} bytes; {} silent/panicking flips", bytes.len() - fbo, silent.len());
    for s in silent.iter() {
        eprintln!("  {s}");
    }
    assert!(silent.is_empty());
}
