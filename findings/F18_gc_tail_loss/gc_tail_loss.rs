//! F18 (C04): witness for the verifier accepting a GC that lost the last keys it had to keep.
//! An lsmtk integration test: copy to lsmtk/tests/ in a scratch worktree, `cargo test -p lsmtk --offline --test gc_tail_loss`.
//! Before e494886 `gc_tail_loss` failed (the verifier answered Ok); `gc_middle_loss` (the same loss in the middle) was always caught.
use std::fs::{create_dir_all, remove_dir_all, rename};
use std::path::{Path, PathBuf};
use arrrg::CommandLine;
use mani::{Edit, Manifest, ManifestOptions};
use setsum::Setsum;
use sst::{Builder, SstBuilder, SstOptions};
use lsmtk::{LsmVerifier, LsmtkOptions, MANI_ROOT, SST_FILE, TRASH_SST};

type Kv = (&'static str, u64, &'static str);

fn test_root(name: &str) -> String {
    let path = PathBuf::from(format!("scratch_obs_{name}"));
    if path.exists() { remove_dir_all(&path).unwrap(); }
    for dir in ["mani", "verify", "sst", "trash", "tmp"] {
        create_dir_all(path.join(dir)).unwrap();
    }
    String::from(path.to_string_lossy())
}
fn build_sst(tmp: &Path, entries: &[Kv]) -> Setsum {
    let mut builder = SstBuilder::new(SstOptions::default(), tmp).expect("builder");
    for (k, ts, v) in entries { builder.put(k.as_bytes(), *ts, v.as_bytes()).expect("put"); }
    builder.seal().expect("seal").fast_setsum().into_inner()
}
fn txn(mani: &mut Manifest, add: &[Setsum], rm: &[Setsum], input: Setsum, discard: Setsum) {
    let mut edit = Edit::default();
    for a in add { edit.add(&a.hexdigest()).unwrap(); }
    for r in rm { edit.rm(&r.hexdigest()).unwrap(); }
    edit.info('I', &input.hexdigest()).unwrap();
    edit.info('O', &(input - discard).hexdigest()).unwrap();
    edit.info('D', &discard.hexdigest()).unwrap();
    mani.apply(edit).unwrap();
}
fn finish(root: &str) -> Result<(), lsmtk::SError> {
    drop(Manifest::open(ManifestOptions::default(), MANI_ROOT(root)).unwrap());
    drop(Manifest::open(ManifestOptions::default(), MANI_ROOT(root)).unwrap());
    let (options, _) = LsmtkOptions::from_arguments("seed", &["--path", root]);
    LsmVerifier::open(options).unwrap().verify()
}

// Observation 1: a garbage collection that drops the *last* keys of its input, which the policy
// says must be retained, and books them as discard.
#[test]
fn gc_tail_loss() {
    let root = test_root("tail");
    let tmp = PathBuf::from(&root).join("tmp");
    let a = build_sst(&tmp.join("a.sst"), &[("a", 1, "old"), ("b", 1, "bee")]);
    let b = build_sst(&tmp.join("b.sst"), &[("a", 2, "new"), ("c", 2, "sea")]);
    // c@2 is the only version of c: versions = 1 must retain it.
    let z = build_sst(&tmp.join("z.sst"), &[("a", 2, "new"), ("b", 1, "bee")]);
    rename(tmp.join("a.sst"), TRASH_SST(&root, a)).unwrap();
    rename(tmp.join("b.sst"), TRASH_SST(&root, b)).unwrap();
    rename(tmp.join("z.sst"), SST_FILE(&root, z)).unwrap();
    let zero = Setsum::default();
    let mut mani = Manifest::open(ManifestOptions::default(), MANI_ROOT(&root)).unwrap();
    txn(&mut mani, &[], &[], zero, zero);
    txn(&mut mani, &[a], &[], zero, zero - a);
    txn(&mut mani, &[b], &[], a, zero - b);
    txn(&mut mani, &[z], &[a, b], a + b, a + b - z);
    drop(mani);
    let res = finish(&root);
    println!("gc_tail_loss: {:?}", res.as_ref().err().map(|e| e.to_string()));
    assert!(res.is_err(), "verifier accepted a gc that lost c@2");
}

// Same, but the lost key is in the middle: this one is caught ("data loss").
#[test]
fn gc_middle_loss() {
    let root = test_root("middle");
    let tmp = PathBuf::from(&root).join("tmp");
    let a = build_sst(&tmp.join("a.sst"), &[("a", 1, "old"), ("b", 1, "bee")]);
    let b = build_sst(&tmp.join("b.sst"), &[("a", 2, "new"), ("c", 2, "sea")]);
    let z = build_sst(&tmp.join("z.sst"), &[("a", 2, "new"), ("c", 2, "sea")]);
    rename(tmp.join("a.sst"), TRASH_SST(&root, a)).unwrap();
    rename(tmp.join("b.sst"), TRASH_SST(&root, b)).unwrap();
    rename(tmp.join("z.sst"), SST_FILE(&root, z)).unwrap();
    let zero = Setsum::default();
    let mut mani = Manifest::open(ManifestOptions::default(), MANI_ROOT(&root)).unwrap();
    txn(&mut mani, &[], &[], zero, zero);
    txn(&mut mani, &[a], &[], zero, zero - a);
    txn(&mut mani, &[b], &[], a, zero - b);
    txn(&mut mani, &[z], &[a, b], a + b, a + b - z);
    drop(mani);
    let res = finish(&root);
    println!("gc_middle_loss: {:?}", res.as_ref().err().map(|e| e.to_string()));
    assert!(res.is_err());
}

