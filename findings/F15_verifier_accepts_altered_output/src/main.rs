//! Witness for finding F15 (C04.8): the offline verifier accepts a history in which one entry of a compaction output
//! was altered.  `LsmVerifier::verify_one` takes the setsum of every added file from its *name* in the manifest; it opens
//! files only to replay a garbage collection, and there it compares keys, never values.  So a compaction output that was
//! rewritten with one value changed (same file name) passes verification.
//!
//!   f15 run <dir>     work -> idle -> idle -> (verify a pristine copy) -> tamper -> verify
use std::path::{Path, PathBuf};
use std::process::{exit, Command};
use std::sync::Arc;
use std::time::{Duration, Instant};

use arrrg::CommandLine;
use lsmtk::{LsmTree, LsmVerifier, LsmtkOptions};
use mani::ManifestIterator;
use sst::{Builder, Cursor, Sst, SstBuilder, SstOptions};

fn options(db: &Path) -> LsmtkOptions {
    let (options, _) = LsmtkOptions::from_arguments_relaxed(
        "f15",
        &["--path", db.to_str().unwrap(), "--l0-mandatory-compaction-threshold-files", "2", "--gc-policy", "versions = 1000"],
    );
    options
}

fn compaction_outputs(db: &Path) -> Vec<String> {
    let mut out = vec![];
    let mut frags: Vec<PathBuf> = std::fs::read_dir(lsmtk::MANI_ROOT(db)).unwrap().map(|e| e.unwrap().path()).collect();
    frags.sort();
    for frag in frags {
        if !frag.file_name().unwrap().to_string_lossy().starts_with("MANIFEST") {
            continue;
        }
        let Ok(iter) = ManifestIterator::open(&frag) else { continue };
        for (idx, edit) in iter.enumerate() {
            let Ok(edit) = edit else { break };
            if idx > 0 && edit.rmed().count() > 0 {
                out.extend(edit.added().map(|s| s.to_string()));
            }
        }
    }
    out
}

fn work(db: &Path) {
    let tree = Arc::new(LsmTree::open(options(db)).expect("open"));
    let t2 = Arc::clone(&tree);
    std::thread::spawn(move || {
        let _ = t2.compaction_thread();
    });
    let scratch = db.with_extension("scratch");
    std::fs::create_dir_all(&scratch).unwrap();
    for i in 0..8u64 {
        let path = scratch.join(format!("in{i}.sst"));
        let mut b = SstBuilder::new(SstOptions::default(), &path).unwrap();
        for k in 0..32u32 {
            b.put(format!("key{k:03}").as_bytes(), 1 + i, format!("value-{k}-from-{i}").as_bytes()).unwrap();
        }
        b.seal().unwrap();
        tree.ingest(&path).expect("ingest");
    }
    let start = Instant::now();
    while compaction_outputs(db).is_empty() && start.elapsed() < Duration::from_secs(30) {
        std::thread::sleep(Duration::from_millis(100));
    }
    std::thread::sleep(Duration::from_secs(2));
    exit(if compaction_outputs(db).is_empty() { 3 } else { 0 });
}

fn idle(db: &Path) {
    let tree = LsmTree::open(options(db)).expect("open");
    drop(tree);
}

fn tamper(db: &Path) -> String {
    for digest in compaction_outputs(db) {
        for dir in ["sst", "trash"] {
            let path = db.join(dir).join(format!("{digest}.sst"));
            if !path.exists() {
                continue;
            }
            let sst = <Sst>::new(SstOptions::default(), &path).expect("open output");
            let mut cursor = sst.cursor();
            cursor.seek_to_first().unwrap();
            cursor.next().unwrap();
            let tmp = db.with_extension("tampered.sst");
            let _ = std::fs::remove_file(&tmp);
            let mut b = SstBuilder::new(SstOptions::default(), &tmp).unwrap();
            let mut n = 0;
            while let Some(kvr) = cursor.key_value() {
                match kvr.value {
                    Some(v) if n == 0 => b.put(kvr.key, kvr.timestamp, format!("ALTERED-{}", String::from_utf8_lossy(v)).as_bytes()).unwrap(),
                    Some(v) => b.put(kvr.key, kvr.timestamp, v).unwrap(),
                    None => b.del(kvr.key, kvr.timestamp).unwrap(),
                }
                n += 1;
                cursor.next().unwrap();
            }
            b.seal().unwrap();
            drop(cursor);
            drop(sst);
            std::fs::copy(&tmp, &path).unwrap();
            return format!("{dir}/{digest}.sst ({n} entries, first value altered)");
        }
    }
    panic!("no compaction output found on disk");
}

fn verify(db: &Path) -> Result<(), String> {
    let mut v = LsmVerifier::open(options(db)).map_err(|e| format!("{e}"))?;
    v.verify().map_err(|e| format!("{e}"))
}

fn copy_dir(from: &Path, to: &Path) {
    std::fs::create_dir_all(to).unwrap();
    for e in std::fs::read_dir(from).unwrap() {
        let e = e.unwrap();
        let dst = to.join(e.file_name());
        if e.file_type().unwrap().is_dir() {
            copy_dir(&e.path(), &dst);
        } else {
            std::fs::copy(e.path(), dst).unwrap();
        }
    }
}

fn main() {
    let args: Vec<String> = std::env::args().collect();
    let db = PathBuf::from(args.get(2).expect("usage: f15 run|work|idle <dir>"));
    match args[1].as_str() {
        "work" => work(&db),
        "idle" => idle(&db),
        "run" => {
            let _ = std::fs::remove_dir_all(&db);
            let me = std::env::current_exe().unwrap();
            for phase in ["work", "idle", "idle"] {
                let st = Command::new(&me).arg(phase).arg(&db).status().unwrap();
                assert!(st.success(), "phase {phase} failed: {st}");
            }
            println!("compaction outputs recorded in the manifest: {}", compaction_outputs(&db).len());
            let control = db.with_extension("control");
            let _ = std::fs::remove_dir_all(&control);
            copy_dir(&db, &control);
            match verify(&control) {
                Ok(()) => println!("control: the verifier accepts the untouched history"),
                Err(e) => {
                    println!("INCONCLUSIVE: the verifier rejects the untouched history: {e}");
                    exit(2);
                }
            }
            println!("tampered: {}", tamper(&db));
            match verify(&db) {
                Ok(()) => {
                    println!("FAIL: the verifier ACCEPTED a history whose compaction output had one value altered");
                    exit(1);
                }
                Err(e) => println!("PASS: the verifier rejected the altered history: {}", e.lines().next().unwrap_or("")),
            }
        }
        _ => panic!("unknown phase"),
    }
}
