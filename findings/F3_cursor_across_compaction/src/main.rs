//! Witness for finding F3 (C07.2 / C08.5): a range-scan cursor opened before a compaction must
//! still be usable after the compaction retired its input SSTs.
//! Before the fix the first use of the cursor failed with NotFound .../sst/<setsum>.sst.
use std::ops::Bound;
use std::sync::Arc;

use arrrg::CommandLine;
use lsmtk::{KeyValueStore, LsmtkOptions};
use sst::Cursor;

fn main() {
    let dir = std::env::temp_dir().join(format!("f3-{}", std::process::id()));
    let _ = std::fs::remove_dir_all(&dir);
    let path = dir.to_string_lossy().to_string();
    let (options, _) = LsmtkOptions::from_arguments_relaxed(
        "f3",
        &["--path", &path, "--memtable-size-bytes", "20000", "--sst-cache-bytes", "1"],
    );
    let kvs = Arc::new(KeyValueStore::open(options).expect("open"));
    let k = Arc::clone(&kvs);
    std::thread::spawn(move || {
        let _ = k.memtable_thread();
    });
    let sst_dir = dir.join("sst");
    let count = |d: &std::path::Path| std::fs::read_dir(d).map(|r| r.count()).unwrap_or(0);
    let mut i = 0u64;
    while count(&sst_dir) < 3 {
        let key = format!("key{:08}", i % 5000);
        kvs.put(key.as_bytes(), &[b'v'; 64]).expect("put");
        i += 1;
    }
    let before: Vec<_> = std::fs::read_dir(&sst_dir).unwrap().map(|e| e.unwrap().file_name()).collect();
    let mut cursor = kvs
        .range_scan::<Vec<u8>>(&Bound::Unbounded, &Bound::Unbounded)
        .expect("range_scan");
    let k = Arc::clone(&kvs);
    std::thread::spawn(move || {
        let _ = k.compaction_thread();
    });
    // keep writing until every file the scan was opened over has left sst/
    let deadline = std::time::Instant::now() + std::time::Duration::from_secs(60);
    loop {
        let key = format!("key{:08}", i % 5000);
        kvs.put(key.as_bytes(), &[b'v'; 64]).expect("put");
        i += 1;
        let now: Vec<_> = std::fs::read_dir(&sst_dir).unwrap().map(|e| e.unwrap().file_name()).collect();
        if before.iter().all(|f| !now.contains(f)) {
            println!("the scan's input files left sst/ while the cursor is held");
            break;
        }
        // with the snapshot pinned the inputs stay; stop once compaction has clearly rewritten them
        let fresh = now.iter().filter(|f| !before.contains(f)).count();
        if fresh >= 3 && std::time::Instant::now() + std::time::Duration::from_secs(50) > deadline {
            println!("compaction produced {fresh} new files; the scan's inputs are still in sst/ (pinned)");
            break;
        }
        if std::time::Instant::now() > deadline {
            println!("INCONCLUSIVE: no compaction within 60s");
            std::process::exit(2);
        }
    }
    let mut n = 0u64;
    let r = (|| -> Result<(), lsmtk::SError> {
        cursor.seek_to_first()?;
        cursor.next()?;
        while cursor.key().is_some() {
            n += 1;
            cursor.next()?;
        }
        Ok(())
    })();
    match r {
        Ok(()) => {
            println!("PASS: cursor opened before compaction returned {n} keys afterwards");
        }
        Err(e) => {
            println!("FAIL: cursor opened before compaction is broken afterwards: {e:?}");
            std::process::exit(1);
        }
    }
    let _ = std::fs::remove_dir_all(&dir);
    std::process::exit(0);
}
