//! Witness for finding F1 (C07.1 / C17.3): the documentation of `SkipList::iter` promises that the
//! iterator keeps the list body alive after the list is dropped.  Before the fix `<SkipList as Drop>`
//! freed every node while the iterator still held the Arc of the head cell: use-after-free
//! (run under `cargo +nightly miri run`).
fn main() {
    let sl = skipfree::SkipList::<u64, u64>::default();
    sl.insert(1, 10);
    sl.insert(2, 20);
    let mut it = sl.iter();
    it.seek_to_first();
    drop(sl);
    assert!(it.is_valid());
    assert_eq!(*it.key(), 1);
    it.next();
    assert_eq!(*it.value(), 20);
    println!("PASS: iterator survived its list");
}
