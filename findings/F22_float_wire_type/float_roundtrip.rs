//! F22 (C15): prototk integration test -- copy to prototk/tests/.  Before 28f3234 the tag byte was 0x09 (wire type 1, 64-bit) in front of a
//! four-byte payload: a message with a float field could not be decoded by its own type ("buffer-too-short required 8") nor skipped.

use buffertk::{stack_pack, Unpacker};
use prototk_derive::Message;

#[derive(Clone, Debug, Default, Message, PartialEq)]
struct HasFloat {
    #[prototk(1, float)]
    x: f32,
    #[prototk(2, uint64)]
    y: u64,
}

#[derive(Clone, Debug, Default, Message, PartialEq)]
struct OnlyY {
    #[prototk(2, uint64)]
    y: u64,
}

#[test]
fn float_field_round_trips_and_is_skippable() {
    let v = HasFloat { x: 1.5, y: 7 };
    let buf = stack_pack(&v).to_vec();
    println!("{buf:?}");
    // standard wire encoding: tag (1 << 3 | 5) = 0x0d, four little-endian bytes
    assert_eq!(0x0d, buf[0]);
    let got: HasFloat = Unpacker::new(&buf).unpack().expect("decode by its own type");
    assert_eq!(v, got);
    let got: OnlyY = Unpacker::new(&buf).unpack().expect("a reader that does not know field 1 skips it");
    assert_eq!(OnlyY { y: 7 }, got);
}
