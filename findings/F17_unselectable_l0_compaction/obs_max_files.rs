//! OBSERVATION (not part of the seed):  on the unchanged tree, level 0 can become permanently
//! un-compactable when `level-0 files + overlapping level-1 files > max_compaction_files`.
//!
//! `find_best_compaction(lower_level = 0)` returns `(None, _)` from the max-files check before it
//! has built any candidate, so `next_compaction` has no mandatory compaction to emit.  If, in
//! addition, every deeper single-sst compaction has a negative score, `next_compaction` returns
//! None, the compaction thread sleeps, and once level 0 reaches the stall threshold ingest waits
//! forever.
//!
//! The tree is shaped with `--max-compaction-files 2`:  every level 1..=15 holds a "left" and a
//! "right" sst, each overlapping (and smaller than) the one beneath it, so nothing below level 0
//! is worth compacting; then ssts that span both halves are ingested.

use std::path::{Path, PathBuf};
use std::sync::Arc;
use std::sync::mpsc;
use std::time::Duration;

use arrrg::CommandLine;
use sst::{Builder, SstBuilder, SstOptions};

use lsmtk::{LsmTree, LsmtkOptions};

const PATIENCE: Duration = Duration::from_secs(20);

fn fresh_root(name: &str) -> PathBuf {
    let root = PathBuf::from(env!("CARGO_TARGET_TMPDIR")).join(name);
    if root.exists() {
        std::fs::remove_dir_all(&root).expect("could not clear test root");
    }
    root
}

fn build_sst(dir: &Path, name: &str, prefixes: &[&str], tag: &str, keys: usize) -> PathBuf {
    std::fs::create_dir_all(dir).expect("could not create staging dir");
    let path = dir.join(name);
    let mut builder = SstBuilder::new(SstOptions::default(), &path).expect("sst builder");
    for prefix in prefixes {
        for i in 0..keys {
            let key = format!("{prefix}{i:04}-{tag}");
            let value = vec![(i % 251) as u8; 1024];
            builder.put(key.as_bytes(), 1, &value).expect("put");
        }
    }
    builder.seal().expect("seal");
    path
}

fn ingest_returns(tree: &Arc<LsmTree>, sst: PathBuf) -> bool {
    let (tx, rx) = mpsc::channel();
    let tree = Arc::clone(tree);
    std::thread::spawn(move || {
        let res = tree.ingest(&sst);
        let _ = tx.send(res.map_err(|err| format!("{err}")));
    });
    match rx.recv_timeout(PATIENCE) {
        Ok(Ok(())) => true,
        Ok(Err(err)) => panic!("ingest failed: {err}"),
        Err(_) => false,
    }
}

#[test]
fn level0_wider_than_max_compaction_files() {
    let root = fresh_root("obs_max_files");
    let staging = fresh_root("obs_max_files_staging");
    let path = root.to_string_lossy().to_string();
    let (options, free) = LsmtkOptions::from_arguments(
        "USAGE: obs_max_files [OPTIONS]",
        &["--path", &path, "--max-compaction-files", "2"],
    );
    assert!(free.is_empty());
    let tree = Arc::new(LsmTree::open(options).expect("open"));
    let compactor = Arc::clone(&tree);
    std::thread::spawn(move || {
        let _ = compactor.compaction_thread();
    });
    // Levels 15 down to 1:  a left and a right sst per level, strictly shrinking.
    for (idx, keys) in (16..=30).rev().enumerate() {
        let tag = format!("l{idx:02}");
        let left = build_sst(&staging, &format!("left{idx}.sst"), &["a"], &tag, keys);
        let right = build_sst(&staging, &format!("right{idx}.sst"), &["b"], &tag, keys);
        assert!(ingest_returns(&tree, left), "shaping ingest (left {idx}) hung");
        assert!(ingest_returns(&tree, right), "shaping ingest (right {idx}) hung");
    }
    // Let the trivial moves settle.
    std::thread::sleep(Duration::from_secs(2));
    // Now ssts that span both halves.  Default stall threshold is 12 files in level 0.
    for idx in 0..16 {
        let tag = format!("w{idx:02}");
        let wide = build_sst(&staging, &format!("wide{idx}.sst"), &["a", "b"], &tag, 2);
        assert!(
            ingest_returns(&tree, wide),
            "ingest {idx} of a small sst spanning both halves did not return within {PATIENCE:?}"
        );
    }
}
