//! Witness for finding F4 (C11.1): ConcatenatingCursor over [a, b(tombstone), c] ++ [x] must yield
//! a, b, c, x.  Before the fix `next` used value().is_none() as its end-of-child test and jumped to the
//! second child at the tombstone, yielding a, x.
use sst::block::{BlockBuilder, BlockBuilderOptions};
use sst::concat_cursor::ConcatenatingCursor;
use sst::{Builder, Cursor};

fn main() {
    let mut b1 = BlockBuilder::new(BlockBuilderOptions::default());
    b1.put(b"a", 1, b"va").unwrap();
    b1.del(b"b", 1).unwrap();
    b1.put(b"c", 1, b"vc").unwrap();
    let mut b2 = BlockBuilder::new(BlockBuilderOptions::default());
    b2.put(b"x", 1, b"vx").unwrap();
    let c1 = b1.seal().unwrap().cursor();
    let c2 = b2.seal().unwrap().cursor();
    let mut cat = ConcatenatingCursor::new(vec![c1, c2]).unwrap();
    cat.seek_to_first().unwrap();
    let mut seen = Vec::new();
    loop {
        cat.next().unwrap();
        match cat.key() {
            Some(k) => seen.push(String::from_utf8_lossy(k.key).to_string()),
            None => break,
        }
    }
    println!("forward: {seen:?}");
    if seen == ["a", "b", "c", "x"] {
        println!("PASS");
    } else {
        println!("FAIL: expected [a, b, c, x]");
        std::process::exit(1);
    }
}
