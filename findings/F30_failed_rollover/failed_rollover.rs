//! F30 (C06 / C01): lsmtk integration test -- copy to lsmtk/tests/.  Before 33c98ea: "after 2nd failure: None" -- an acknowledged write was no
//! longer readable once a rollover had failed (its log name taken) and the flush thread was started again.

//! A flush thread whose new log cannot be created must leave the store as it was.
use std::sync::Arc;

use arrrg::CommandLine;
use lsmtk::{KeyValueStore, LsmtkOptions};

#[test]
fn failed_rollover_keeps_acknowledged_writes_readable() {
    let root = format!("{}/failed_rollover", env!("CARGO_TARGET_TMPDIR"));
    let _ = std::fs::remove_dir_all(&root);
    let (o, _) = LsmtkOptions::from_arguments_relaxed("x", &["--path", &root, "--memtable-size-bytes", "4096"]);
    let kvs = Arc::new(KeyValueStore::open(o).expect("open"));
    for i in 0..200u32 {
        kvs.put(format!("key-{i:04}").as_bytes(), &[7u8; 64]).expect("put");
    }
    // The fault: the name the next log wants is taken (create_new fails).
    for n in 0..2000u64 {
        let p = format!("{root}/log.{n}");
        if !std::path::Path::new(&p).exists() {
            std::fs::write(&p, b"").unwrap();
        }
    }
    let k = Arc::clone(&kvs);
    let first = std::thread::spawn(move || k.memtable_thread()).join().unwrap();
    println!("first flush attempt: {:?}", first.as_ref().map_err(|e| e.to_string()));
    assert!(first.is_err(), "the rollover cannot create its log");
    let mut t = false;
    println!("after 1st failure: {:?}", kvs.load(b"key-0001", &mut t).unwrap().map(|v| v.len()));
    // A supervisor restarts the flush thread; the fault persists.
    let k = Arc::clone(&kvs);
    let second = std::thread::spawn(move || k.memtable_thread()).join().unwrap();
    println!("second flush attempt: {:?}", second.as_ref().map_err(|e| e.to_string()));
    let got = kvs.load(b"key-0001", &mut t).unwrap();
    println!("after 2nd failure: {:?}", got.as_ref().map(|v| v.len()));
    assert!(got.is_some(), "an acknowledged write is no longer readable after a failed rollover");
}
