//! Witness for finding F10 (C03): a range scan must not return a key whose newest version is a tombstone.
//! Every component of the merged scan (each memtable, each L0 file, each deeper level) is wrapped in its own
//! PruningCursor, which drops tombstones *before* the merge; a tombstone in a newer component therefore cannot
//! shadow the value in an older component, and the scan resurrects the deleted key while load() reports it deleted.
use std::ops::Bound;
use std::sync::Arc;

use arrrg::CommandLine;
use lsmtk::{KeyValueStore, LsmtkOptions};
use sst::Cursor;

fn main() {
    let dir = std::env::temp_dir().join(format!("f10-{}", std::process::id()));
    let _ = std::fs::remove_dir_all(&dir);
    let path = dir.to_string_lossy().to_string();
    let (options, _) = LsmtkOptions::from_arguments_relaxed("f10", &["--path", &path, "--memtable-size-bytes", "2000"]);
    let kvs = Arc::new(KeyValueStore::open(options).expect("open"));
    let k = Arc::clone(&kvs);
    std::thread::spawn(move || {
        let _ = k.memtable_thread();
    });
    kvs.put(b"doomed", b"old-value").expect("put");
    // push the put into an SST
    let sst_dir = dir.join("sst");
    let mut i = 0u64;
    while std::fs::read_dir(&sst_dir).map(|r| r.count()).unwrap_or(0) < 1 {
        kvs.put(format!("filler{i:06}").as_bytes(), &[b'x'; 100]).expect("put");
        i += 1;
    }
    std::thread::sleep(std::time::Duration::from_millis(300));
    kvs.del(b"doomed").expect("del");
    let mut tomb = false;
    let point = kvs.load(b"doomed", &mut tomb).expect("load");
    let mut cursor = kvs.range_scan::<Vec<u8>>(&Bound::Unbounded, &Bound::Unbounded).expect("scan");
    cursor.seek_to_first().unwrap();
    cursor.next().unwrap();
    let mut seen = None;
    while let Some(kvr) = cursor.key_value() {
        if kvr.key == b"doomed" {
            seen = Some(kvr.value.map(|v| String::from_utf8_lossy(v).to_string()));
        }
        cursor.next().unwrap();
    }
    drop(cursor);
    let _ = std::fs::remove_dir_all(&dir);
    println!("load(doomed) = {point:?} (tombstone={tomb}); scan saw doomed = {seen:?}");
    if seen.is_some() {
        println!("FAIL: the scan returned a deleted key");
        std::process::exit(1);
    }
    println!("PASS");
    std::process::exit(0);
}
