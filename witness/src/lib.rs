//! Compile-fail / compile-pass twins: type-level facts of rescrv/blue that the MIR rules cannot see
//! because a violating program does not build.  Each `compile_fail,E0xxx` block has a twin that differs
//! only in the offending line and must compile, so a witness whose paths are merely wrong cannot pass.
//! Run with `cargo +nightly test --doc --offline` (error codes are honoured on nightly only).

/// W1 (C17.4): a listfree iterator borrows its list.
///
/// ```compile_fail,E0505
/// let list = listfree::List::<u64>::default();
/// list.prepend(1);
/// let mut it = list.iter();
/// drop(list); // moved out while borrowed by `it`
/// let _ = it.next();
/// ```
///
/// ```no_run
/// let list = listfree::List::<u64>::default();
/// list.prepend(1);
/// let mut it = list.iter();
/// let _ = it.next();
/// drop(it);
/// drop(list);
/// ```
pub mod w1 {}

/// W2 (C18.2): guards handed out by a WaitGuard's iterator cannot outlive the guard they came from.
///
/// ```compile_fail,E0505
/// let wl: sync42::wait_list::WaitList<u64> = sync42::wait_list::WaitList::new();
/// let guard = wl.link(1);
/// let later = guard.iter().next();
/// drop(guard); // still borrowed by `later`
/// drop(later);
/// drop(wl);
/// ```
///
/// ```no_run
/// let wl: sync42::wait_list::WaitList<u64> = sync42::wait_list::WaitList::new();
/// let guard = wl.link(1);
/// let later = guard.iter().next();
/// drop(later);
/// wl.unlink(guard);
/// drop(wl);
/// ```
pub mod w2 {}

/// W3 (C07.4): SST and block cursors own their data (`'static`), while a KeyRef borrows.
///
/// ```no_run
/// fn is_static<T: 'static>() {}
/// is_static::<sst::SstCursor>();
/// is_static::<sst::block::BlockCursor>();
/// is_static::<sst::Sst>();
/// is_static::<sst::block::Block>();
/// is_static::<skipfree::SkipListIterator<u64, u64>>();
/// ```
///
/// ```compile_fail,E0597
/// fn is_static<T: 'static>(_: T) {}
/// let key = vec![1u8, 2, 3];
/// let kr = sst::KeyRef::new(&key, 0); // borrows `key`
/// is_static(kr);
/// ```
///
/// ```no_run
/// fn is_any<T>(_: T) {}
/// let key = vec![1u8, 2, 3];
/// let kr = sst::KeyRef::new(&key, 0);
/// is_any(kr);
/// ```
pub mod w3 {}

/// W4 (C10.5): sealing consumes the builder; nothing can be put into a sealed block or log.
///
/// ```compile_fail,E0382
/// use sst::Builder;
/// let mut b = sst::block::BlockBuilder::new(sst::block::BlockBuilderOptions::default());
/// b.put(b"a", 1, b"v").unwrap();
/// let _block = b.seal().unwrap();
/// b.put(b"b", 1, b"v").unwrap(); // use after move
/// ```
///
/// ```no_run
/// use sst::Builder;
/// let mut b = sst::block::BlockBuilder::new(sst::block::BlockBuilderOptions::default());
/// b.put(b"a", 1, b"v").unwrap();
/// b.put(b"b", 1, b"v").unwrap();
/// let _block = b.seal().unwrap();
/// ```
///
/// ```compile_fail,E0382
/// use sst::Builder;
/// let mut out: Vec<u8> = Vec::new();
/// let mut lb = sst::log::LogBuilder::from_write(sst::log::LogOptions::default(), &mut out).unwrap();
/// lb.put(b"a", 1, b"v").unwrap();
/// let _ = lb.seal().unwrap();
/// lb.put(b"b", 2, b"v").unwrap(); // use after move
/// ```
///
/// ```no_run
/// use sst::Builder;
/// let mut out: Vec<u8> = Vec::new();
/// let mut lb = sst::log::LogBuilder::from_write(sst::log::LogOptions::default(), &mut out).unwrap();
/// lb.put(b"a", 1, b"v").unwrap();
/// lb.put(b"b", 2, b"v").unwrap();
/// let _ = lb.seal().unwrap();
/// ```
pub mod w4 {}

/// W5 (C13.2): one writer per manifest handle: `apply` needs `&mut self`, and a handle cannot be cloned.
///
/// ```compile_fail,E0596
/// fn apply_shared(m: &mani::Manifest) {
///     let _ = m.apply(mani::Edit::default()); // needs &mut
/// }
/// ```
///
/// ```no_run
/// fn apply_unique(m: &mut mani::Manifest) {
///     let _ = m.apply(mani::Edit::default());
/// }
/// ```
///
/// ```compile_fail,E0277
/// fn needs_clone<T: Clone>() {}
/// needs_clone::<mani::Manifest>(); // Manifest is not Clone (it owns the directory lock)
/// ```
///
/// ```no_run
/// fn needs_clone<T: Clone>() {}
/// needs_clone::<mani::ManifestOptions>();
/// ```
pub mod w5 {}
