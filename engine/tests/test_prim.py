#!/usr/bin/env python3
"""Unit tests of the CFG algorithms on hand-written fact records (python3 engine/tests/test_prim.py)."""
import os
import sys
import unittest

sys.path.insert(0, os.path.join(os.path.dirname(os.path.abspath(__file__)), ".."))

from blue import facts as F  # noqa: E402
from blue import prim as P  # noqa: E402

SP = ["/repo/x.rs", 1, 1, False]


def call(callee, args, dest, to, line=1):
    return {"t": "call", "decl": callee, "callee": callee, "rk": "item", "ga": "[]", "args": args, "dest": pl(dest), "to": to,
            "sp": ["/repo/x.rs", line, 1, False]}


def pl(l, *proj):
    return {"l": l, "p": list(proj)}


def mv(l):
    return {"k": "move", "pl": pl(l)}


def cp(l):
    return {"k": "copy", "pl": pl(l)}


def const(v, ty="u32"):
    return {"k": "const", "c": {"ty": ty, "v": v}}


def assign(l, rv):
    return {"s": "=", "lhs": pl(l), "rv": rv, "sp": SP}


def blk(st, term):
    return {"cleanup": False, "st": st, "term": term, "tsp": SP}


def mkfn(blocks, nlocals=12, argc=1):
    return F.Fn({"key": "t::f", "kind": "Fn", "sp": SP, "argc": argc, "locals": ["u32"] * nlocals, "names": [], "blocks": blocks}, "t")


class Reach(unittest.TestCase):
    def diamond(self):
        # bb0: a(); switch -> bb1 | bb2 ; bb1: sync(); goto bb3 ; bb2: goto bb3 ; bb3: ret
        return mkfn([
            blk([], call("t::a", [], 2, 1)),
            blk([], {"t": "switch", "discr": cp(2), "arms": [[0, 2]], "otherwise": 3}),
            blk([], call("t::sync", [], 3, 4)),
            blk([], {"t": "goto", "to": 4}),
            blk([], {"t": "return"}),
        ])

    def test_must_pass_detects_bypass(self):
        f = self.diamond()
        sync = P.call_points(f, r"t::sync$")
        self.assertEqual(len(sync), 1)
        p = P.must_pass(f, sync)
        self.assertIsNotNone(p)          # the `otherwise` edge bypasses sync
        a = P.call_points(f, r"t::a$")
        self.assertIsNone(P.must_pass(f, a))

    def test_canonical_labels(self):
        f = self.diamond()
        labels = [lab for lab, _ in f.blocks[1].succs]
        self.assertEqual(labels, ["sw:0", "sw:1"])   # single arm 0 -> other edge is sw:1

    def test_order(self):
        f = self.diamond()
        a = P.call_points(f, r"t::a$")
        s = P.call_points(f, r"t::sync$")
        self.assertEqual(P.order(f, a, s), [])
        self.assertTrue(P.order(f, s, a))

    def test_edge_dominates(self):
        f = self.diamond()
        s = P.call_points(f, r"t::sync$")[0]
        self.assertTrue(P.edge_dominates(f, 1, "sw:0", s))
        self.assertFalse(P.edge_dominates(f, 1, "sw:1", s))

    def test_error_exit_not_success(self):
        # bb0: r = g(); bb1: _0 = Err(r) ; goto bb2 ; bb2: return   -> no success path
        f = mkfn([
            blk([], call("t::g", [], 2, 1)),
            blk([assign(0, {"r": "agg", "adt": "core::result::Result", "variant": "Err", "fields": ["0"], "ops": [mv(2)]})], {"t": "goto", "to": 2}),
            blk([], {"t": "return"}),
        ])
        self.assertEqual(len(P.error_points(f)), 1)
        self.assertIsNone(P.must_pass(f, [(9, 9)]))   # no success path exists, so nothing bypasses

    def test_cycle_order(self):
        # loop: bb0 -> bb1(set) -> bb2(cas) -> switch: retry to bb3(advance) -> bb2 (!) bypasses set on retry
        f = mkfn([
            blk([], {"t": "goto", "to": 1}),
            blk([], call("t::set", [], 2, 2)),
            blk([], call("t::cas", [], 3, 3)),
            blk([], {"t": "switch", "discr": cp(3), "arms": [[0, 4]], "otherwise": 5}),
            blk([], call("t::advance", [], 4, 2)),
            blk([], {"t": "return"}),
        ])
        st = P.call_points(f, r"t::set$")
        cas = P.call_points(f, r"t::cas$")
        self.assertEqual(P.order(f, st, cas), [])                 # dominated from entry
        self.assertTrue(P.order(f, st, cas, cycles=True))         # but a retry reaches cas without set


class Origins(unittest.TestCase):
    def test_tuple_field_sensitive(self):
        # _2 = a(); _3 = b(); _4 = (move _2, move _3); _5 = move _4.1 ; use(_5)
        f = mkfn([
            blk([], call("t::a", [], 2, 1)),
            blk([], call("t::b", [], 3, 2)),
            blk([assign(4, {"r": "agg", "tuple": True, "ops": [mv(2), mv(3)]}),
                 assign(5, {"r": "use", "a": {"k": "move", "pl": pl(4, {"f": "1", "of": "()", "ty": "u32"})}})],
                call("t::use_it", [mv(5)], 6, 3)),
            blk([], {"t": "return"}),
        ])
        pt = P.call_points(f, r"t::use_it$")[0]
        calls = P.origin_calls(f, P.term_at(f, pt)["args"][0])
        self.assertEqual(calls, {"t::b"})

    def test_container_store(self):
        # _2 = Vec::new(); _3 = &mut _2; Vec::push(move _3, x()) ; consume(move _2)
        f = mkfn([
            blk([], call("alloc::vec::Vec::new", [], 2, 1)),
            blk([], call("t::x", [], 4, 2)),
            blk([assign(3, {"r": "ref", "mut": True, "pl": pl(2)})], call("alloc::vec::Vec::push", [mv(3), mv(4)], 5, 3)),
            blk([], call("t::consume", [mv(2)], 6, 4)),
            blk([], {"t": "return"}),
        ])
        pt = P.call_points(f, r"t::consume$")[0]
        self.assertIn("t::x", P.origin_calls(f, P.term_at(f, pt)["args"][0]))


class Swap(unittest.TestCase):
    def test_mem_swap_redefines_both(self):
        # _2 = a(); _3 = b(); swap(&mut _2, &mut _3); use(_2)  -> _2 may now hold b()'s value
        f = mkfn([
            blk([], call("t::a", [], 2, 1)),
            blk([], call("t::b", [], 3, 2)),
            blk([assign(4, {"r": "ref", "mut": True, "pl": pl(2)}), assign(5, {"r": "ref", "mut": True, "pl": pl(4, "*")}),
                 assign(6, {"r": "ref", "mut": True, "pl": pl(3)})], call("core::mem::swap", [mv(5), mv(6)], 7, 3)),
            blk([], call("t::use_it", [mv(2)], 8, 4)),
            blk([], {"t": "return"}),
        ])
        pt = P.call_points(f, r"t::use_it$")[0]
        self.assertEqual(P.origin_calls(f, P.term_at(f, pt)["args"][0]) & {"t::a", "t::b"}, {"t::a", "t::b"})


class Table(unittest.TestCase):
    def test_switch_table(self):
        f = mkfn([
            blk([], {"t": "switch", "discr": cp(1), "arms": [[0, 1], [5, 2]], "otherwise": 3}),
            blk([assign(0, {"r": "use", "a": const(10)})], {"t": "goto", "to": 4}),
            blk([assign(0, {"r": "use", "a": const(20)})], {"t": "goto", "to": 4}),
            blk([assign(0, {"r": "use", "a": const(99)})], {"t": "goto", "to": 4}),
            blk([], {"t": "return"}),
        ])
        t = dict(P.switch_table(f))
        self.assertEqual(t[("sw:0",)], ("const", 10))
        self.assertEqual(t[("sw:5",)], ("const", 20))
        self.assertEqual(t[("otherwise",)], ("const", 99))

    def test_switch_table_rejects_loops(self):
        f = mkfn([blk([], {"t": "goto", "to": 1}), blk([], {"t": "goto", "to": 0})])
        self.assertIsNone(P.switch_table(f))


class StripGenerics(unittest.TestCase):
    def test_paths(self):
        self.assertEqual(F.strip_generics("sst::Sst::<W>::new"), "sst::Sst::new")
        self.assertEqual(F.strip_generics("<sst::SstBuilder as sst::Builder>::seal"), "<sst::SstBuilder as sst::Builder>::seal")
        self.assertEqual(F.strip_generics("<alloc::vec::Vec<T, A> as core::ops::deref::Deref>::deref"), "<alloc::vec::Vec as core::ops::deref::Deref>::deref")


if __name__ == "__main__":
    unittest.main()
