#!/usr/bin/env python3
"""Unit tests of the exact piecewise-constant tabulation (python3 engine/tests/test_pwc.py)."""
import os
import sys
import unittest

sys.path.insert(0, os.path.join(os.path.dirname(os.path.abspath(__file__)), ".."))

from blue import facts as F  # noqa: E402
from blue import pwc  # noqa: E402

SP = ["/repo/x.rs", 1, 1, False]


def cp(l):
    return {"k": "copy", "pl": {"l": l, "p": []}}


def const(v, ty="u64"):
    return {"k": "const", "c": {"ty": ty, "v": v}}


def assign(l, rv):
    return {"s": "=", "lhs": {"l": l, "p": []}, "rv": rv, "sp": SP}


def blk(st, term):
    return {"cleanup": False, "st": st, "term": term, "tsp": SP}


def mkfn(blocks, locals_):
    return F.Fn({"key": "t::f", "kind": "Fn", "sp": SP, "argc": 1, "locals": locals_, "names": [], "blocks": blocks}, "t")


class Tab(unittest.TestCase):
    def test_two_steps(self):
        # if v <= 255 { 1 } else if v <= 65535 { 2 } else { 9 }
        f = mkfn([
            blk([assign(2, {"r": "bin", "op": "Le", "a": cp(1), "b": const(255)})], {"t": "switch", "discr": cp(2), "arms": [[0, 2]], "otherwise": 1}),
            blk([assign(0, {"r": "use", "a": const(1, "usize")})], {"t": "goto", "to": 5}),
            blk([assign(3, {"r": "bin", "op": "Le", "a": cp(1), "b": const(65535)})], {"t": "switch", "discr": cp(3), "arms": [[0, 4]], "otherwise": 3}),
            blk([assign(0, {"r": "use", "a": const(2, "usize")})], {"t": "goto", "to": 5}),
            blk([assign(0, {"r": "use", "a": const(9, "usize")})], {"t": "goto", "to": 5}),
            blk([], {"t": "return"}),
        ], ["usize", "u64", "bool", "bool"])
        self.assertEqual(pwc.tabulate(f), [(0, 255, 1), (256, 65535, 2), (65536, (1 << 64) - 1, 9)])

    def test_argument_in_arithmetic_is_rejected(self):
        # v + 1 is not piecewise constant
        f = mkfn([blk([assign(0, {"r": "bin", "op": "Add", "a": cp(1), "b": const(1)})], {"t": "return"})], ["u64", "u64"])
        with self.assertRaises(pwc.NotInClass):
            pwc.tabulate(f)

    def test_loop_is_rejected(self):
        f = mkfn([blk([], {"t": "goto", "to": 0})], ["u64", "u64"])
        with self.assertRaises(pwc.NotInClass):
            pwc.tabulate(f)


if __name__ == "__main__":
    unittest.main()
