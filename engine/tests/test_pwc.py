#!/usr/bin/env python3
"""Unit tests of the exact piecewise-constant tabulation (python3 engine/tests/test_pwc.py)."""
import os
import sys
import unittest

sys.path.insert(0, os.path.join(os.path.dirname(os.path.abspath(__file__)), ".."))

from blue import facts as F  # noqa: E402
from blue import pwc  # noqa: E402

SP = ["/repo/x.rs", 1, 1, False]


def cp(l):
    return {"k": "copy", "pl": {"l": l, "p": []}}


def const(v, ty="u64"):
    return {"k": "const", "c": {"ty": ty, "v": v}}


def assign(l, rv):
    return {"s": "=", "lhs": {"l": l, "p": []}, "rv": rv, "sp": SP}


def blk(st, term):
    return {"cleanup": False, "st": st, "term": term, "tsp": SP}


def mkfn(blocks, locals_):
    return F.Fn({"key": "t::f", "kind": "Fn", "sp": SP, "argc": 1, "locals": locals_, "names": [], "blocks": blocks}, "t")


class Tab(unittest.TestCase):
    def test_two_steps(self):
        # if v <= 255 { 1 } else if v <= 65535 { 2 } else { 9 }
        f = mkfn([
            blk([assign(2, {"r": "bin", "op": "Le", "a": cp(1), "b": const(255)})], {"t": "switch", "discr": cp(2), "arms": [[0, 2]], "otherwise": 1}),
            blk([assign(0, {"r": "use", "a": const(1, "usize")})], {"t": "goto", "to": 5}),
            blk([assign(3, {"r": "bin", "op": "Le", "a": cp(1), "b": const(65535)})], {"t": "switch", "discr": cp(3), "arms": [[0, 4]], "otherwise": 3}),
            blk([assign(0, {"r": "use", "a": const(2, "usize")})], {"t": "goto", "to": 5}),
            blk([assign(0, {"r": "use", "a": const(9, "usize")})], {"t": "goto", "to": 5}),
            blk([], {"t": "return"}),
        ], ["usize", "u64", "bool", "bool"])
        self.assertEqual(pwc.tabulate(f), [(0, 255, 1), (256, 65535, 2), (65536, (1 << 64) - 1, 9)])

    def test_argument_in_arithmetic_is_rejected(self):
        # v + 1 is not piecewise constant
        f = mkfn([blk([assign(0, {"r": "bin", "op": "Add", "a": cp(1), "b": const(1)})], {"t": "return"})], ["u64", "u64"])
        with self.assertRaises(pwc.NotInClass):
            pwc.tabulate(f)

    def test_loop_is_rejected(self):
        f = mkfn([blk([], {"t": "goto", "to": 0})], ["u64", "u64"])
        with self.assertRaises(pwc.NotInClass):
            pwc.tabulate(f)


class Translation(unittest.TestCase):
    def test_sign_offset(self):
        # fn f(x: i32) -> u32 { (x as u32).wrapping_add(0x8000_0000) }
        f = mkfn([
            blk([assign(2, {"r": "cast", "kind": "IntToInt", "a": cp(1), "ty": "u32"})],
                {"t": "call", "callee": "core::num::<impl u32>::wrapping_add", "args": [cp(2), const(0x80000000, "u32")], "dest": {"l": 0, "p": []}, "to": 1}),
            blk([], {"t": "return"}),
        ], ["u32", "i32", "u32"])
        self.assertEqual(pwc.tabulate_translation(f), [(-(1 << 31), (1 << 31) - 1, 0x80000000)])

    def test_two_pieces(self):
        # fn f(x: u32) -> u32 { let o = if x >= 10 { 5 } else { 7 }; x.wrapping_add(o) }
        f = mkfn([
            blk([assign(2, {"r": "bin", "op": "Ge", "a": cp(1), "b": const(10, "u32")})], {"t": "switch", "discr": cp(2), "arms": [[0, 2]], "otherwise": 1}),
            blk([assign(3, {"r": "use", "a": const(5, "u32")})], {"t": "goto", "to": 3}),
            blk([assign(3, {"r": "use", "a": const(7, "u32")})], {"t": "goto", "to": 3}),
            blk([], {"t": "call", "callee": "core::num::<impl u32>::wrapping_add", "args": [cp(1), cp(3)], "dest": {"l": 0, "p": []}, "to": 4}),
            blk([], {"t": "return"}),
        ], ["u32", "u32", "bool", "u32"])
        self.assertEqual(pwc.tabulate_translation(f), [(0, 9, 7), (10, (1 << 32) - 1, 5)])

    def test_product_is_rejected(self):
        f = mkfn([blk([assign(0, {"r": "bin", "op": "Mul", "a": cp(1), "b": const(3, "u32")})], {"t": "return"})], ["u32", "u32"])
        with self.assertRaises(pwc.NotInClass):
            pwc.tabulate_translation(f)

    def test_comparison_of_translated_value_is_rejected(self):
        # let y = x + 1; if y >= 10 ..  -- the breakpoints would move with the offset
        f = mkfn([
            blk([assign(2, {"r": "bin", "op": "Add", "a": cp(1), "b": const(1, "u32")}),
                 assign(3, {"r": "bin", "op": "Ge", "a": cp(2), "b": const(10, "u32")})], {"t": "switch", "discr": cp(3), "arms": [[0, 1]], "otherwise": 1}),
            blk([assign(0, {"r": "use", "a": cp(2)})], {"t": "return"}),
        ], ["u32", "u32", "u32", "bool"])
        with self.assertRaises(pwc.NotInClass):
            pwc.tabulate_translation(f)


if __name__ == "__main__":
    unittest.main()
