#!/usr/bin/env python3
"""Unit tests of the implicit-bounds prover on hand-written fact records (python3 engine/tests/test_bounds.py)."""
import os
import sys
import unittest

sys.path.insert(0, os.path.join(os.path.dirname(os.path.abspath(__file__)), ".."))

from blue import facts as F  # noqa: E402
from blue import bounds as B  # noqa: E402

SP = ["/repo/x.rs", 1, 1, False]


def pl(l, *proj):
    return {"l": l, "p": list(proj)}


def mv(l):
    return {"k": "move", "pl": pl(l)}


def cp(l, *proj):
    return {"k": "copy", "pl": pl(l, *proj)}


def const(v, ty="usize"):
    return {"k": "const", "c": {"ty": ty, "v": v}}


def assign(l, rv, *proj):
    return {"s": "=", "lhs": pl(l, *proj), "rv": rv, "sp": SP}


def call(callee, args, dest, to):
    return {"t": "call", "decl": callee, "callee": callee, "rk": "item", "ga": "[]", "args": args, "dest": pl(dest), "to": to, "sp": SP}


def blk(st, term):
    return {"cleanup": False, "st": st, "term": term, "tsp": SP}


LEN = "core::slice::<impl [T]>::len"
IDX = "core::slice::index::<impl core::ops::index::Index<I> for [T]>::index"


def mkfn(blocks, locals_, argc, names=()):
    return F.Fn({"key": "t::f", "kind": "Fn", "sp": SP, "argc": argc, "locals": locals_, "names": list(names), "blocks": blocks}, "t")


def guarded_slice(len_of, index_of, op="Lt", swap=False, kill=False):
    """fn f(a: &[u8], b: &[u8], v: usize):  if len(len_of) < v { return } ; [kill: v' = v + 1] ; index_of[..v]"""
    # locals: 0 ret, 1 a, 2 b, 3 v, 4 len, 5 cond, 6 range, 7 res, 8 ref
    a, b_ = (cp(4), cp(3))
    if swap:
        a, b_ = b_, a
    st_kill = [assign(3, {"r": "bin", "op": "Add", "a": cp(3), "b": const(1)})] if kill else []
    blocks = [
        blk([assign(8, {"r": "ref", "mut": False, "pl": pl(len_of, "*")})], call(LEN, [mv(8)], 4, 1)),
        blk([assign(5, {"r": "bin", "op": op, "a": a, "b": b_})], {"t": "switch", "discr": mv(5), "arms": [[0, 3]], "otherwise": 2}),
        blk([], {"t": "return"}),
        blk(st_kill + [assign(6, {"r": "agg", "adt": "core::ops::range::RangeTo<usize>", "fields": ["end"], "ops": [cp(3)]}),
             assign(9, {"r": "ref", "mut": False, "pl": pl(index_of, "*")})], call(IDX, [mv(9), mv(6)], 7, 4)),
        blk([], {"t": "return"}),
    ]
    locs = ["()", "&[u8]", "&[u8]", "usize", "usize", "bool", "core::ops::range::RangeTo<usize>", "&[u8]", "&[u8]", "&[u8]"]
    return mkfn(blocks, locs, 3)


class Prover(unittest.TestCase):
    def decide(self, f):
        bf = B.BF(None, f)
        ss = bf.sites()
        self.assertEqual(len(ss), 1)
        return bf.decide(ss[0])

    def test_guard_on_same_buffer(self):
        res = self.decide(guarded_slice(1, 1))
        self.assertTrue(all(j for _w, j in res), res)

    def test_guard_on_other_buffer(self):
        res = self.decide(guarded_slice(2, 1))          # checks b.len(), slices a
        self.assertFalse(all(j for _w, j in res), res)

    def test_off_by_one_is_fine_for_ranges_not_for_wrong_direction(self):
        # `if v < len { return }` keeps  len <= v : not a proof of v <= len
        res = self.decide(guarded_slice(1, 1, op="Lt", swap=True))
        self.assertFalse(all(j for _w, j in res), res)

    def test_value_changed_after_the_check(self):
        res = self.decide(guarded_slice(1, 1, kill=True))
        self.assertFalse(all(j for _w, j in res), res)

    def test_bounds_check_index(self):
        # a[3] with `if len(a) <= 3 { return }`
        blocks = [
            blk([assign(8, {"r": "ref", "mut": False, "pl": pl(1, "*")})], call(LEN, [mv(8)], 4, 1)),
            blk([assign(5, {"r": "bin", "op": "Le", "a": cp(4), "b": const(3)})], {"t": "switch", "discr": mv(5), "arms": [[0, 3]], "otherwise": 2}),
            blk([], {"t": "return"}),
            blk([assign(6, {"r": "un", "op": "PtrMetadata", "a": cp(1)}), assign(7, {"r": "bin", "op": "Lt", "a": const(3), "b": cp(6)})],
                {"t": "assert", "cond": mv(7), "expected": True, "to": 4, "msg": "BoundsCheck", "sp": SP, "bc_len": cp(6), "bc_index": const(3)}),
            blk([], {"t": "return"}),
        ]
        f = mkfn(blocks, ["()", "&[u8]", "&[u8]", "usize", "usize", "bool", "usize", "bool", "&[u8]"], 1)
        self.assertTrue(all(j for _w, j in self.decide(f)))
        # same with `< 3`: len == 3 passes the check and a[3] is out of range
        blocks[1]["st"][0]["rv"]["op"] = "Lt"
        f = mkfn(blocks, ["()", "&[u8]", "&[u8]", "usize", "usize", "bool", "usize", "bool", "&[u8]"], 1)
        self.assertFalse(all(j for _w, j in self.decide(f)))


if __name__ == "__main__":
    unittest.main()
